(* C04 at store level: a crash keeps a prefix of the write script of commit_changes / reorg;
   reopening and the engine's reorg to a durable block inside the window restores exactly the
   state as of that block -- for the WHOLE store (every versioned key, the three block tables,
   the height), and re-establishes the store invariant [SInv]. *)
From Brc.Model Require Import Base History Table BlockTable Store Crash.
From Brc.Proofs Require Import HistoryP KvP TableP BlockTableP StoreP.
From Coq Require Import Sorting.Sorted.

Arguments N.add : simpl never.
Arguments N.sub : simpl never.
Arguments N.leb : simpl never.
Arguments N.ltb : simpl never.
Arguments N.eqb : simpl never.
Arguments N.max : simpl never.
Arguments N.min : simpl never.

(* ---------- small facts about the write interpreter ---------- *)

Lemma apply_pwrites_app d a b : apply_pwrites d (a ++ b) = apply_pwrites (apply_pwrites d a) b.
Proof. unfold apply_pwrites. apply fold_left_app. Qed.

Lemma apply_pwrites_cons d w ws : apply_pwrites d (w :: ws) = apply_pwrites (apply_pwrite d w) ws.
Proof. reflexivity. Qed.

Definition set_v (P : pstate) (d : kv N) (c : kv vhist) : pstate :=
  mkP d c (p_hash P) (p_blk P) (p_raw P) (p_max P).
Definition set_hash (P : pstate) (x : kv N) : pstate :=
  mkP (p_db P) (p_cdb P) x (p_blk P) (p_raw P) (p_max P).
Definition set_blk (P : pstate) (x : kv N) : pstate :=
  mkP (p_db P) (p_cdb P) (p_hash P) x (p_raw P) (p_max P).
Definition set_raw (P : pstate) (x : kv N) : pstate :=
  mkP (p_db P) (p_cdb P) (p_hash P) (p_blk P) x (p_max P).

Definition puts (c d : kv N) : kv N := fold_left (fun d e => kv_put d (fst e) (snd e)) c d.
Definition dels (ks : list N) (d : kv N) : kv N := fold_left (fun d k => kv_del d k) ks d.

Lemma apply_bputs0 c P : apply_pwrites P (bputs 0 c) = set_hash P (puts c (p_hash P)).
Proof.
  unfold bputs. rewrite apply_pwrites_app. cbn [apply_pwrites fold_left apply_pwrite].
  revert P. induction c as [|e c IH]; intros P; [destruct P; reflexivity|].
  cbn [map]. rewrite apply_pwrites_cons. rewrite IH. destruct P. reflexivity.
Qed.

Lemma apply_bputs1 c P : apply_pwrites P (bputs 1 c) = set_blk P (puts c (p_blk P)).
Proof.
  unfold bputs. rewrite apply_pwrites_app. cbn [apply_pwrites fold_left apply_pwrite].
  revert P. induction c as [|e c IH]; intros P; [destruct P; reflexivity|].
  cbn [map]. rewrite apply_pwrites_cons. rewrite IH. destruct P. reflexivity.
Qed.

Lemma apply_bputs2 c P : apply_pwrites P (bputs 2 c) = set_raw P (puts c (p_raw P)).
Proof.
  unfold bputs. rewrite apply_pwrites_app. cbn [apply_pwrites fold_left apply_pwrite].
  revert P. induction c as [|e c IH]; intros P; [destruct P; reflexivity|].
  cbn [map]. rewrite apply_pwrites_cons. rewrite IH. destruct P. reflexivity.
Qed.

Lemma apply_bdel_list0 ks P : apply_pwrites P (map (PBlockDel 0) ks) = set_hash P (dels ks (p_hash P)).
Proof.
  revert P. induction ks as [|k ks IH]; intros P; [destruct P; reflexivity|].
  cbn [map]. rewrite apply_pwrites_cons, IH. destruct P. reflexivity.
Qed.
Lemma apply_bdel_list1 ks P : apply_pwrites P (map (PBlockDel 1) ks) = set_blk P (dels ks (p_blk P)).
Proof.
  revert P. induction ks as [|k ks IH]; intros P; [destruct P; reflexivity|].
  cbn [map]. rewrite apply_pwrites_cons, IH. destruct P. reflexivity.
Qed.
Lemma apply_bdel_list2 ks P : apply_pwrites P (map (PBlockDel 2) ks) = set_raw P (dels ks (p_raw P)).
Proof.
  revert P. induction ks as [|k ks IH]; intros P; [destruct P; reflexivity|].
  cbn [map]. rewrite apply_pwrites_cons, IH. destruct P. reflexivity.
Qed.

(* ---------- ordered maps: last key, deletes of a range ---------- *)
Section KvMore.
  Context {A : Type}.
  Notation kv := (list (N * A)).

  Lemma ksorted_last_max (m : kv) e x :
    ksorted m -> kv_last_key m = Some e -> In x (map fst m) -> x <= e.
  Proof.
    unfold kv_last_key. induction m as [|a t IH]; intros Hs Hl Hin; [destruct Hin|].
    inversion Hs as [|? ? Hst Hf]; subst. rewrite Forall_forall in Hf.
    destruct t as [|b t'].
    - cbn in Hl. injection Hl as <-. destruct Hin as [<-|[]]. lia.
    - assert (Hl' : option_map fst (last (map Some (b :: t')) None) = Some e) by exact Hl.
      destruct Hin as [<-|Hin]; [|apply (IH Hst Hl' Hin)].
      assert (He : In e (map fst (b :: t'))).
      { apply kv_last_key_in. exact Hl'. }
      apply in_map_iff in He as (y & <- & Hy). specialize (Hf y Hy). lia.
  Qed.

  Lemma ksorted_last_some (m : kv) : m <> [] -> exists e, kv_last_key m = Some e.
  Proof.
    intros Hne. unfold kv_last_key. destruct m as [|a t] using rev_ind; [contradiction|].
    rewrite map_app. cbn [map]. rewrite last_last. eexists. reflexivity.
  Qed.

  Lemma kv_get_dels (ks : list N) (m : kv) x :
    kv_get (fold_left (fun d k => kv_del d k) ks m) x =
      if existsb (N.eqb x) ks then None else kv_get m x.
  Proof.
    revert m. induction ks as [|k ks IH]; intros m; [reflexivity|].
    cbn [fold_left existsb]. rewrite IH, kv_get_del. rewrite (N.eqb_sym x k).
    destruct (k =? x); cbn [orb]; [|reflexivity]. destruct (existsb (N.eqb x) ks); reflexivity.
  Qed.

  Lemma ksorted_dels (ks : list N) (m : kv) :
    ksorted m -> ksorted (fold_left (fun d k => kv_del d k) ks m).
  Proof.
    revert m. induction ks as [|k ks IH]; intros m Hs; [exact Hs|].
    cbn [fold_left]. apply IH. apply ksorted_del. exact Hs.
  Qed.

  Lemma ksorted_puts (c m : kv) :
    ksorted m -> ksorted (fold_left (fun d e => kv_put d (fst e) (snd e)) c m).
  Proof.
    revert m. induction c as [|e c IH]; intros m Hs; [exact Hs|].
    cbn [fold_left]. apply IH. apply ksorted_put. exact Hs.
  Qed.

  Lemma kv_get_none_notin (m : kv) x : ~ In x (map fst m) -> kv_get m x = None.
  Proof.
    intros H. destruct (kv_get m x) eqn:E; [|reflexivity]. exfalso. apply H.
    apply kv_get_in_keys. congruence.
  Qed.
End KvMore.

Lemma existsb_seqN x start len :
  existsb (N.eqb x) (seqN start len) = (start <=? x) && (x <? start + N.of_nat len).
Proof.
  revert start. induction len as [|l IH]; intros start; cbn [seqN existsb].
  - destruct (N.leb_spec start x), (N.ltb_spec x (start + N.of_nat 0)); cbn [andb]; try reflexivity; lia.
  - rewrite IH. destruct (N.eqb_spec x start) as [->|Hne]; cbn [orb].
    + destruct (N.leb_spec start start), (N.ltb_spec start (start + N.of_nat (S l))); cbn [andb]; try reflexivity; lia.
    + destruct (N.leb_spec (start + 1) x), (N.ltb_spec x (start + 1 + N.of_nat l)),
        (N.leb_spec start x), (N.ltb_spec x (start + N.of_nat (S l))); cbn [andb]; try reflexivity; lia.
Qed.

(* deleting n+1 ..= e from an ordered map none of whose keys exceeds e keeps exactly the rows <= n *)
Lemma dels_range_is_filter {A} (m : list (N * A)) n e :
  ksorted m -> (forall k, In k (map fst m) -> k <= e) ->
  fold_left (fun d k => kv_del d k) (seqN (n + 1) (N.to_nat (e - n))) m = filter (fun r => fst r <=? n) m.
Proof.
  intros Hs Hmax. apply ksorted_ext.
  - apply ksorted_dels. exact Hs.
  - apply ksorted_filter. exact Hs.
  - intros x. rewrite kv_get_dels, existsb_seqN, kv_get_filter_le, N2Nat.id.
    destruct (N.leb_spec (n + 1) x), (N.ltb_spec x (n + 1 + (e - n))), (N.leb_spec x n);
      cbn [andb]; try reflexivity; try lia.
    apply kv_get_none_notin. intros Hin. specialize (Hmax x Hin). lia.
Qed.

Section CrashP.
  Variable W : N.

  Notation spec := (N -> option N).
  Notation TRepr := (@TRepr N W).
  Notation CellRepr := (@CellRepr N W).
  Notation cell := (@cell N).

  (* ================= (a) the scripts are the model's commit / reorg ================= *)

  Lemma vscript_apply b es : forall ws P,
    vscript W b es = Ok ws ->
    exists d' c', commit_entries W b (p_db P, p_cdb P) es = Ok (d', c') /\
                  apply_pwrites P ws = set_v P d' c'.
  Proof.
    induction es as [|[k h] t IH]; intros ws P Hv.
    - cbn in Hv. injection Hv as <-. exists (p_db P), (p_cdb P). split; [reflexivity|].
      destruct P; reflexivity.
    - cbn [vscript entry_writes] in Hv. cbn [commit_entries commit_entry].
      destruct (h_latest h) as [l| |] eqn:Hl; cbn [rbind] in Hv; try discriminate.
      destruct (vscript W b t) as [r| |] eqn:Hr; cbn [rbind] in Hv; try discriminate.
      injection Hv as <-. cbn [rbind]. rewrite apply_pwrites_app.
      set (P1 := apply_pwrites P (if h_is_old W h b then [latest_write k l; PHistDel k]
                                   else [PHistPut k h; latest_write k l])).
      destruct (IH r P1 eq_refl) as (d' & c' & Hce & Hap).
      assert (HP1 : P1 = set_v P (match l with Some v => kv_put (p_db P) k v | None => kv_del (p_db P) k end)
                                 (if h_is_old W h b then kv_del (p_cdb P) k else kv_put (p_cdb P) k h)).
      { subst P1. destruct P as [d c hh bb rr mm]. destruct (h_is_old W h b), l; reflexivity. }
      clearbody P1. subst P1. cbn [set_v p_db p_cdb p_hash p_blk p_raw p_max] in Hce, Hap.
      exists d', c'. split; [|exact Hap].
      destruct l; exact Hce.
  Qed.

  Lemma vscript_total b es : forall dc dc',
    commit_entries W b dc es = Ok dc' -> exists ws, vscript W b es = Ok ws.
  Proof.
    induction es as [|[k h] t IH]; intros [d c] dc' Hc; [eexists; reflexivity|].
    cbn [commit_entries commit_entry] in Hc. cbn [vscript entry_writes].
    destruct (h_latest h) as [l| |]; cbn [rbind] in Hc |- *; try discriminate.
    destruct l; destruct (IH _ _ Hc) as (r & ->); cbn [rbind]; eexists; reflexivity.
  Qed.

  Lemma vscript_nil b : vscript W b [] = Ok [].
  Proof. reflexivity. Qed.

  (* the order in which the cache entries are committed does not matter for the result *)
  Lemma commit_entries_perm b (es es' : kv vhist) d c d' c' :
    NoDup (map fst es) -> Permutation.Permutation es es' -> ksorted d -> ksorted c ->
    commit_entries W b (d, c) es = Ok (d', c') -> commit_entries W b (d, c) es' = Ok (d', c').
  Proof.
    intros Hnd Hp Hd Hc Hce.
    assert (Hnd' : NoDup (map fst es')).
    { apply (Permutation.Permutation_NoDup (Permutation.Permutation_map fst Hp) Hnd). }
    assert (Hne : forall k h, In (k, h) es' -> h <> []).
    { intros k h Hin Hnil. apply (Permutation.Permutation_in _ (Permutation.Permutation_sym Hp)) in Hin.
      pose proof (commit_entries_view W b es Hnd _ _ _ _ Hce k) as Hk.
      rewrite (kv_get_nodup_in _ _ _ Hnd Hin) in Hk. destruct Hk as (l & Hl & _). subst h. discriminate. }
    destruct (commit_entries_ok W b es' Hne (d, c)) as ([d2 c2] & Hce2).
    rewrite Hce2. f_equal.
    destruct (commit_entries_sorted W b _ _ _ _ _ Hd Hc Hce) as [S1 S2].
    destruct (commit_entries_sorted W b _ _ _ _ _ Hd Hc Hce2) as [S3 S4].
    assert (Hk : forall k, kv_get d2 k = kv_get d' k /\ kv_get c2 k = kv_get c' k).
    { intros k. pose proof (commit_entries_view W b es Hnd _ _ _ _ Hce k) as H1.
      pose proof (commit_entries_view W b es' Hnd' _ _ _ _ Hce2 k) as H2.
      rewrite <- (kv_get_perm es es' k Hnd Hp) in H2.
      destruct (kv_get es k) as [h|].
      - destruct H1 as (l1 & Hl1 & E1 & E2). destruct H2 as (l2 & Hl2 & E3 & E4).
        rewrite Hl1 in Hl2. injection Hl2 as <-. split; congruence.
      - destruct H1 as [E1 E2]. destruct H2 as [E3 E4]. split; congruence. }
    f_equal; apply ksorted_ext; try assumption; intros k; apply Hk.
  Qed.

  Theorem commit_script_ord_correct s es s' :
    ksorted (t_db (st_t s)) -> ksorted (t_cdb (st_t s)) -> NoDup (map fst (t_cache (st_t s))) ->
    Permutation.Permutation es (t_cache (st_t s)) ->
    sto_commit W s = Ok s' ->
    exists ws, commit_script_ord W s es = Ok ws /\ apply_pwrites (persistent s) ws = persistent s'.
  Proof.
    unfold sto_commit, t_commit, commit_script_ord. intros Hsd Hsc Hnd Hp Hc.
    destruct (commit_entries W (next_height s) (t_db (st_t s), t_cdb (st_t s)) (t_cache (st_t s)))
      as [[d' c']| |] eqn:Hce0; cbn [rbind] in Hc; try discriminate.
    injection Hc as <-.
    pose proof (commit_entries_perm _ _ _ _ _ _ _ Hnd (Permutation.Permutation_sym Hp) Hsd Hsc Hce0) as Hce.
    destruct (vscript_total _ _ _ _ Hce) as (v & Hv). rewrite Hv. cbn [rbind].
    eexists. split; [reflexivity|].
    rewrite apply_pwrites_cons. cbn [apply_pwrite].
    rewrite !apply_pwrites_app, apply_bputs0, apply_bputs1, apply_bputs2.
    destruct (vscript_apply _ _ _ (set_raw (set_blk (set_hash (persistent s) (puts (b_cache (st_hash s)) (p_hash (persistent s))))
                                              (puts (b_cache (st_blk s)) (p_blk (set_hash (persistent s) (puts (b_cache (st_hash s)) (p_hash (persistent s)))))))
                                   (puts (b_cache (st_raw s)) (p_raw (set_blk (set_hash (persistent s) (puts (b_cache (st_hash s)) (p_hash (persistent s))))
                                              (puts (b_cache (st_blk s)) (p_blk (set_hash (persistent s) (puts (b_cache (st_hash s)) (p_hash (persistent s))))))))))
                Hv) as (d2 & c2 & Hce2 & Hap).
    rewrite Hap. cbn [set_v set_raw set_blk set_hash persistent p_db p_cdb p_hash p_blk p_raw p_max] in Hce2 |- *.
    pose proof (eq_trans (eq_sym Hce) Hce2) as E. injection E as <- <-.
    reflexivity.
  Qed.

  (* ---------- block tables: ordered, last key = greatest key ---------- *)
  Definition bt_sorted (t : btable N) : Prop := ksorted (b_db t) /\ ksorted (b_cache t).
  Definition bsorted (s : store) : Prop :=
    bt_sorted (st_hash s) /\ bt_sorted (st_blk s) /\ bt_sorted (st_raw s).

  Lemma b_last_key_max (t : btable N) k :
    bt_sorted t -> In k (map fst (b_db t) ++ map fst (b_cache t)) ->
    exists e, b_last_key t = Some e /\ k <= e.
  Proof.
    intros [Hd Hc] Hin. unfold b_last_key.
    apply in_app_or in Hin as [Hin|Hin].
    - destruct (b_db t) as [|a l] eqn:E; [destruct Hin|].
      destruct (ksorted_last_some (a :: l) ltac:(discriminate)) as (e & He). rewrite He.
      pose proof (ksorted_last_max _ _ _ Hd He Hin) as Hle.
      destruct (kv_last_key (b_cache t)) as [y|]; cbn [omax]; eexists; (split; [reflexivity|lia]).
    - destruct (b_cache t) as [|a l] eqn:E; [destruct Hin|].
      destruct (ksorted_last_some (a :: l) ltac:(discriminate)) as (e & He). rewrite He.
      pose proof (ksorted_last_max _ _ _ Hc He Hin) as Hle.
      destruct (kv_last_key (b_db t)) as [y|]; cbn [omax]; eexists; (split; [reflexivity|lia]).
  Qed.

  Lemma b_last_key_none (t : btable N) : b_last_key t = None -> b_db t = [] /\ b_cache t = [].
  Proof.
    unfold b_last_key. intros H. split.
    - destruct (b_db t) as [|a l]; [reflexivity|].
      destruct (ksorted_last_some (a :: l) ltac:(discriminate)) as (e & He). rewrite He in H.
      destruct (kv_last_key (b_cache t)); discriminate.
    - destruct (b_cache t) as [|a l]; [reflexivity|].
      destruct (ksorted_last_some (a :: l) ltac:(discriminate)) as (e & He). rewrite He in H.
      destruct (kv_last_key (b_db t)); discriminate.
  Qed.

  (* the deletes of BlockDatabase::reorg(n) leave exactly the rows <= n in the database *)
  Lemma dels_of_reorg (t : btable N) n :
    bt_sorted t ->
    match b_last_key t with
    | Some e => dels (seqN (n + 1) (N.to_nat (e - n))) (b_db t)
    | None => b_db t
    end = filter (fun r => fst r <=? n) (b_db t).
  Proof.
    intros Hs. destruct (b_last_key t) as [e|] eqn:El.
    - unfold dels. apply dels_range_is_filter; [apply Hs|].
      intros k Hk. destruct (b_last_key_max t k Hs ltac:(apply in_or_app; left; exact Hk)) as (e' & He' & Hle).
      rewrite El in He'. injection He' as <-. exact Hle.
    - destruct (b_last_key_none _ El) as [-> _]. reflexivity.
  Qed.

  Lemma apply_bdels0 (t : btable N) n P :
    bt_sorted t -> p_hash P = b_db t ->
    apply_pwrites P (bdels 0 t n) = set_hash P (filter (fun r => fst r <=? n) (b_db t)).
  Proof.
    intros Hs HP. rewrite <- (dels_of_reorg t n Hs). unfold bdels.
    destruct (b_last_key t); [rewrite apply_bdel_list0, HP; reflexivity|].
    rewrite <- HP. destruct P; reflexivity.
  Qed.
  Lemma apply_bdels1 (t : btable N) n P :
    bt_sorted t -> p_blk P = b_db t ->
    apply_pwrites P (bdels 1 t n) = set_blk P (filter (fun r => fst r <=? n) (b_db t)).
  Proof.
    intros Hs HP. rewrite <- (dels_of_reorg t n Hs). unfold bdels.
    destruct (b_last_key t); [rewrite apply_bdel_list1, HP; reflexivity|].
    rewrite <- HP. destruct P; reflexivity.
  Qed.
  Lemma apply_bdels2 (t : btable N) n P :
    bt_sorted t -> p_raw P = b_db t ->
    apply_pwrites P (bdels 2 t n) = set_raw P (filter (fun r => fst r <=? n) (b_db t)).
  Proof.
    intros Hs HP. rewrite <- (dels_of_reorg t n Hs). unfold bdels.
    destruct (b_last_key t); [rewrite apply_bdel_list2, HP; reflexivity|].
    rewrite <- HP. destruct P; reflexivity.
  Qed.

  Lemma bt_sorted_commit (t : btable N) : bt_sorted t -> bt_sorted (b_commit t).
  Proof. intros [Hd Hc]. split; [apply ksorted_puts; exact Hd|exact Hc]. Qed.

  (* re-putting the surviving cached rows over "rows <= n of (db with all cached rows put)"
     is the same as over "rows <= n of db" *)
  Lemma puts_filter_absorb (c d : kv N) n :
    ksorted d -> ksorted c ->
    puts (filter (fun r => fst r <=? n) c) (filter (fun r => fst r <=? n) (puts c d))
    = puts (filter (fun r => fst r <=? n) c) (filter (fun r => fst r <=? n) d).
  Proof.
    intros Hd Hc. unfold puts.
    assert (Hfc : ksorted (filter (fun r : N * N => fst r <=? n) c)) by (apply ksorted_filter; exact Hc).
    apply ksorted_ext.
    - apply ksorted_puts. apply ksorted_filter. apply ksorted_puts. exact Hd.
    - apply ksorted_puts. apply ksorted_filter. exact Hd.
    - intros x. rewrite !(kv_get_fold_put _ _ _ (ksorted_nodup _ Hfc)).
      rewrite !kv_get_filter_le. rewrite (kv_get_fold_put _ _ _ (ksorted_nodup _ Hc)).
      destruct (x <=? n); [|reflexivity]. destruct (kv_get c x); reflexivity.
  Qed.

  Theorem reorg_script_ord_correct s n t1 es1 s' :
    bsorted s -> ksorted (t_db (st_t s)) -> ksorted (t_cdb (st_t s)) -> NoDup (map fst (t_cache (st_t s))) ->
    reorg_keys (st_t s) n (map fst (t_cdb (st_t s)) ++ map fst (t_cache (st_t s))) = Ok t1 ->
    Permutation.Permutation es1 (t_cache t1) ->
    sto_reorg W s n = Ok s' ->
    exists ws, reorg_script_ord W s n es1 = Ok ws /\ apply_pwrites (persistent s) ws = persistent s'.
  Proof.
    intros (Hsh & Hsb & Hsr) Hsd Hsc Hnd E1 Hp Hr. unfold sto_reorg in Hr. unfold reorg_script_ord.
    destruct (W + n <? match st_max s with Some m => m | None => 0 end); [discriminate|].
    unfold t_reorg in Hr. rewrite E1 in Hr. cbn [rbind] in Hr.
    unfold t_commit in Hr.
    destruct (commit_entries W n (t_db t1, t_cdb t1) (t_cache t1)) as [[d' c']| |] eqn:Hce0;
      cbn [rbind fst snd] in Hr; try discriminate.
    unfold sto_commit, t_commit in Hr. cbn [st_t t_clear t_cache t_db t_cdb commit_entries rbind fst snd] in Hr.
    injection Hr as <-.
    destruct (reorg_keys_view n _ _ _ E1) as (Hd1 & Hc1 & Hnd1 & _).
    assert (Hce : commit_entries W n (t_db t1, t_cdb t1) es1 = Ok (d', c')).
    { apply (commit_entries_perm n (t_cache t1) es1); [apply Hnd1; exact Hnd|apply Permutation.Permutation_sym; exact Hp
                                                      |rewrite Hd1; exact Hsd|rewrite Hc1; exact Hsc|exact Hce0]. }
    destruct (vscript_total _ _ _ _ Hce) as (v & Hv). rewrite Hv. cbn [rbind].
    eexists. split; [reflexivity|].
    rewrite !apply_pwrites_app, apply_bputs0.
    set (P1 := set_hash (persistent s) (puts (b_cache (st_hash s)) (p_hash (persistent s)))).
    destruct (vscript_apply _ _ _ P1 Hv) as (d2 & c2 & Hce2 & Hap). rewrite Hap.
    assert (Hdc : d2 = d' /\ c2 = c').
    { subst P1. cbn [set_hash persistent p_db p_cdb] in Hce2. rewrite <- Hd1, <- Hc1 in Hce2.
      pose proof (eq_trans (eq_sym Hce) Hce2) as E. injection E as <- <-. split; reflexivity. }
    destruct Hdc as [-> ->].
    rewrite (apply_bdels1 (st_blk s) n _ Hsb) by reflexivity.
    rewrite (apply_bdels2 (st_raw s) n _ Hsr) by reflexivity.
    rewrite (apply_bdels0 (b_commit (st_hash s)) n _ (bt_sorted_commit _ Hsh)) by reflexivity.
    rewrite apply_pwrites_cons. cbn [apply_pwrite].
    rewrite !apply_pwrites_app, apply_bputs0, apply_bputs1, apply_bputs2.
    subst P1.
    cbn [set_v set_raw set_blk set_hash persistent p_db p_cdb p_hash p_blk p_raw p_max
         sto_clear st_t st_hash st_blk st_raw st_max st_lbn b_clear b_commit b_reorg b_db b_cache t_clear t_db t_cdb].
    fold (puts (b_cache (st_hash s)) (b_db (st_hash s))).
    rewrite (puts_filter_absorb _ _ n (proj1 Hsh) (proj2 Hsh)).
    reflexivity.
  Qed.

  (* ================= (b), (c): crashes ================= *)

  (* ---------- one key ---------- *)
  Lemma CellRepr_raise (c : cell) S a C : CellRepr c S S a a -> a <= C -> CellRepr c S S C C.
  Proof.
    intros [(flp & Rp) Rd Rm Rc] H. constructor.
    - exists flp. apply (Repr_mono W _ _ a); assumption.
    - assumption.
    - destruct (c_m c); [|assumption]. destruct Rm as (fl & R). exists fl.
      apply (Repr_mono W _ _ a); assumption.
    - lia.
  Qed.

  Lemma CellRepr_ext (c : cell) S S' Sv Sv' a b :
    CellRepr c S Sv a b -> (forall m, S m = S' m) -> (forall m, Sv m = Sv' m) -> CellRepr c S' Sv' a b.
  Proof.
    intros [(flp & Rp) Rd Rm Rc] H1 H2. constructor.
    - exists flp. apply (Repr_ext W _ Sv); assumption.
    - assumption.
    - destruct (c_m c).
      + destruct Rm as (fl & R). exists fl. apply (Repr_ext W _ S); assumption.
      + intros m. rewrite <- H1, <- H2. apply Rm.
    - assumption.
  Qed.

  (* [crash_in_commit_recovers] (TableP) with the clock of the recovered cell made explicit, so
     that the recovered cells assemble into a table invariant again *)
  Lemma cell_crash_recovers (c : cell) S Sv clk sclk b cd n C :
    CellRepr c S Sv clk sclk ->
    (forall m, m <= cd -> S m = Sv m) ->
    n <= cd -> N.max clk (b - 1) <= n + W -> N.max (N.max clk (b - 1)) (n - 1) <= C ->
    forall K, (K = crash_none c \/ crash_mid W b c = Ok K \/ crash_both W b c = Ok K) ->
    exists c', c_reorg W n K = Ok c' /\ CellRepr c' (s_reorg S n) (s_reorg S n) C C.
  Proof.
    intros CR Hagree Hn Hwin HC K HK.
    assert (Hsc : sclk <= clk) by (destruct CR; assumption).
    assert (Hext : forall m, s_reorg Sv n m = s_reorg S n m).
    { intros m. unfold s_reorg. symmetry. apply Hagree. lia. }
    assert (G0 : exists c', c_reorg W n (crash_none c) = Ok c' /\
                            CellRepr c' (s_reorg S n) (s_reorg S n) C C).
    { pose proof (CellRepr_clear W _ _ _ _ _ CR) as CR0.
      destruct (CellRepr_reorg W _ _ _ _ _ n CR0 ltac:(lia)) as (c' & Hc' & CR').
      exists c'. split; [exact Hc'|].
      apply (CellRepr_raise _ _ (N.max sclk (n - 1))); [|lia].
      apply (CellRepr_ext _ (s_reorg Sv n) _ (s_reorg Sv n)); assumption. }
    assert (G2 : forall K2, crash_both W b c = Ok K2 ->
                 exists c', c_reorg W n K2 = Ok c' /\ CellRepr c' (s_reorg S n) (s_reorg S n) C C).
    { intros K2 HK2. destruct (CellRepr_commit W _ _ _ _ _ b CR) as (c2 & Hc2 & CR2).
      unfold crash_both in HK2. rewrite Hc2 in HK2. injection HK2 as <-.
      destruct (CellRepr_reorg W _ _ _ _ _ n CR2 Hwin) as (c' & Hc' & CR').
      exists c'. split; [exact Hc'|].
      apply (CellRepr_raise _ _ (N.max (N.max clk (b - 1)) (n - 1))); [exact CR'|lia]. }
    destruct HK as [->|[HK|HK]]; [exact G0| |exact (G2 K HK)].
    unfold crash_mid in HK. destruct c as [[d p] m]. cbn [c_m c_d c_p fst snd] in *.
    destruct m as [h|]; [|injection HK as <-; exact G0].
    destruct (h_is_old W h b) eqn:Hold.
    - destruct (h_latest h) as [l| |] eqn:Hl; cbn [rbind] in HK; try discriminate. injection HK as <-.
      destruct p as [hp|].
      + rewrite (c_reorg_ignores_d W n l d hp). exact G0.
      + apply G2. unfold crash_both, c_commit. cbn [c_m c_d c_p fst snd]. rewrite Hl, Hold. reflexivity.
    - injection HK as <-.
      destruct (h_latest h) as [l| |] eqn:Hl.
      + rewrite (c_reorg_ignores_d W n d l h). apply G2.
        unfold crash_both, c_commit. cbn [c_m c_d c_p fst snd]. rewrite Hl, Hold. reflexivity.
      + destruct (CellRepr_commit W _ _ _ _ _ b CR) as (c2 & Hc2 & _).
        unfold c_commit in Hc2. cbn [c_m c_d c_p fst snd] in Hc2. rewrite Hl in Hc2. discriminate.
      + destruct (CellRepr_commit W _ _ _ _ _ b CR) as (c2 & Hc2 & _).
        unfold c_commit in Hc2. cbn [c_m c_d c_p fst snd] in Hc2. rewrite Hl in Hc2. discriminate.
  Qed.

  (* a crash inside the commit phase of reorg(n0): the key was either not reached (none), or its
     rolled-back history was being committed with n0 *)
  Lemma cell_reorg_crash_recovers (c : cell) S Sv clk sclk n0 hc n C :
    CellRepr c S Sv clk sclk ->
    (forall m, m <= hc -> S m = Sv m) ->
    n <= hc -> n <= n0 -> clk <= n + W -> n0 - 1 <= n + W -> N.max clk (n0 - 1) <= C ->
    forall K,
      (K = crash_none c \/
       exists h', h_reorg (c_retrieve c) n0 = Ok h' /\
                  (K = crash_none (c_write c h') \/ crash_mid W n0 (c_write c h') = Ok K \/
                   crash_both W n0 (c_write c h') = Ok K)) ->
      exists c', c_reorg W n K = Ok c' /\ CellRepr c' (s_reorg S n) (s_reorg S n) C C.
  Proof.
    intros CR Hagree Hn Hn0 Hw Hw0 HC K [->|(h' & Hh' & HK)].
    - apply (cell_crash_recovers c S Sv clk sclk n0 hc n C CR Hagree Hn); try lia.
      left. reflexivity.
    - destruct (CellRepr_eff W _ _ _ _ _ CR) as (fl & R).
      pose proof (window_above_floor W _ _ _ _ n0 R ltac:(lia)) as Hfl.
      destruct (Repr_reorg W _ _ _ _ n0 R Hfl) as (h2 & Hr & R' & _).
      rewrite Hh' in Hr. injection Hr as <-.
      assert (CR' : CellRepr (c_write c h') (s_reorg S n0) Sv clk sclk).
      { destruct CR as [Rp Rd Rm Rc]. constructor; cbn [c_write c_m c_d c_p effp fst snd]; try assumption.
        exists fl. assumption. }
      assert (Hag' : forall m, m <= n -> s_reorg S n0 m = Sv m).
      { intros m Hm. unfold s_reorg. rewrite N.min_l by lia. apply Hagree. lia. }
      destruct (cell_crash_recovers _ _ _ _ _ n0 n n C CR' Hag' ltac:(lia) ltac:(lia) ltac:(lia) K HK)
        as (c' & Hc' & CRc).
      exists c'. split; [exact Hc'|].
      apply (CellRepr_ext _ (s_reorg (s_reorg S n0) n) _ (s_reorg (s_reorg S n0) n)); try assumption;
        intros m; unfold s_reorg; f_equal; lia.
  Qed.

  (* ---------- the cells of a persistent state, and prefixes of a commit's write pairs ---------- *)
  Definition pcell (P : pstate) (k : N) : cell := (kv_get (p_db P) k, kv_get (p_cdb P) k, None).
  Definition vframe (P P' : pstate) : Prop :=
    p_hash P' = p_hash P /\ p_blk P' = p_blk P /\ p_raw P' = p_raw P /\ p_max P' = p_max P.

  Lemma vframe_refl P : vframe P P.
  Proof. repeat split. Qed.
  Lemma vframe_trans P1 P2 P3 : vframe P1 P2 -> vframe P2 P3 -> vframe P1 P3.
  Proof. intros (a & b & c & d) (a' & b' & c' & d'). repeat split; congruence. Qed.

  Lemma entry_writes_effect b k0 h0 w :
    entry_writes W b (k0, h0) = Ok w ->
    exists w1 w2, w = [w1; w2] /\
      forall P,
        vframe P (apply_pwrite P w1) /\ vframe P (apply_pwrite (apply_pwrite P w1) w2) /\
        (forall k, k <> k0 -> pcell (apply_pwrite P w1) k = pcell P k /\
                              pcell (apply_pwrite (apply_pwrite P w1) w2) k = pcell P k) /\
        crash_mid W b (kv_get (p_db P) k0, kv_get (p_cdb P) k0, Some h0) = Ok (pcell (apply_pwrite P w1) k0) /\
        crash_both W b (kv_get (p_db P) k0, kv_get (p_cdb P) k0, Some h0)
          = Ok (pcell (apply_pwrite (apply_pwrite P w1) w2) k0).
  Proof.
    unfold entry_writes. destruct (h_latest h0) as [l| |] eqn:Hl; cbn [rbind]; try discriminate.
    intros [= <-].
    assert (Hne : forall k, k <> k0 -> (k0 =? k) = false) by (intros k Hk; apply N.eqb_neq; congruence).
    destruct (h_is_old W h0 b) eqn:Hold; destruct l as [v|]; do 2 eexists; (split; [reflexivity|]);
      intros P; unfold vframe, pcell, crash_mid, crash_both, c_commit;
      cbn [latest_write apply_pwrite p_db p_cdb p_hash p_blk p_raw p_max c_m c_d c_p fst snd];
      rewrite ?Hl, ?Hold; cbn [rbind];
      (split; [repeat split|]); (split; [repeat split|]);
      (split; [intros k Hk; rewrite ?kv_get_put, ?kv_get_del, ?(Hne k Hk); split; reflexivity|]);
      rewrite ?kv_get_put, ?kv_get_del, ?N.eqb_refl; split; reflexivity.
  Qed.

  Lemma prefix_nil_l {A} (p q : list A) : [] = p ++ q -> p = [] /\ q = [].
  Proof. destruct p; [cbn [app]; intros <-; split; reflexivity|discriminate]. Qed.

  (* for every key: nothing, the first or both of its two writes happened *)
  Lemma vscript_prefix_cells b es :
    NoDup (map fst es) ->
    forall ws, vscript W b es = Ok ws ->
    forall p q, ws = p ++ q ->
    forall P,
      vframe P (apply_pwrites P p) /\
      forall k,
        let c := (kv_get (p_db P) k, kv_get (p_cdb P) k, kv_get es k) in
        let K := pcell (apply_pwrites P p) k in
        K = crash_none c \/ crash_mid W b c = Ok K \/ crash_both W b c = Ok K.
  Proof.
    induction es as [|[k0 h0] t IH]; intros Hnd ws Hv p q Hpq P.
    - cbn in Hv. injection Hv as <-. destruct (prefix_nil_l _ _ Hpq) as [-> _].
      split; [apply vframe_refl|]. intros k. left. reflexivity.
    - cbn [map fst] in Hnd. apply NoDup_cons_iff in Hnd as [Hnot Hnd'].
      cbn [vscript] in Hv.
      destruct (entry_writes W b (k0, h0)) as [w| |] eqn:Hw; cbn [rbind] in Hv; try discriminate.
      destruct (vscript W b t) as [r| |] eqn:Hr; cbn [rbind] in Hv; try discriminate.
      injection Hv as <-.
      destruct (entry_writes_effect _ _ _ _ Hw) as (w1 & w2 & -> & Heff).
      destruct (Heff P) as (Hf1 & Hf2 & Hoth & Hmid & Hboth).
      assert (Hk0 : kv_get t k0 = None).
      { apply kv_get_none_notin. exact Hnot. }
      destruct p as [|x p].
      + split; [apply vframe_refl|]. intros k. left. reflexivity.
      + cbn [app] in Hpq. injection Hpq as <- Hpq.
        destruct p as [|y p].
        * (* only the first write of this key *)
          split; [exact Hf1|]. intros k. cbn [kv_get apply_pwrites fold_left].
          destruct (N.eqb_spec k0 k) as [<-|Hne].
          -- right. left. exact Hmid.
          -- left. destruct (Hoth k ltac:(congruence)) as [-> _].
             unfold crash_none, pcell. cbn [c_d c_p fst snd]. reflexivity.
        * cbn [app] in Hpq. injection Hpq as <- Hpq.
          destruct (IH Hnd' r eq_refl p q Hpq (apply_pwrite (apply_pwrite P w1) w2)) as (Hfr & Hcells).
          split; [apply (vframe_trans _ _ _ Hf2 Hfr)|].
          intros k. cbn [kv_get]. specialize (Hcells k). cbn zeta in Hcells.
          change (apply_pwrites P (w1 :: w2 :: p)) with (apply_pwrites (apply_pwrite (apply_pwrite P w1) w2) p).
          destruct (N.eqb_spec k0 k) as [<-|Hne].
          -- (* k0 is not in t: its cell stays the fully committed one *)
             rewrite Hk0 in Hcells. right. right. rewrite Hboth. f_equal.
             unfold pcell in *. unfold crash_none, crash_mid, crash_both, c_commit in Hcells.
             cbn [c_m c_d c_p fst snd] in Hcells.
             destruct Hcells as [H|[H|H]]; congruence.
          -- destruct (Hoth k ltac:(congruence)) as [_ Hk]. unfold pcell in Hk. injection Hk as Hk1 Hk2.
             rewrite Hk1, Hk2 in Hcells. exact Hcells.
  Qed.
  (* ---------- rolling back a table whose cells can each be rolled back ---------- *)
  Lemma t_reorg_from_cells (t : @table N) n :
    t_cache t = [] -> ksorted (t_db t) -> ksorted (t_cdb t) ->
    (forall k, exists c', c_reorg W n (view t k) = Ok c') ->
    exists t', t_reorg W t n = Ok t' /\ (forall k, c_reorg W n (view t k) = Ok (view t' k)) /\
               t_cache t' = [] /\ ksorted (t_db t') /\ ksorted (t_cdb t').
  Proof.
    intros Hc Hsd Hsc Hcells.
    assert (Hnd : NoDup (map fst (t_cache t))) by (rewrite Hc; constructor).
    assert (Hall : forall k, exists h', h_reorg (c_retrieve (view t k)) n = Ok h').
    { intros k. destruct (Hcells k) as (c' & Hc'). unfold c_reorg in Hc'.
      destruct (c_touched (view t k)) eqn:Ht.
      - destruct (h_reorg (c_retrieve (view t k)) n) as [h'| |]; cbn [rbind] in Hc'; try discriminate.
        eexists; reflexivity.
      - unfold c_touched in Ht. unfold c_retrieve, effp.
        destruct (c_p (view t k)); [discriminate|]. destruct (c_m (view t k)); [discriminate|].
        unfold h_reorg, h_new. cbn [filter fst]. destruct (N.leb_spec 0 n); [|lia]. eexists; reflexivity. }
    destruct (reorg_keys_ok n (map fst (t_cdb t) ++ map fst (t_cache t)) t Hall) as (t1 & E1).
    destruct (reorg_keys_view n _ _ _ E1) as (Hd & Hcd & Hnd1 & Hv1).
    pose proof (Hnd1 Hnd) as Hnd1'.
    assert (Hne : forall k h, In (k, h) (t_cache t1) -> h <> []).
    { intros k h Hin. pose proof (kv_get_nodup_in _ _ _ Hnd1' Hin) as Hget.
      specialize (Hv1 k). destruct (memb k _).
      - destruct Hv1 as (h' & Hh' & Hv1).
        assert (h = h').
        { unfold view, c_write in Hv1. cbn [c_d c_p fst snd] in Hv1. rewrite Hget in Hv1. congruence. }
        subst h'. unfold h_reorg in Hh'. destruct (filter _ _); [discriminate|]. injection Hh' as <-. discriminate.
      - unfold view in Hv1. rewrite Hget, Hc in Hv1. cbn [kv_get] in Hv1. congruence. }
    destruct (commit_entries_ok W n (t_cache t1) Hne (t_db t1, t_cdb t1)) as ([d' c'] & E).
    assert (E2 : t_commit W t1 n = Ok (mkTable d' c' [])).
    { unfold t_commit. rewrite E. reflexivity. }
    assert (Hr : t_reorg W t n = Ok (t_clear (mkTable d' c' []))).
    { unfold t_reorg. rewrite E1. cbn [rbind]. rewrite E2. reflexivity. }
    eexists. split; [exact Hr|].
    destruct (view_reorg W t n _ Hnd Hr) as [Hv _].
    rewrite Hd, Hcd in E.
    destruct (commit_entries_sorted W n _ _ _ _ _ Hsd Hsc E) as [Hsd' Hsc'].
    split; [exact Hv|]. split; [reflexivity|]. split; assumption.
  Qed.

  (* ---------- any write keeps the maps ordered ---------- *)
  Definition psorted (P : pstate) : Prop :=
    ksorted (p_db P) /\ ksorted (p_cdb P) /\ ksorted (p_hash P) /\ ksorted (p_blk P) /\ ksorted (p_raw P).

  Lemma apply_pwrite_sorted P w : psorted P -> psorted (apply_pwrite P w).
  Proof.
    intros (a & b & c & d & e).
    destruct w as [k v|k|k h|k|wh k v|wh k|wh|n]; try (destruct wh as [|[q|q|]]);
      unfold psorted; cbn [apply_pwrite p_db p_cdb p_hash p_blk p_raw p_max];
      repeat split; try assumption; try (apply ksorted_put; assumption); apply ksorted_del; assumption.
  Qed.

  Lemma apply_pwrites_sorted ws : forall P, psorted P -> psorted (apply_pwrites P ws).
  Proof.
    induction ws as [|w ws IH]; intros P H; [exact H|].
    rewrite apply_pwrites_cons. apply IH. apply apply_pwrite_sorted. exact H.
  Qed.

  (* ---------- what the block-table writes of a script may do to the rows <= n ---------- *)
  Definition isv (w : pwrite) : Prop :=
    match w with PLatestPut _ _ | PLatestDel _ | PHistPut _ _ | PHistDel _ => True | _ => False end.
  Definition nonv (w : pwrite) : Prop :=
    match w with PLatestPut _ _ | PLatestDel _ | PHistPut _ _ | PHistDel _ => False | _ => True end.
  (* puts above n (and at most M), deletes above n, never the max row *)
  Definition wok (n M : N) (w : pwrite) : Prop :=
    match w with
    | PBlockPut _ k _ => n < k /\ k <= M
    | PBlockDel _ k => n < k
    | PMax _ => False
    | _ => True
    end.

  Definition bstep (n M : N) (m m' : kv N) : Prop :=
    (forall x, x <= n -> kv_get m' x = kv_get m x) /\
    (forall x, kv_get m' x <> None -> kv_get m x <> None \/ x <= M).

  Lemma bstep_refl n M m : bstep n M m m.
  Proof. split; [reflexivity|]. intros x H. left. exact H. Qed.
  Lemma bstep_trans n M m1 m2 m3 : bstep n M m1 m2 -> bstep n M m2 m3 -> bstep n M m1 m3.
  Proof.
    intros [A1 B1] [A2 B2]. split.
    - intros x Hx. rewrite (A2 x Hx). apply A1. exact Hx.
    - intros x Hx. destruct (B2 x Hx) as [H|H]; [apply B1; exact H|right; exact H].
  Qed.
  Lemma bstep_put n M m k v : n < k -> k <= M -> bstep n M m (kv_put m k v).
  Proof.
    intros H1 H2. split; intros x Hx; rewrite kv_get_put in *.
    - destruct (N.eqb_spec k x); [lia|reflexivity].
    - destruct (N.eqb_spec k x); [right; lia|left; exact Hx].
  Qed.
  Lemma bstep_del n M m k : n < k -> bstep n M m (kv_del m k).
  Proof.
    intros H1. split; intros x Hx; rewrite kv_get_del in *.
    - destruct (N.eqb_spec k x); [lia|reflexivity].
    - destruct (N.eqb_spec k x); [contradiction|left; exact Hx].
  Qed.

  Definition bframe (n M : N) (P P' : pstate) : Prop :=
    p_max P' = p_max P /\ bstep n M (p_hash P) (p_hash P') /\ bstep n M (p_blk P) (p_blk P') /\
    bstep n M (p_raw P) (p_raw P').

  Lemma apply_wok n M ws : Forall (wok n M) ws -> forall P, bframe n M P (apply_pwrites P ws).
  Proof.
    induction 1 as [|w ws Hw Hws IH]; intros P.
    - split; [reflexivity|]. split; [apply bstep_refl|]. split; apply bstep_refl.
    - rewrite apply_pwrites_cons. destruct (IH (apply_pwrite P w)) as (A & B & C & D).
      assert (H1 : bframe n M P (apply_pwrite P w)).
      { unfold bframe. destruct w as [k v|k|k h|k|wh k v|wh k|wh|x]; cbn [wok] in Hw.
        - split; [reflexivity|]. split; [apply bstep_refl|]. split; apply bstep_refl.
        - split; [reflexivity|]. split; [apply bstep_refl|]. split; apply bstep_refl.
        - split; [reflexivity|]. split; [apply bstep_refl|]. split; apply bstep_refl.
        - split; [reflexivity|]. split; [apply bstep_refl|]. split; apply bstep_refl.
        - destruct Hw as [Hw1 Hw2].
          destruct wh as [|[q|q|]]; cbn [apply_pwrite p_db p_cdb p_hash p_blk p_raw p_max];
            (split; [reflexivity|split; [|split]]);
            first [apply bstep_put; assumption | apply bstep_refl].
        - destruct wh as [|[q|q|]]; cbn [apply_pwrite p_db p_cdb p_hash p_blk p_raw p_max];
            (split; [reflexivity|split; [|split]]);
            first [apply bstep_del; assumption | apply bstep_refl].
        - split; [reflexivity|]. split; [apply bstep_refl|]. split; apply bstep_refl.
        - contradiction. }
      destruct H1 as (A1 & B1 & C1 & D1). split; [congruence|].
      split; [apply (bstep_trans _ _ _ _ _ B1 B)|]. split; [apply (bstep_trans _ _ _ _ _ C1 C)|].
      apply (bstep_trans _ _ _ _ _ D1 D).
  Qed.

  Lemma apply_nonv ws : Forall nonv ws -> forall P,
    p_db (apply_pwrites P ws) = p_db P /\ p_cdb (apply_pwrites P ws) = p_cdb P.
  Proof.
    induction 1 as [|w ws Hw Hws IH]; intros P; [split; reflexivity|].
    rewrite apply_pwrites_cons. destruct (IH (apply_pwrite P w)) as [-> ->].
    destruct w as [k v|k|k h|k|wh k v|wh k|wh|x]; try (destruct wh as [|[q|q|]]); cbn [nonv] in Hw;
      try contradiction; split; reflexivity.
  Qed.

  Lemma vscript_isv b es : forall ws, vscript W b es = Ok ws -> Forall isv ws.
  Proof.
    induction es as [|[k h] t IH]; intros ws Hv.
    - cbn in Hv. injection Hv as <-. constructor.
    - cbn [vscript entry_writes] in Hv.
      destruct (h_latest h) as [l| |]; cbn [rbind] in Hv; try discriminate.
      destruct (vscript W b t) as [r| |]; cbn [rbind] in Hv; try discriminate.
      injection Hv as <-. apply Forall_app. split; [|apply IH; reflexivity].
      destruct (h_is_old W h b), l; repeat constructor.
  Qed.

  Lemma isv_wok n M w : isv w -> wok n M w.
  Proof. destruct w; cbn; tauto. Qed.

  Lemma Forall_prefix {A} (Q : A -> Prop) (l p q : list A) : Forall Q l -> l = p ++ q -> Forall Q p.
  Proof. intros H ->. apply Forall_app in H. apply H. Qed.

  Lemma last_key_is {A} (m : list (N * A)) n :
    ksorted m -> In n (map fst m) -> (forall x, In x (map fst m) -> x <= n) -> kv_last_key m = Some n.
  Proof.
    intros Hs Hin Hmax.
    destruct m as [|a l]; [destruct Hin|].
    destruct (ksorted_last_some (a :: l) ltac:(discriminate)) as (e & He). rewrite He. f_equal.
    pose proof (ksorted_last_max _ _ _ Hs He Hin). pose proof (Hmax e (kv_last_key_in _ _ He)). lia.
  Qed.

  (* ---------- the recovered state ---------- *)
  Definition Recovered (s : store) (F : fspec) (st : wfst) (s2 : store) (n : N) : Prop :=
    (forall k, t_latest (st_t s2) k = Ok (fst F k n)) /\
    (forall x, b_get (st_hash s2) x = if x <=? n then kv_get (b_db (st_hash s)) x else None) /\
    (forall x, b_get (st_blk s2) x = if x <=? n then kv_get (b_db (st_blk s)) x else None) /\
    (forall x, b_get (st_raw s2) x = if x <=? n then kv_get (b_db (st_raw s)) x else None) /\
    latest_height s2 = n /\ next_height s2 = n + 1 /\
    SInv W s2 (fun k => s_reorg (fst F k) n, fun k => s_reorg (fst F k) n)
         (mkWf (Some n) (w_m st) (Some n) false None).

  Lemma filter_le_keys (m : kv N) n x :
    In x (map fst (filter (fun r => fst r <=? n) m)) -> x <= n /\ In x (map fst m).
  Proof.
    intros H. apply in_map_iff in H as (e & <- & He). apply filter_In in He as [He Hle].
    apply N.leb_le in Hle. split; [exact Hle|]. apply in_map. exact He.
  Qed.

  Lemma recover_general s F st d' n :
    SInv W s F st -> w_dirty st = false -> w_m st <= n + W ->
    psorted d' -> p_max d' = st_max s ->
    (forall k, exists c', c_reorg W n (pcell d' k) = Ok c' /\
               CellRepr c' (s_reorg (fst F k) n) (s_reorg (fst F k) n) (w_m st) (w_m st)) ->
    (forall x, x <= n -> kv_get (p_hash d') x = kv_get (b_db (st_hash s)) x) ->
    (forall x, x <= n -> kv_get (p_blk d') x = kv_get (b_db (st_blk s)) x) ->
    (forall x, x <= n -> kv_get (p_raw d') x = kv_get (b_db (st_raw s)) x) ->
    kv_get (b_db (st_hash s)) n <> None -> n <= w_m st ->
    exists s2, sto_reorg W (reopen d') n = Ok s2 /\ Recovered s F st s2 n.
  Proof.
    intros I Hclean Hwin (Hs1 & Hs2 & Hs3 & Hs4 & Hs5) Hmax Hcells Hh Hb Hr Hn Hnm.
    destruct I as [It Imax Ilbn Ikeys Idb Ih Ihc Iopen Icl].
    unfold sto_reorg. cbn [reopen st_max st_t st_hash st_blk st_raw st_lbn].
    rewrite Hmax. unfold maxrow in Imax. rewrite Imax.
    destruct (N.ltb_spec (W + n) (w_m st)); [lia|].
    set (T := mkTable (p_db d') (p_cdb d') []).
    destruct (t_reorg_from_cells T n eq_refl Hs1 Hs2) as (t' & Et & Hv & Hc' & Hsd & Hsc).
    { intros k. destruct (Hcells k) as (c' & Hc' & _). exists c'. exact Hc'. }
    rewrite Et. cbn [rbind].
    assert (TR : TRepr t' (mkTSpec (fun k => s_reorg (fst F k) n) (fun k => s_reorg (fst F k) n)
                                   (w_m st) (w_m st))).
    { constructor; cbn [ts_cur ts_sav ts_clk ts_sclk]; try assumption.
      - intros k. destruct (Hcells k) as (c' & Hc1 & CR).
        change (pcell d' k) with (view T k) in Hc1. rewrite (Hv k) in Hc1. injection Hc1 as <-. exact CR.
      - rewrite Hc'. constructor. }
    destruct t' as [db' cdb' cache']. cbn [t_cache] in Hc'. subst cache'.
    unfold sto_commit, t_commit.
    cbn [st_t st_hash st_blk st_raw st_max st_lbn t_cache commit_entries rbind fst snd t_db t_cdb].
    eexists. split; [reflexivity|].
    set (fh := filter (fun e : N * N => fst e <=? n) (p_hash d')).
    assert (Hfh_in : In n (map fst fh)).
    { apply kv_get_in_keys. unfold fh. rewrite kv_get_filter_le. destruct (N.leb_spec n n); [|lia].
      rewrite (Hh n ltac:(lia)). exact Hn. }
    assert (Hfh_max : forall x, In x (map fst fh) -> x <= n).
    { intros x Hx. apply (filter_le_keys _ _ _ Hx). }
    assert (Hlast : kv_last_key fh = Some n).
    { apply last_key_is; [apply ksorted_filter; exact Hs3|exact Hfh_in|exact Hfh_max]. }
    unfold Recovered, sto_clear, b_commit, b_reorg, b_clear, t_clear.
    cbn [st_t st_hash st_blk st_raw st_max st_lbn t_db t_cdb t_cache b_db b_cache fold_left filter].
    fold fh.
    split; [|split; [|split; [|split; [|split; [|split]]]]].
    - intros k. rewrite (TRepr_latest W _ _ k (N.max (w_m st) n) TR) by (cbn [ts_clk]; lia).
      cbn [ts_cur]. unfold s_reorg. f_equal. f_equal. lia.
    - intros x. unfold b_get. cbn [b_cache b_db kv_get]. unfold fh. rewrite kv_get_filter_le.
      destruct (N.leb_spec x n); [apply Hh; assumption|reflexivity].
    - intros x. unfold b_get. cbn [b_cache b_db kv_get]. rewrite kv_get_filter_le.
      destruct (N.leb_spec x n); [apply Hb; assumption|reflexivity].
    - intros x. unfold b_get. cbn [b_cache b_db kv_get]. rewrite kv_get_filter_le.
      destruct (N.leb_spec x n); [apply Hr; assumption|reflexivity].
    - unfold latest_height, b_last_key. cbn [st_lbn st_hash b_db b_cache]. rewrite Hlast. reflexivity.
    - unfold next_height, b_last_key. cbn [st_lbn st_hash b_db b_cache]. rewrite Hlast. reflexivity.
    - constructor; cbn [st_t st_hash st_blk st_raw st_max st_lbn w_h w_m w_hc w_dirty w_open fst snd b_db b_cache].
      + exists (w_m st), (w_m st). split; [exact TR|]. unfold bound, dstamp. cbn [w_open w_dirty w_m]. split; lia.
      + unfold maxrow. cbn [st_max]. exact Imax.
      + discriminate.
      + intros k Hin. unfold hash_keys in Hin. cbn [st_hash b_db b_cache map app] in Hin.
        rewrite app_nil_r in Hin. unfold bound, dstamp. cbn [w_open w_dirty w_m].
        specialize (Hfh_max k Hin). lia.
      + intros k Hin. specialize (Hfh_max k Hin). lia.
      + intros h0 [= <-]. exact Hnm.
      + intros h0 [= <-]. exact Hnm.
      + discriminate.
      + reflexivity.
  Qed.
  (* ================= the extra invariant of [crun] traces ================= *)
  Definition top (st : wfst) : N :=
    match w_h st with Some h => if w_dirty st then h + 1 else h | None => 0 end.
  Definition hcN (st : wfst) : N := match w_hc st with Some hc => hc | None => 0 end.
  Definition cache_hi (st : wfst) (x : N) : Prop :=
    match w_h st with Some _ => x <= top st | None => w_open st = Some x end.

  (* a block table: ordered; its durable rows are at or below the height of the last commit,
     its cached rows above it and at most the block under construction *)
  Record BT (t : btable N) (st : wfst) : Prop := {
    bt_s : bt_sorted t;
    bt_db : forall x, In x (map fst (b_db t)) -> exists hc, w_hc st = Some hc /\ x <= hc;
    bt_lo : forall x hc, In x (map fst (b_cache t)) -> w_hc st = Some hc -> hc < x;
    bt_hi : forall x, In x (map fst (b_cache t)) -> cache_hi st x;
  }.

  Record CInv (s : store) (F : fspec) (st : wfst) : Prop := {
    ci_hash : BT (st_hash s) st;
    ci_blk : BT (st_blk s) st;
    ci_raw : BT (st_raw s) st;
    ci_ord : forall hc, w_hc st = Some hc -> exists h, w_h st = Some h /\ hc <= h;
    (* nothing written since the last commit is stamped at or below its height *)
    ci_agree : forall hc, w_hc st = Some hc -> forall k m, m <= hc -> fst F k m = snd F k m;
    (* no value is stamped above the height it was written at *)
    ci_fsav : forall k m, hcN st <= m -> snd F k m = snd F k (hcN st);
    ci_fcur : forall k m, top st <= m -> fst F k m = fst F k (top st);
    (* the block of the last commit has its durable height row *)
    ci_hc : forall hc, w_hc st = Some hc -> In hc (map fst (b_db (st_hash s)));
    ci_hrow : w_dirty st = false -> forall h, w_h st = Some h -> b_get (st_hash s) h <> None;
    (* nothing is cached unless a block was finalised since the last commit *)
    ci_empty : w_dirty st = false -> b_cache (st_hash s) = [] ->
               t_cache (st_t s) = [] /\ b_cache (st_blk s) = [] /\ b_cache (st_raw s) = [];
    (* the cached latest block number, while there is one, is the height *)
    ci_lbn : forall x, st_lbn s = Some x -> w_h st = Some x;
  }.

  Lemma BT_same t st st' :
    w_hc st' = w_hc st -> (forall x, cache_hi st x -> cache_hi st' x) -> BT t st -> BT t st'.
  Proof.
    intros E H [A B C D]. constructor; [exact A| | |].
    - intros x Hx. rewrite E. apply B. exact Hx.
    - intros x hc Hx Hhc. rewrite E in Hhc. apply (C x hc Hx Hhc).
    - intros x Hx. apply H. apply D. exact Hx.
  Qed.

  Lemma BT_set t st st' n v :
    w_hc st' = w_hc st -> (forall x, cache_hi st x -> cache_hi st' x) ->
    (forall hc, w_hc st = Some hc -> hc < n) -> cache_hi st' n ->
    BT t st -> BT (b_set t n v) st'.
  Proof.
    intros E H Hlo Hhi [[A1 A2] B C D]. constructor; cbn [b_set b_db b_cache].
    - split; [exact A1|apply ksorted_put; exact A2].
    - intros x Hx. rewrite E. apply B. exact Hx.
    - intros x hc Hx Hhc. rewrite E in Hhc. destruct (keys_kv_put _ _ _ _ Hx) as [->|Hx'].
      + apply Hlo. exact Hhc.
      + apply (C x hc Hx' Hhc).
    - intros x Hx. destruct (keys_kv_put _ _ _ _ Hx) as [->|Hx']; [exact Hhi|].
      apply H. apply D. exact Hx'.
  Qed.

  Lemma BT_commit_clear t st' :
    bt_sorted t ->
    (forall x, In x (map fst (b_db t) ++ map fst (b_cache t)) -> exists hc, w_hc st' = Some hc /\ x <= hc) ->
    BT (b_clear (b_commit t)) st'.
  Proof.
    intros [A1 A2] H. constructor; cbn [b_clear b_db b_cache map].
    - split; [apply ksorted_puts; exact A1|constructor].
    - intros x Hx. apply H. apply in_or_app. apply (keys_b_commit_db t x Hx).
    - intros x hc [].
    - intros x [].
  Qed.

  Lemma BT_clear t st' :
    bt_sorted t -> (forall x, In x (map fst (b_db t)) -> exists hc, w_hc st' = Some hc /\ x <= hc) ->
    BT (b_clear t) st'.
  Proof.
    intros [A1 A2] H. constructor; cbn [b_clear b_db b_cache map].
    - split; [exact A1|constructor].
    - exact H.
    - intros x hc [].
    - intros x [].
  Qed.

  Lemma bt_sorted_reorg t n : bt_sorted t -> bt_sorted (b_reorg t n).
  Proof. intros [A B]. split; apply ksorted_filter; assumption. Qed.

  Lemma BT_reorg t st' n :
    bt_sorted t -> w_hc st' = Some n -> BT (b_clear (b_commit (b_reorg t n))) st'.
  Proof.
    intros Hs E. apply BT_commit_clear; [apply bt_sorted_reorg; exact Hs|].
    intros x Hx. exists n. split; [exact E|]. cbn [b_reorg b_db b_cache] in Hx.
    apply in_app_or in Hx as [Hx|Hx]; apply (filter_le_keys _ _ _ Hx).
  Qed.

  Lemma frozen_mono (f : N -> option N) a b :
    (forall m, a <= m -> f m = f a) -> a <= b -> forall m, b <= m -> f m = f b.
  Proof. intros H Hab m Hm. rewrite (H m ltac:(lia)), (H b Hab). reflexivity. Qed.

  Lemma CInv_init : CInv st_empty fs_init wf_init.
  Proof.
    assert (B : BT b_empty wf_init).
    { constructor; cbn; try (intros; contradiction). split; constructor. }
    constructor; cbn [st_empty st_hash st_blk st_raw st_t st_lbn wf_init w_h w_hc w_dirty w_open]; try exact B;
      try discriminate; try reflexivity.
    - intros _ _. repeat split.
  Qed.

  Lemma b_get_in_cache_or_db (t : btable N) x :
    b_get t x <> None -> kv_get (b_cache t) x <> None \/ kv_get (b_db t) x <> None.
  Proof. unfold b_get. destruct (kv_get (b_cache t) x); [left; discriminate|right; assumption]. Qed.

  Theorem CInv_step s F st o st' s' :
    SInv W s F st -> CInv s F st -> crash_step_ok s o = true ->
    wf_step W st o = Some st' -> sto_step W s o = Ok s' ->
    CInv s' (fs_step F o) st'.
  Proof.
    intros I CI Hok Hwf Hs. destruct F as [cur sav].
    destruct CI as [Hh Hb Hr Hord Hag Hfs Hfc Hhc Hrow Hemp Hlbn]. cbn [fst snd] in *.
    destruct o as [stamp k v|which n v|n| | |n]; cbn [wf_step sto_step fs_step crash_step_ok] in *.
    - (* SV *)
      destruct (stamp_ok_for st stamp) eqn:Hst; [|discriminate]. injection Hwf as <-.
      set (st1 := mkWf (w_h st) (w_m st) (w_hc st) true (w_open st)).
      assert (Htop : top st <= top st1).
      { unfold top, st1. cbn [w_h w_dirty]. destruct (w_h st); [|lia]. destruct (w_dirty st); lia. }
      assert (Hhi : forall x, cache_hi st x -> cache_hi st1 x).
      { intros x. unfold cache_hi. cbn [w_h w_open st1]. destruct (w_h st); [lia|auto]. }
      assert (Hstamp : stamp = top st1).
      { unfold stamp_ok_for in Hst. unfold top, st1. cbn [w_h w_dirty].
        destruct (w_h st); apply N.eqb_eq in Hst; exact Hst. }
      assert (G : forall t', CInv (mkStore t' (st_hash s) (st_blk s) (st_raw s) (st_max s) (st_lbn s))
                                  (upd cur k (s_set (cur k) stamp v), sav) st1).
      { intros t'. constructor; cbn [st_t st_hash st_blk st_raw st_lbn fst snd];
          try (apply (BT_same _ st); [reflexivity|exact Hhi|assumption]).
        - exact Hord.
        - intros hc Ehc k' m Hm. cbn [st1 w_hc] in Ehc. destruct (Hord hc Ehc) as (h & Eh & Hle).
          unfold upd. destruct (N.eqb_spec k k') as [<-|Hne]; [|apply (Hag hc Ehc); exact Hm].
          unfold s_set. rewrite Hstamp. unfold top, st1. cbn [w_h w_dirty]. rewrite Eh.
          destruct (N.leb_spec (h + 1) m); [lia|]. apply (Hag hc Ehc). exact Hm.
        - exact Hfs.
        - intros k' m Hm. unfold upd. destruct (N.eqb_spec k k') as [<-|Hne].
          + unfold s_set. rewrite Hstamp. destruct (N.leb_spec (top st1) m); [|lia].
            destruct (N.leb_spec (top st1) (top st1)); [reflexivity|lia].
          + apply (frozen_mono (cur k') (top st) (top st1) (Hfc k') Htop m Hm).
        - exact Hhc.
        - discriminate.
        - discriminate.
        - exact Hlbn. }
      destruct v as [v|]; cbn [sto_step] in Hs.
      + destruct (t_set N.eqb W (st_t s) stamp k v) as [t'| |]; cbn [rbind] in Hs; try discriminate.
        injection Hs as <-. apply G.
      + destruct (t_unset W (st_t s) stamp k) as [t'| |]; cbn [rbind] in Hs; try discriminate.
        injection Hs as <-. apply G.
    - (* SB *)
      destruct (row_ok_for st n) eqn:Hrowok; [|discriminate]. injection Hwf as <-. injection Hs as <-.
      set (st1 := mkWf (w_h st) (w_m st) (w_hc st) true (Some n)).
      assert (Htop : top st <= top st1).
      { unfold top, st1. cbn [w_h w_dirty]. destruct (w_h st); [|lia]. destruct (w_dirty st); lia. }
      assert (Hhi : forall x, cache_hi st x -> cache_hi st1 x).
      { intros x. unfold cache_hi. cbn [w_h w_open st1]. unfold row_ok_for in Hrowok.
        destruct (w_h st); [lia|]. intros E. rewrite E in Hrowok. apply N.eqb_eq in Hrowok. congruence. }
      assert (Hlo : forall hc, w_hc st = Some hc -> hc < n).
      { intros hc Ehc. destruct (Hord hc Ehc) as (h & Eh & Hle). unfold row_ok_for in Hrowok.
        rewrite Eh in Hrowok. apply N.eqb_eq in Hrowok. lia. }
      assert (Hhin : cache_hi st1 n).
      { unfold cache_hi, top, st1. cbn [w_h w_open w_dirty]. unfold row_ok_for in Hrowok.
        destruct (w_h st); [apply N.eqb_eq in Hrowok; lia|reflexivity]. }
      assert (Hfc1 : forall k m, top st1 <= m -> cur k m = cur k (top st1)).
      { intros k m Hm. apply (frozen_mono (cur k) (top st) (top st1) (Hfc k) Htop m Hm). }
      destruct which as [|[q|q|]];
        (constructor; cbn [st_t st_hash st_blk st_raw st_lbn fst snd];
         [ first [apply (BT_set _ st); [reflexivity|exact Hhi|exact Hlo|exact Hhin|assumption]
                 |apply (BT_same _ st); [reflexivity|exact Hhi|assumption]]
         | first [apply (BT_set _ st); [reflexivity|exact Hhi|exact Hlo|exact Hhin|assumption]
                 |apply (BT_same _ st); [reflexivity|exact Hhi|assumption]]
         | first [apply (BT_set _ st); [reflexivity|exact Hhi|exact Hlo|exact Hhin|assumption]
                 |apply (BT_same _ st); [reflexivity|exact Hhi|assumption]]
         | exact Hord | exact Hag | exact Hfs | exact Hfc1 | exact Hhc | discriminate | discriminate | exact Hlbn ]).
    - (* SHash *)
      destruct (row_ok_for st n) eqn:Hrowok; [|discriminate]. injection Hwf as <-. injection Hs as <-.
      destruct (kv_get (b_cache (st_hash s)) n) as [rowv|] eqn:Erow; [|discriminate].
      set (st1 := mkWf (Some n) (N.max (w_m st) n) (w_hc st) false None).
      assert (Htop : top st <= top st1).
      { unfold top, st1. cbn [w_h w_dirty]. unfold row_ok_for in Hrowok.
        destruct (w_h st); [|lia]. apply N.eqb_eq in Hrowok. destruct (w_dirty st); lia. }
      assert (Hhi : forall x, cache_hi st x -> cache_hi st1 x).
      { intros x. unfold cache_hi. cbn [w_h st1]. unfold top at 2. cbn [w_h w_dirty st1].
        unfold row_ok_for in Hrowok. destruct (w_h st) as [h|] eqn:Eh.
        - apply N.eqb_eq in Hrowok. unfold top. rewrite Eh. destruct (w_dirty st); lia.
        - intros E. rewrite E in Hrowok. apply N.eqb_eq in Hrowok. lia. }
      constructor; cbn [st_t st_hash st_blk st_raw st_lbn fst snd];
        try (apply (BT_same _ st); [reflexivity|exact Hhi|assumption]).
      + intros hc Ehc. cbn [st1 w_hc w_h] in *. destruct (Hord hc Ehc) as (h & Eh & Hle).
        exists n. split; [reflexivity|]. unfold row_ok_for in Hrowok. rewrite Eh in Hrowok.
        apply N.eqb_eq in Hrowok. lia.
      + exact Hag.
      + exact Hfs.
      + intros k m Hm. apply (frozen_mono (cur k) (top st) (top st1) (Hfc k) Htop m Hm).
      + exact Hhc.
      + intros _ h [= <-]. unfold b_get. rewrite Erow. discriminate.
      + intros _ E. rewrite E in Erow. discriminate.
      + intros x Hx. cbn [st1 w_h]. unfold row_ok_for in Hrowok.
        destruct (st_lbn s) as [h0|] eqn:El.
        * rewrite (Hlbn h0 eq_refl) in Hrowok. apply N.eqb_eq in Hrowok.
          destruct (N.ltb_spec h0 n); [congruence|lia].
        * congruence.
    - (* SCommit *)
      destruct (w_dirty st) eqn:Hd; [discriminate|]. injection Hwf as <-.
      unfold sto_commit in Hs.
      destruct (t_commit W (st_t s) (next_height s)) as [t'| |]; cbn [rbind] in Hs; try discriminate.
      injection Hs as <-.
      assert (Hopen : w_open st = None) by (destruct I; auto).
      assert (Hkeys : forall t, BT t st ->
                forall x, In x (map fst (b_db t) ++ map fst (b_cache t)) ->
                          exists hc, w_h st = Some hc /\ x <= hc).
      { intros t [A B C D] x Hx. apply in_app_or in Hx as [Hx|Hx].
        - destruct (B x Hx) as (hc & Ehc & Hle). destruct (Hord hc Ehc) as (h & Eh & Hle2).
          exists h. split; [exact Eh|lia].
        - specialize (D x Hx). unfold cache_hi, top in D. rewrite Hd in D.
          destruct (w_h st) as [h|]; [exists h; split; [reflexivity|exact D]|congruence]. }
      constructor; cbn [sto_clear st_t st_hash st_blk st_raw st_lbn fst snd w_h w_hc w_dirty w_open];
        try discriminate.
      + apply BT_commit_clear; [apply Hh|apply (Hkeys _ Hh)].
      + apply BT_commit_clear; [apply Hb|apply (Hkeys _ Hb)].
      + apply BT_commit_clear; [apply Hr|apply (Hkeys _ Hr)].
      + intros hc E. exists hc. split; [exact E|lia].
      + reflexivity.
      + intros k m Hm. unfold hcN in *. cbn [w_hc] in *. unfold top in Hfc. rewrite Hd in Hfc.
        apply Hfc. exact Hm.
      + intros k m Hm. unfold top in *. cbn [w_h w_dirty] in *. rewrite Hd in Hfc. apply Hfc. exact Hm.
      + intros hc E. apply kv_get_in_keys. cbn [b_clear b_commit b_db].
        rewrite (kv_get_fold_put _ _ _ (ksorted_nodup _ (proj2 (bt_s _ _ Hh)))).
        destruct (b_get_in_cache_or_db _ _ (Hrow eq_refl hc E)) as [H|H];
          destruct (kv_get (b_cache (st_hash s)) hc); try discriminate; try contradiction; exact H.
      + intros _ h E. rewrite (b_get_commit_clear _ _ (ksorted_nodup _ (proj2 (bt_s _ _ Hh)))).
        apply (Hrow eq_refl h E).
      + intros _ _. repeat split.
    - (* SClear *)
      injection Hwf as <-. injection Hs as <-.
      constructor; cbn [sto_clear st_t st_hash st_blk st_raw st_lbn fst snd w_h w_hc w_dirty w_open];
        try discriminate.
      + apply BT_clear; [apply Hh|apply (bt_db _ _ Hh)].
      + apply BT_clear; [apply Hb|apply (bt_db _ _ Hb)].
      + apply BT_clear; [apply Hr|apply (bt_db _ _ Hr)].
      + intros hc E. exists hc. split; [exact E|lia].
      + reflexivity.
      + exact Hfs.
      + intros k m Hm. unfold top in Hm |- *. cbn [w_h w_dirty] in *. unfold hcN in Hfs.
        destruct (w_hc st); apply Hfs; exact Hm.
      + exact Hhc.
      + intros _ h E. unfold b_get. cbn [b_clear b_cache b_db kv_get].
        apply kv_get_in_keys. apply Hhc. exact E.
      + intros _ _. repeat split.
    - (* SReorg *)
      destruct (w_h st) as [h|] eqn:Eh; [|discriminate].
      destruct (negb (w_dirty st) && (n <=? h) && (w_m st <=? n + W)) eqn:Hg; [|discriminate].
      injection Hwf as <-.
      destruct (b_get (st_hash s) n) as [rown|] eqn:Erow; [|discriminate].
      unfold sto_reorg in Hs.
      destruct (W + n <? match st_max s with Some m => m | None => 0 end); [discriminate|].
      destruct (t_reorg W (st_t s) n) as [t1| |]; cbn [rbind] in Hs; try discriminate.
      unfold sto_commit in Hs. cbn [st_t st_hash st_blk st_raw st_max st_lbn] in Hs.
      destruct (t_commit W t1 _) as [t2| |]; cbn [rbind] in Hs; try discriminate.
      injection Hs as <-.
      assert (Hndc : NoDup (map fst (b_cache (b_reorg (st_hash s) n)))).
      { apply ksorted_nodup. apply (bt_sorted_reorg _ n (bt_s _ _ Hh)). }
      constructor; cbn [sto_clear st_t st_hash st_blk st_raw st_lbn fst snd w_h w_hc w_dirty w_open];
        try discriminate.
      + apply BT_reorg; [apply Hh|reflexivity].
      + apply BT_reorg; [apply Hb|reflexivity].
      + apply BT_reorg; [apply Hr|reflexivity].
      + intros hc [= <-]. exists n. split; [reflexivity|lia].
      + reflexivity.
      + intros k m Hm. unfold hcN in *. cbn [w_hc] in *. unfold s_reorg. f_equal. lia.
      + intros k m Hm. unfold top in *. cbn [w_h w_dirty] in *. unfold s_reorg. f_equal. lia.
      + intros hc [= <-]. apply kv_get_in_keys.
        change (kv_get (b_db (b_clear (b_commit (b_reorg (st_hash s) n)))) n <> None).
        assert (G : b_get (b_clear (b_commit (b_reorg (st_hash s) n))) n <> None).
        { rewrite (b_get_commit_clear _ _ Hndc), b_get_reorg, Erow.
          destruct (N.leb_spec n n); [discriminate|lia]. }
        exact G.
      + intros _ h0 [= <-]. rewrite (b_get_commit_clear _ _ Hndc), b_get_reorg, Erow.
        destruct (N.leb_spec n n); [discriminate|lia].
      + intros _ _. repeat split.
  Qed.

  (* along every [crun] trace both invariants hold *)
  Theorem crun_inv ops : forall st s F st' s',
    SInv W s F st -> CInv s F st -> crun W st s ops = Some (st', s') ->
    SInv W s' (fs_run F ops) st' /\ CInv s' (fs_run F ops) st'.
  Proof.
    induction ops as [|o r IH]; intros st s F st' s' I CI Hrun.
    - cbn in Hrun. injection Hrun as <- <-. split; assumption.
    - cbn [crun] in Hrun.
      destruct (crash_step_ok s o) eqn:Hok; [|discriminate].
      destruct (wf_step W st o) as [st1|] eqn:Ew; [|discriminate].
      destruct (sto_step W s o) as [s1| |] eqn:Es; try discriminate.
      unfold fs_run. cbn [fold_left].
      apply (IH st1 s1 (fs_step F o) st' s' (SInv_step W s F st o st1 s1 I Ew Es)
                (CInv_step s F st o st1 s1 I CI Hok Ew Es) Hrun).
  Qed.
  (* ================= (b) a crash inside commit_changes ================= *)

  Definition isflush (w : pwrite) : Prop := match w with PFlush _ => True | _ => False end.
  Definition nodel (w : pwrite) : Prop := match w with PBlockDel _ _ => False | _ => True end.

  Lemma apply_flushes p : Forall isflush p -> forall P, apply_pwrites P p = P.
  Proof.
    induction 1 as [|w p Hw Hp IH]; intros P; [reflexivity|].
    rewrite apply_pwrites_cons. destruct w; try contradiction. cbn [apply_pwrite]. apply IH.
  Qed.

  Lemma present_stays p : Forall nodel p -> forall P k,
    kv_get (p_hash P) k <> None -> kv_get (p_hash (apply_pwrites P p)) k <> None.
  Proof.
    induction 1 as [|w p Hw Hp IH]; intros P k Hk; [exact Hk|].
    rewrite apply_pwrites_cons. apply IH.
    destruct w as [k1 v|k1|k1 h|k1|wh k1 v|wh k1|wh|x]; try (destruct wh as [|[q|q|]]);
      cbn [apply_pwrite p_hash]; try exact Hk; try contradiction.
    rewrite kv_get_put. destruct (k1 =? k); [discriminate|exact Hk].
  Qed.

  Lemma put_persists p : Forall nodel p -> forall P k v,
    In (PBlockPut 0 k v) p -> kv_get (p_hash (apply_pwrites P p)) k <> None.
  Proof.
    induction 1 as [|w p Hw Hp IH]; intros P k v Hin; [destruct Hin|].
    rewrite apply_pwrites_cons. destruct Hin as [->|Hin]; [|apply (IH _ k v Hin)].
    apply (present_stays p Hp). cbn [apply_pwrite p_hash]. rewrite kv_get_put, N.eqb_refl. discriminate.
  Qed.

  Lemma bputs_wok which c n M :
    (forall x, In x (map fst c) -> n < x /\ x <= M) -> Forall (wok n M) (bputs which c).
  Proof.
    intros H. unfold bputs. apply Forall_app. split; [|repeat constructor].
    apply Forall_forall. intros w Hw. apply in_map_iff in Hw as (e & <- & He). cbn [wok].
    apply H. apply in_map. exact He.
  Qed.

  Lemma bputs_nonv which c : Forall nonv (bputs which c).
  Proof.
    unfold bputs. apply Forall_app. split; [|repeat constructor].
    apply Forall_forall. intros w Hw. apply in_map_iff in Hw as (e & <- & He). exact I.
  Qed.

  Lemma bputs_nodel which c : Forall nodel (bputs which c).
  Proof.
    unfold bputs. apply Forall_app. split; [|repeat constructor].
    apply Forall_forall. intros w Hw. apply in_map_iff in Hw as (e & <- & He). exact I.
  Qed.

  Lemma isv_nodel w : isv w -> nodel w.
  Proof. destruct w; cbn; tauto. Qed.

  Lemma Forall_impl' {A} (P Q : A -> Prop) l : (forall a, P a -> Q a) -> Forall P l -> Forall Q l.
  Proof. intros H HF. apply (Forall_impl Q H HF). Qed.

  Lemma SInv_ext s cur sav cur' sav' st :
    SInv W s (cur, sav) st -> (forall k m, cur k m = cur' k m) -> (forall k m, sav k m = sav' k m) ->
    SInv W s (cur', sav') st.
  Proof.
    intros [It Imax Ilbn Ikeys Idb Ih Ihc Iopen Icl] H1 H2. constructor; try assumption.
    destruct It as (clk & sclk & TR & Hc1 & Hc2). exists clk, sclk. split; [|split; assumption].
    cbn [fst snd] in *. destruct TR as [Hcells Hnd Hd Hcd]. constructor; try assumption.
    intros k. cbn [ts_cur ts_sav ts_clk ts_sclk] in *.
    apply (CellRepr_ext _ (cur k) _ (sav k)); [apply Hcells|apply H1|apply H2].
  Qed.

  (* the files as they are at a commit point ARE the state as of the committed height *)
  Lemma recovered_at_commit_point s F st hc :
    SInv W s F st -> CInv s F st -> w_hc st = Some hc ->
    Recovered s F st (reopen (persistent s)) hc.
  Proof.
    intros I CI Ehc. destruct F as [cur sav].
    assert (Hwf : wf_step W st SClear = Some (mkWf (Some hc) (w_m st) (Some hc) false None)).
    { cbn [wf_step]. rewrite Ehc. reflexivity. }
    assert (Hs : sto_step W s SClear = Ok (reopen (persistent s))) by reflexivity.
    pose proof (SInv_step W s (cur, sav) st SClear _ _ I Hwf Hs) as I'. cbn [fs_step] in I'.
    destruct CI as [Hh Hb Hr Hord Hag Hfs Hfc Hhc Hrow Hemp Hlbn]. cbn [fst snd] in *.
    unfold hcN in Hfs. rewrite Ehc in Hfs.
    assert (Hdbmax : forall t, BT t st -> forall x, kv_get (b_db t) x <> None -> x <= hc).
    { intros t B x Hx. apply kv_get_in_keys in Hx. destruct (bt_db _ _ B x Hx) as (hc' & E & Hle).
      rewrite Ehc in E. injection E as <-. exact Hle. }
    assert (Hrows : forall t, BT t st -> forall x,
               b_get (mkBTable (b_db t) []) x = if x <=? hc then kv_get (b_db t) x else None).
    { intros t B x. unfold b_get. cbn [b_cache b_db kv_get].
      destruct (N.leb_spec x hc); [reflexivity|].
      destruct (kv_get (b_db t) x) eqn:E; [|reflexivity].
      pose proof (Hdbmax t B x ltac:(rewrite E; discriminate)). lia. }
    assert (Hlast : kv_last_key (b_db (st_hash s)) = Some hc).
    { apply last_key_is; [apply Hh|apply Hhc; exact Ehc|].
      intros x Hx. apply (Hdbmax _ Hh). apply kv_get_in_keys. exact Hx. }
    assert (Hext : forall k m, sav k m = s_reorg (cur k) hc m).
    { intros k m. unfold s_reorg. rewrite (Hag hc Ehc k (N.min m hc)) by lia.
      destruct (N.le_gt_cases m hc); [rewrite N.min_l by lia; reflexivity|].
      rewrite N.min_r by lia. apply Hfs. lia. }
    unfold Recovered. cbn [fst].
    split; [|split; [|split; [|split; [|split; [|split]]]]].
    - intros k.
      rewrite (store_point_read W _ _ _ k (N.max (w_m st) hc) I')
        by (unfold bound, dstamp; cbn [w_m w_open w_dirty]; lia).
      cbn [fst]. rewrite Hext. unfold s_reorg. f_equal. f_equal. lia.
    - intros x. exact (Hrows _ Hh x).
    - intros x. exact (Hrows _ Hb x).
    - intros x. exact (Hrows _ Hr x).
    - unfold latest_height, b_last_key.
      cbn [reopen persistent st_lbn st_hash b_db b_cache p_hash kv_last_key]. rewrite Hlast. reflexivity.
    - unfold next_height, b_last_key.
      cbn [reopen persistent st_lbn st_hash b_db b_cache p_hash kv_last_key]. rewrite Hlast. reflexivity.
    - apply (SInv_ext _ sav sav); [exact I'|exact Hext|exact Hext].
  Qed.

  (* the guard of the engine on a reopened store *)
  Lemma guard_on_reopened d n M :
    ksorted (p_hash d) -> kv_get (p_hash d) n <> None ->
    (forall x, kv_get (p_hash d) x <> None -> x <= M) -> M <= n + W ->
    exists L, latest_height (reopen d) = L /\ kv_get (p_hash d) L <> None /\ n <= L /\
              (forall x, kv_get (p_hash d) x <> None -> x <= L) /\
              engine_reorg_guard W 0 (reopen d) n = if n =? L then RvNoop else RvDo.
  Proof.
    intros Hs Hn HM Hwin.
    assert (Hin : In n (map fst (p_hash d))) by (apply kv_get_in_keys; exact Hn).
    destruct (p_hash d) as [|a l] eqn:E; [destruct Hin|]. rewrite <- E in *.
    destruct (ksorted_last_some (p_hash d) ltac:(rewrite E; discriminate)) as (L & HL).
    assert (HLin : kv_get (p_hash d) L <> None).
    { apply kv_get_in_keys. apply kv_last_key_in. exact HL. }
    assert (Hmax : forall x, kv_get (p_hash d) x <> None -> x <= L).
    { intros x Hx. apply (ksorted_last_max _ _ _ Hs HL). apply kv_get_in_keys. exact Hx. }
    assert (Hlh : latest_height (reopen d) = L).
    { unfold latest_height, b_last_key. cbn [reopen st_lbn st_hash b_db b_cache]. rewrite HL. reflexivity. }
    exists L. split; [exact Hlh|]. split; [exact HLin|]. split; [apply Hmax; exact Hn|]. split; [exact Hmax|].
    unfold engine_reorg_guard. rewrite Hlh. cbn [N.eqb negb].
    pose proof (Hmax n Hn). pose proof (HM L HLin).
    destruct (N.ltb_spec L n); [lia|]. destruct (N.ltb_spec W (L - n)); [lia|]. reflexivity.
  Qed.

  Lemma psorted_persistent s F st : SInv W s F st -> CInv s F st -> psorted (persistent s).
  Proof.
    intros [It _ _ _ _ _ _ _ _] CI. destruct It as (clk & sclk & TR & _).
    unfold psorted, persistent. cbn [p_db p_cdb p_hash p_blk p_raw].
    split; [apply (tr_db_sorted _ _ _ TR)|]. split; [apply (tr_cdb_sorted _ _ _ TR)|].
    split; [apply (bt_s _ _ (ci_hash _ _ _ CI))|]. split; [apply (bt_s _ _ (ci_blk _ _ _ CI))|].
    apply (bt_s _ _ (ci_raw _ _ _ CI)).
  Qed.

  Theorem store_crash_in_commit_recovers s F st es ws p q n :
    SInv W s F st -> CInv s F st -> w_dirty st = false ->
    Permutation.Permutation es (t_cache (st_t s)) ->
    commit_script_ord W s es = Ok ws -> ws = p ++ q ->
    kv_get (b_db (st_hash s)) n <> None ->
    w_m st <= n + W ->
    (exists hc, w_hc st = Some hc /\ n <= hc) /\
    engine_reorg_guard W 0 (reopen (apply_pwrites (persistent s) p)) n <> RvRefused /\
    exists s2, engine_reorg W (reopen (apply_pwrites (persistent s) p)) n = Ok s2 /\
               Recovered s F st s2 n.
  Proof.
    intros I CI Hclean Hperm Hcs Hpq Hn Hwin.
    assert (Hnin : In n (map fst (b_db (st_hash s)))) by (apply kv_get_in_keys; exact Hn).
    destruct (bt_db _ _ (ci_hash _ _ _ CI) n Hnin) as (hc & Ehc & Hnhc).
    destruct (ci_ord _ _ _ CI hc Ehc) as (h & Eh & Hhch).
    split; [exists hc; split; assumption|].
    pose proof (psorted_persistent s F st I CI) as Hps.
    pose proof (next_height_bound W s st F I Hclean) as Hnext.
    pose proof I as [It Imax Ilbn Ikeys Idb Ih Ihc Iopen Icl].
    pose proof (Ih h Eh) as Hhm.
    destruct It as (clk & sclk & TR & Hclk & Hsclk).
    assert (Hbd : bound st = w_m st).
    { unfold bound, dstamp. rewrite (Icl Hclean), Hclean. lia. }
    assert (Htop : top st = h) by (unfold top; rewrite Eh, Hclean; reflexivity).
    destruct F as [cur sav]. cbn [fst snd] in *.
    (* the script *)
    unfold commit_script_ord in Hcs.
    destruct (vscript W (next_height s) es) as [v| |] eqn:Hv; cbn [rbind] in Hcs; try discriminate.
    injection Hcs as Hws.
    assert (Hndes : NoDup (map fst es)).
    { apply (Permutation.Permutation_NoDup
               (Permutation.Permutation_map fst (Permutation.Permutation_sym Hperm)) (tr_nodup _ _ _ TR)). }
    assert (Hges : forall k, kv_get es k = kv_get (t_cache (st_t s)) k).
    { intros k. apply (kv_get_perm es _ k Hndes Hperm). }
    set (A := PFlush 3 :: bputs 0 (b_cache (st_hash s)) ++ bputs 1 (b_cache (st_blk s)) ++ bputs 2 (b_cache (st_raw s))).
    assert (HwsA : ws = A ++ v).
    { rewrite <- Hws. unfold A. cbn [app]. rewrite <- !app_assoc. reflexivity. }
    assert (Hcachekeys : forall t, BT t st -> forall x, In x (map fst (b_cache t)) -> hc < x /\ x <= w_m st).
    { intros t B x Hx. split; [apply (bt_lo _ _ B x hc Hx Ehc)|].
      pose proof (bt_hi _ _ B x Hx) as H. unfold cache_hi in H. rewrite Eh, Htop in H. lia. }
    assert (HwokA : Forall (wok hc (w_m st)) A).
    { unfold A. constructor; [exact Logic.I|]. apply Forall_app. split; [|apply Forall_app; split];
        apply bputs_wok; [apply (Hcachekeys _ (ci_hash _ _ _ CI))|apply (Hcachekeys _ (ci_blk _ _ _ CI))
                         |apply (Hcachekeys _ (ci_raw _ _ _ CI))]. }
    assert (Hwok : Forall (wok hc (w_m st)) ws).
    { rewrite HwsA. apply Forall_app. split; [exact HwokA|].
      apply (Forall_impl' isv); [apply isv_wok|apply (vscript_isv _ _ _ Hv)]. }
    assert (HnonvA : Forall nonv A).
    { unfold A. constructor; [exact Logic.I|]. apply Forall_app. split; [|apply Forall_app; split]; apply bputs_nonv. }
    assert (Hnodel : Forall nodel ws).
    { rewrite HwsA. apply Forall_app. split.
      - unfold A. constructor; [exact Logic.I|]. apply Forall_app. split; [|apply Forall_app; split]; apply bputs_nodel.
      - apply (Forall_impl' isv); [apply isv_nodel|apply (vscript_isv _ _ _ Hv)]. }
    set (d' := apply_pwrites (persistent s) p).
    destruct (apply_wok hc (w_m st) p (Forall_prefix _ _ _ _ Hwok Hpq) (persistent s)) as (Hmaxd & Bh & Bb & Br).
    fold d' in Hmaxd, Bh, Bb, Br. cbn [persistent p_hash p_blk p_raw p_max] in Hmaxd, Bh, Bb, Br.
    assert (Hpsd : psorted d') by (apply apply_pwrites_sorted; exact Hps).
    (* the cells *)
    assert (Hclass : forall k,
               let c := view (st_t s) k in let K := pcell d' k in
               K = crash_none c \/ crash_mid W (next_height s) c = Ok K \/ crash_both W (next_height s) c = Ok K).
    { intros k. cbn zeta. rewrite HwsA in Hpq.
      destruct (app_eq_app _ _ _ _ Hpq) as (l & [[HA Hq]|[Hp Hvl]]).
      - left. assert (Hnv : Forall nonv p) by (apply (Forall_prefix _ _ _ _ HnonvA HA)).
        destruct (apply_nonv p Hnv (persistent s)) as [E1 E2]. unfold pcell, d'. rewrite E1, E2. reflexivity.
      - destruct (apply_nonv A HnonvA (persistent s)) as [E1 E2].
        destruct (vscript_prefix_cells _ _ Hndes _ Hv l q Hvl (apply_pwrites (persistent s) A))
          as (_ & Hc). specialize (Hc k). cbn zeta in Hc. rewrite E1, E2, Hges in Hc.
        unfold d'. rewrite Hp, apply_pwrites_app. exact Hc. }
    assert (Hcells : forall k, exists c', c_reorg W n (pcell d' k) = Ok c' /\
               CellRepr c' (s_reorg (cur k) n) (s_reorg (cur k) n) (w_m st) (w_m st)).
    { intros k.
      apply (cell_crash_recovers (view (st_t s) k) (cur k) (sav k) clk sclk (next_height s) hc n (w_m st)
               (tr_cells _ _ _ TR k)); try lia.
      - intros m Hm. apply (ci_agree _ _ _ CI hc Ehc k m Hm).
      - apply Hclass. }
    destruct (recover_general s (cur, sav) st d' n I Hclean Hwin Hpsd Hmaxd Hcells) as (s2 & Hs2 & Hrec);
      try (intros x Hx; first [apply (proj1 Bh)|apply (proj1 Bb)|apply (proj1 Br)]; lia); try exact Hn; try lia.
    (* the guard *)
    destruct Hpsd as (_ & _ & Hsh & _ & _).
    assert (Hnd' : kv_get (p_hash d') n <> None) by (rewrite (proj1 Bh n Hnhc); exact Hn).
    assert (HM : forall x, kv_get (p_hash d') x <> None -> x <= w_m st).
    { intros x Hx. destruct (proj2 Bh x Hx) as [H|H]; [|exact H]. apply Idb. apply kv_get_in_keys. exact H. }
    destruct (guard_on_reopened d' n (w_m st) Hsh Hnd' HM Hwin) as (L & HL & HLin & HnL & HLmax & Hg).
    unfold engine_reorg. rewrite Hg.
    destruct (N.eqb_spec n L) as [HnLe|HnLne]; [|split; [discriminate|exists s2; split; assumption]].
    split; [discriminate|].
    (* no-op: nothing but flushes can have happened, and n is the committed height *)
    assert (Hhcin : kv_get (p_hash d') hc <> None).
    { rewrite (proj1 Bh hc ltac:(lia)). apply kv_get_in_keys. apply (ci_hc _ _ _ CI hc Ehc). }
    assert (Hnhc' : n = hc) by (pose proof (HLmax hc Hhcin); lia).
    assert (Hnoput : forall k v0, ~ In (PBlockPut 0 k v0) p).
    { intros k v0 Hin.
      pose proof (put_persists p (Forall_prefix _ _ _ _ Hnodel Hpq) (persistent s) k v0 Hin) as Hk.
      fold d' in Hk. pose proof (HLmax k Hk).
      assert (Hw : wok hc (w_m st) (PBlockPut 0 k v0)).
      { apply (proj1 (Forall_forall _ _) (Forall_prefix _ _ _ _ Hwok Hpq) _ Hin). }
      cbn [wok] in Hw. lia. }
    assert (Hfl : Forall isflush p).
    { clear Hclass Hwok HwokA HnonvA Hnodel. subst A.
      destruct (b_cache (st_hash s)) as [|e c0'] eqn:Ec0.
      - destruct (ci_empty _ _ _ CI Hclean Ec0) as (Et & E1 & E2).
        rewrite Et in Hperm. apply Permutation.Permutation_sym, Permutation.Permutation_nil in Hperm. subst es.
        cbn in Hv. injection Hv as <-.
        rewrite E1, E2 in HwsA. cbn in HwsA.
        apply (Forall_prefix isflush ws p q); [rewrite HwsA; repeat constructor|exact Hpq].
      - rewrite HwsA in Hpq. cbn [bputs map app] in Hpq.
        destruct p as [|x [|y p']]; [constructor| |].
        + cbn [app] in Hpq. injection Hpq as <- _. repeat constructor.
        + cbn [app] in Hpq. injection Hpq as <- <- _. exfalso.
          apply (Hnoput (fst e) (snd e)). right. left. reflexivity. }
    exists (reopen d'). split; [reflexivity|].
    unfold d'. rewrite (apply_flushes p Hfl). rewrite Hnhc'.
    apply (recovered_at_commit_point s (cur, sav) st hc I CI Ehc).
  Qed.
  (* ================= (c) a crash inside reorg ================= *)

  Lemma seqN_snoc a j : seqN a (S j) = seqN a j ++ [a + N.of_nat j].
  Proof.
    revert a. induction j as [|j IH]; intros a.
    - cbn [seqN app]. f_equal. lia.
    - change (seqN a (S (S j))) with (a :: seqN (a + 1) (S j)). rewrite IH.
      cbn [seqN app]. f_equal. f_equal. f_equal. lia.
  Qed.

  Lemma In_seqN x a len : In x (seqN a len) -> a <= x /\ x < a + N.of_nat len.
  Proof.
    revert a. induction len as [|l IH]; intros a H; [destruct H|].
    cbn [seqN] in H. destruct H as [<-|H]; [lia|]. specialize (IH _ H). lia.
  Qed.

  (* no delete of the height row of block x *)
  Definition ndel (x : N) (w : pwrite) : Prop :=
    match w with PBlockDel 0 k => k <> x | _ => True end.

  Lemma present_stays_ndel x l : Forall (ndel x) l -> forall P,
    kv_get (p_hash P) x <> None -> kv_get (p_hash (apply_pwrites P l)) x <> None.
  Proof.
    induction 1 as [|w l Hw Hl IH]; intros P Hk; [exact Hk|].
    rewrite apply_pwrites_cons. apply IH.
    destruct w as [k1 v|k1|k1 h|k1|wh k1 v|wh k1|wh|y]; try (destruct wh as [|[q|q|]]);
      cbn [apply_pwrite p_hash]; try exact Hk.
    - rewrite kv_get_put. destruct (k1 =? x); [discriminate|exact Hk].
    - cbn [ndel] in Hw. rewrite kv_get_del. destruct (N.eqb_spec k1 x); [contradiction|exact Hk].
  Qed.

  Lemma isv_ndel x w : isv w -> ndel x w.
  Proof. destruct w; cbn; tauto. Qed.

  Lemma bputs_ndel x which c : Forall (ndel x) (bputs which c).
  Proof.
    unfold bputs. apply Forall_app. split; [|repeat constructor].
    apply Forall_forall. intros w Hw. apply in_map_iff in Hw as (e & <- & He). exact Logic.I.
  Qed.

  Lemma bdels_ndel x which t n0 : x <= n0 -> Forall (ndel x) (bdels which t n0).
  Proof.
    intros Hx. unfold bdels. destruct (b_last_key t); [|constructor].
    apply Forall_forall. intros w Hw. apply in_map_iff in Hw as (k & <- & Hk).
    apply In_seqN in Hk. destruct which as [|[q|q|]]; cbn [ndel]; try exact Logic.I. lia.
  Qed.

  Lemma bdels_wok which t n0 m M : m <= n0 -> Forall (wok m M) (bdels which t n0).
  Proof.
    intros Hm. unfold bdels. destruct (b_last_key t); [|constructor].
    apply Forall_forall. intros w Hw. apply in_map_iff in Hw as (k & <- & Hk).
    apply In_seqN in Hk. cbn [wok]. lia.
  Qed.

  Lemma bdels_nonv which t n0 : Forall nonv (bdels which t n0).
  Proof.
    unfold bdels. destruct (b_last_key t); [|constructor].
    apply Forall_forall. intros w Hw. apply in_map_iff in Hw as (k & <- & Hk). exact Logic.I.
  Qed.

  Lemma b_last_key_eq (t : btable N) h :
    bt_sorted t -> In h (map fst (b_db t) ++ map fst (b_cache t)) ->
    (forall x, In x (map fst (b_db t) ++ map fst (b_cache t)) -> x <= h) -> b_last_key t = Some h.
  Proof.
    intros Hs Hin Hmax. destruct (b_last_key_max t h Hs Hin) as (e & He & Hle). rewrite He. f_equal.
    assert (Hein : In e (map fst (b_db t) ++ map fst (b_cache t))).
    { unfold b_last_key, omax in He. apply in_or_app.
      destruct (kv_last_key (b_db t)) as [x|] eqn:E1; destruct (kv_last_key (b_cache t)) as [y|] eqn:E2;
        try discriminate; injection He as <-.
      - destruct (N.max_spec x y) as [[_ ->]|[_ ->]]; [right|left]; apply kv_last_key_in; assumption.
      - left. apply kv_last_key_in; assumption.
      - right. apply kv_last_key_in; assumption. }
    specialize (Hmax e Hein). lia.
  Qed.

  (* on a clean boundary the engine's height is the height of the trace *)
  Lemma heights_are s F st h :
    CInv s F st -> w_dirty st = false -> w_h st = Some h ->
    latest_height s = h /\ next_height s = h + 1.
  Proof.
    intros CI Hclean Eh. unfold latest_height, next_height.
    destruct (st_lbn s) as [x|] eqn:El.
    - rewrite (ci_lbn _ _ _ CI x El) in Eh. injection Eh as <-. split; reflexivity.
    - assert (Hl : b_last_key (st_hash s) = Some h).
      { pose proof (ci_hash _ _ _ CI) as B. apply b_last_key_eq; [apply B| |].
        - apply in_or_app. destruct (b_get_in_cache_or_db _ _ (ci_hrow _ _ _ CI Hclean h Eh)) as [H|H];
            [right|left]; apply kv_get_in_keys; exact H.
        - intros x Hx. apply in_app_or in Hx as [Hx|Hx].
          + destruct (bt_db _ _ B x Hx) as (hc & Ehc & Hle).
            destruct (ci_ord _ _ _ CI hc Ehc) as (h' & Eh' & Hle'). rewrite Eh in Eh'. injection Eh' as <-. lia.
          + pose proof (bt_hi _ _ B x Hx) as H. unfold cache_hi, top in H. rewrite Eh, Hclean in H. exact H. }
      rewrite Hl. split; reflexivity.
  Qed.

  Lemma filter_le_none (c : kv N) n : (forall x, In x (map fst c) -> n < x) -> filter (fun r => fst r <=? n) c = [].
  Proof.
    intros H. induction c as [|[k v] c IH]; [reflexivity|].
    cbn [filter fst]. destruct (N.leb_spec k n) as [Hle|Hgt].
    - specialize (H k (or_introl eq_refl)). lia.
    - apply IH. intros x Hx. apply H. right. exact Hx.
  Qed.

  (* the result of a completed reorg(n0), n0 at or below the committed height *)
  Lemma recovered_after_reorg s F st h hc n0 s_r :
    SInv W s F st -> CInv s F st -> w_dirty st = false -> w_h st = Some h -> w_hc st = Some hc ->
    n0 <= h -> n0 <= hc -> w_m st <= n0 + W -> b_get (st_hash s) n0 <> None ->
    sto_reorg W s n0 = Ok s_r ->
    Recovered s F st s_r n0 /\ reopen (persistent s_r) = s_r.
  Proof.
    intros I CI Hclean Eh Ehc Hn0h Hn0hc Hwin Hrow Hr.
    set (st1 := mkWf (Some n0) (w_m st) (Some n0) false None).
    assert (Hwf : wf_step W st (SReorg n0) = Some st1).
    { cbn [wf_step]. rewrite Eh, Hclean. cbn [negb andb].
      rewrite (proj2 (N.leb_le _ _) Hn0h), (proj2 (N.leb_le _ _) Hwin). reflexivity. }
    assert (Hs : sto_step W s (SReorg n0) = Ok s_r) by exact Hr.
    assert (Hok : crash_step_ok s (SReorg n0) = true).
    { cbn [crash_step_ok]. destruct (b_get (st_hash s) n0); [reflexivity|contradiction]. }
    pose proof (SInv_step W s F st _ _ _ I Hwf Hs) as I'.
    pose proof (CInv_step s F st _ _ _ I CI Hok Hwf Hs) as CI'.
    destruct (heights_are s_r _ st1 n0 CI' eq_refl eq_refl) as [Hl1 Hl2].
    assert (Hreads : forall k, t_latest (st_t s_r) k = Ok (fst F k n0)).
    { intros k. apply (store_reorg_restores W s F st n0 st1 s_r k I Hwf Hs). }
    destruct F as [cur sav]. cbn [fs_step fst] in *.
    unfold sto_reorg in Hr.
    destruct (W + n0 <? match st_max s with Some m => m | None => 0 end); [discriminate|].
    destruct (t_reorg W (st_t s) n0) as [t1| |]; cbn [rbind] in Hr; try discriminate.
    unfold sto_commit in Hr. cbn [st_t st_hash st_blk st_raw st_max st_lbn] in Hr.
    destruct (t_commit W t1 _) as [t2| |]; cbn [rbind] in Hr; try discriminate.
    injection Hr as <-.
    assert (Hrows : forall t, BT t st -> forall x,
              b_get (b_clear (b_commit (b_reorg t n0))) x = if x <=? n0 then kv_get (b_db t) x else None).
    { intros t B x.
      rewrite (b_get_commit_clear _ _ (ksorted_nodup _ (proj2 (bt_sorted_reorg _ n0 (bt_s _ _ B))))).
      rewrite b_get_reorg. destruct (N.leb_spec x n0); [|reflexivity].
      unfold b_get. rewrite (kv_get_none_notin (b_cache t) x); [reflexivity|].
      intros Hin. pose proof (bt_lo _ _ B x hc Hin Ehc). lia. }
    split; [|reflexivity].
    unfold Recovered. cbn [fst].
    split; [exact Hreads|]. split; [exact (Hrows _ (ci_hash _ _ _ CI))|].
    split; [exact (Hrows _ (ci_blk _ _ _ CI))|]. split; [exact (Hrows _ (ci_raw _ _ _ CI))|].
    split; [exact Hl1|]. split; [exact Hl2|]. exact I'.
  Qed.

  Theorem store_crash_in_reorg_recovers s F st n0 t1 es1 ws p q n :
    SInv W s F st -> CInv s F st -> w_dirty st = false ->
    engine_reorg_guard W 0 s n0 = RvDo ->
    b_get (st_hash s) n0 <> None ->
    reorg_keys (st_t s) n0 (map fst (t_cdb (st_t s)) ++ map fst (t_cache (st_t s))) = Ok t1 ->
    Permutation.Permutation es1 (t_cache t1) ->
    reorg_script_ord W s n0 es1 = Ok ws -> ws = p ++ q ->
    kv_get (b_db (st_hash s)) n <> None -> n <= n0 ->
    w_m st <= n + W ->
    (exists hc, w_hc st = Some hc /\ n <= hc) /\
    engine_reorg_guard W 0 (reopen (apply_pwrites (persistent s) p)) n <> RvRefused /\
    exists s2, engine_reorg W (reopen (apply_pwrites (persistent s) p)) n = Ok s2 /\
               Recovered s F st s2 n.
  Proof.
    intros I CI Hclean Hg0 Hn0row E1 Hperm Hrs0 Hpq Hn Hnn0 Hwin.
    assert (Hnin : In n (map fst (b_db (st_hash s)))) by (apply kv_get_in_keys; exact Hn).
    destruct (bt_db _ _ (ci_hash _ _ _ CI) n Hnin) as (hc & Ehc & Hnhc).
    destruct (ci_ord _ _ _ CI hc Ehc) as (h & Eh & Hhch).
    split; [exists hc; split; assumption|].
    destruct (heights_are s F st h CI Hclean Eh) as [Hlh _].
    apply engine_guard_spec in Hg0 as (_ & Hn0h & _). rewrite Hlh in Hn0h.
    pose proof (psorted_persistent s F st I CI) as Hps.
    pose proof I as [It Imax Ilbn Ikeys Idb Ih Ihc Iopen Icl].
    pose proof (Ih h Eh) as Hhm.
    destruct It as (clk & sclk & TR & Hclk & Hsclk).
    assert (Hbd : bound st = w_m st).
    { unfold bound, dstamp. rewrite (Icl Hclean), Hclean. lia. }
    assert (Htop : top st = h) by (unfold top; rewrite Eh, Hclean; reflexivity).
    pose proof (ci_hash _ _ _ CI) as BTh. pose proof (ci_blk _ _ _ CI) as BTb. pose proof (ci_raw _ _ _ CI) as BTr.
    destruct F as [cur sav]. cbn [fst snd] in *.
    set (m0 := N.min n0 hc).
    (* the script *)
    pose proof Hrs0 as Hrs. unfold reorg_script_ord in Hrs.
    destruct (W + n0 <? match st_max s with Some m => m | None => 0 end) eqn:Hguard; [discriminate|].
    destruct (vscript W n0 es1) as [v| |] eqn:Hv; cbn [rbind] in Hrs; try discriminate.
    injection Hrs as Hws.
    destruct (reorg_keys_view n0 _ _ _ E1) as (Hd1 & Hc1 & Hnd1 & Hv1).
    assert (Hndes : NoDup (map fst es1)).
    { apply (Permutation.Permutation_NoDup
               (Permutation.Permutation_map fst (Permutation.Permutation_sym Hperm)) (Hnd1 (tr_nodup _ _ _ TR))). }
    assert (Hges : forall k, kv_get es1 k = kv_get (t_cache t1) k).
    { intros k. apply (kv_get_perm es1 _ k Hndes Hperm). }
    set (c0 := b_cache (st_hash s)) in *.
    set (hash1 := b_commit (st_hash s)) in *.
    set (Y := PFlush 3 :: bputs 0 (b_cache (b_reorg hash1 n0)) ++ bputs 1 (b_cache (b_reorg (st_blk s) n0))
                       ++ bputs 2 (b_cache (b_reorg (st_raw s) n0))) in *.
    set (B := bdels 1 (st_blk s) n0 ++ bdels 2 (st_raw s) n0 ++ bdels 0 hash1 n0 ++ Y) in *.
    assert (Hcachekeys : forall t, BT t st -> forall x, In x (map fst (b_cache t)) -> hc < x /\ x <= w_m st).
    { intros t Bt x Hx. split; [apply (bt_lo _ _ Bt x hc Hx Ehc)|].
      pose proof (bt_hi _ _ Bt x Hx) as H. unfold cache_hi in H. rewrite Eh, Htop in H. lia. }
    assert (Hfk : forall t, BT t st -> forall x, In x (map fst (b_cache (b_reorg t n0))) -> m0 < x /\ x <= w_m st).
    { intros t Bt x Hx. cbn [b_reorg b_cache] in Hx. destruct (filter_le_keys _ _ _ Hx) as [_ Hx'].
      destruct (Hcachekeys t Bt x Hx'). unfold m0. lia. }
    assert (Hfk1 : forall x, In x (map fst (b_cache (b_reorg hash1 n0))) -> m0 < x /\ x <= w_m st).
    { intros x Hx. apply (Hfk _ BTh x). exact Hx. }
    assert (HwokY : Forall (wok m0 (w_m st)) Y).
    { unfold Y. constructor; [exact Logic.I|]. apply Forall_app. split; [|apply Forall_app; split]; apply bputs_wok;
        [exact Hfk1|apply (Hfk _ BTb)|apply (Hfk _ BTr)]. }
    assert (HwokB : Forall (wok m0 (w_m st)) B).
    { unfold B. apply Forall_app. split; [apply bdels_wok; unfold m0; lia|].
      apply Forall_app. split; [apply bdels_wok; unfold m0; lia|].
      apply Forall_app. split; [apply bdels_wok; unfold m0; lia|exact HwokY]. }
    assert (HwokA : Forall (wok m0 (w_m st)) (bputs 0 c0)).
    { apply bputs_wok. intros x Hx. destruct (Hcachekeys _ BTh x Hx). unfold m0. lia. }
    assert (Hwokv : Forall (wok m0 (w_m st)) v).
    { apply (Forall_impl' isv); [apply isv_wok|apply (vscript_isv _ _ _ Hv)]. }
    assert (Hwok : Forall (wok m0 (w_m st)) ws).
    { rewrite <- Hws. apply Forall_app. split; [exact HwokA|]. apply Forall_app. split; assumption. }
    assert (HnonvB : Forall nonv B).
    { unfold B, Y. apply Forall_app. split; [apply bdels_nonv|]. apply Forall_app. split; [apply bdels_nonv|].
      apply Forall_app. split; [apply bdels_nonv|]. constructor; [exact Logic.I|].
      apply Forall_app. split; [|apply Forall_app; split]; apply bputs_nonv. }
    set (P0 := persistent s) in *.
    set (d' := apply_pwrites P0 p).
    destruct (apply_wok m0 (w_m st) p (Forall_prefix _ _ _ _ Hwok Hpq) P0) as (Hmaxd & Bh & Bb & Br).
    fold d' in Hmaxd, Bh, Bb, Br. cbn [P0 persistent p_hash p_blk p_raw p_max] in Hmaxd, Bh, Bb, Br.
    assert (Hnm0 : n <= m0) by (unfold m0; lia).
    assert (Hpsd : psorted d') by (apply apply_pwrites_sorted; exact Hps).
    (* the cells *)
    assert (Hclass1 : forall l q', v = l ++ q' -> forall PA, p_db PA = t_db (st_t s) -> p_cdb PA = t_cdb (st_t s) ->
              forall k, let c := view t1 k in let K := pcell (apply_pwrites PA l) k in
                        K = crash_none c \/ crash_mid W n0 c = Ok K \/ crash_both W n0 c = Ok K).
    { intros l q' Hl PA EA1 EA2 k.
      destruct (vscript_prefix_cells _ _ Hndes _ Hv l q' Hl PA) as (_ & Hc).
      specialize (Hc k). cbn zeta in Hc |- *. rewrite EA1, EA2, Hges in Hc. unfold view. rewrite Hd1, Hc1. exact Hc. }
    assert (Hclass : forall k,
               let c := view (st_t s) k in let K := pcell d' k in
               K = crash_none c \/
               exists h', h_reorg (c_retrieve c) n0 = Ok h' /\
                          (K = crash_none (c_write c h') \/ crash_mid W n0 (c_write c h') = Ok K \/
                           crash_both W n0 (c_write c h') = Ok K)).
    { intros k. cbn zeta.
      assert (Hlift : forall K, (K = crash_none (view t1 k) \/ crash_mid W n0 (view t1 k) = Ok K \/
                                 crash_both W n0 (view t1 k) = Ok K) ->
                K = crash_none (view (st_t s) k) \/
                exists h', h_reorg (c_retrieve (view (st_t s) k)) n0 = Ok h' /\
                  (K = crash_none (c_write (view (st_t s) k) h') \/ crash_mid W n0 (c_write (view (st_t s) k) h') = Ok K \/
                   crash_both W n0 (c_write (view (st_t s) k) h') = Ok K)).
      { intros K HK. specialize (Hv1 k). rewrite memb_touched in Hv1.
        destruct (c_touched (view (st_t s) k)) eqn:Ht.
        - destruct Hv1 as (h' & Hh' & Hv1). right. exists h'. split; [exact Hh'|]. rewrite <- Hv1. exact HK.
        - left. rewrite Hv1 in HK. unfold c_touched in Ht.
          destruct (view (st_t s) k) as [[dd pp] mm]. cbn [c_p c_m fst snd] in Ht.
          destruct pp; [discriminate|]. destruct mm; [discriminate|].
          unfold crash_none, crash_mid, crash_both, c_commit in *. cbn [c_m c_d c_p fst snd] in *.
          destruct HK as [HK|[HK|HK]]; congruence. }
      rewrite <- Hws in Hpq.
      destruct (app_eq_app _ _ _ _ Hpq) as (l & [[HA Hq]|[Hp Hvl]]).
      - left. assert (Hnv : Forall nonv p) by (apply (Forall_prefix _ _ _ _ (bputs_nonv 0 c0) HA)).
        destruct (apply_nonv p Hnv P0) as [E1' E2']. unfold pcell, d'. rewrite E1', E2'. reflexivity.
      - destruct (apply_nonv _ (bputs_nonv 0 c0) P0) as [EA1 EA2].
        apply Hlift. unfold d'. rewrite Hp, apply_pwrites_app.
        destruct (app_eq_app _ _ _ _ Hvl) as (l2 & [[Hv2 Hq2]|[Hl2 HB2]]).
        + apply (Hclass1 l l2 Hv2 _ EA1 EA2 k).
        + rewrite Hl2, apply_pwrites_app.
          assert (Hnv : Forall nonv l2) by (apply (Forall_prefix _ _ _ _ HnonvB HB2)).
          destruct (apply_nonv l2 Hnv (apply_pwrites (apply_pwrites P0 (bputs 0 c0)) v)) as [E1' E2'].
          pose proof (Hclass1 v [] (eq_sym (app_nil_r v)) _ EA1 EA2 k) as Hc. cbn zeta in Hc.
          unfold pcell in *. rewrite E1', E2'. exact Hc. }
    assert (Hcells : forall k, exists c', c_reorg W n (pcell d' k) = Ok c' /\
               CellRepr c' (s_reorg (cur k) n) (s_reorg (cur k) n) (w_m st) (w_m st)).
    { intros k.
      apply (cell_reorg_crash_recovers (view (st_t s) k) (cur k) (sav k) clk sclk n0 hc n (w_m st)
               (tr_cells _ _ _ TR k)); try lia.
      - intros m Hm. apply (ci_agree _ _ _ CI hc Ehc k m Hm).
      - apply Hclass. }
    destruct (recover_general s (cur, sav) st d' n I Hclean Hwin Hpsd Hmaxd Hcells) as (s2 & Hs2 & Hrec);
      try (intros x Hx; first [apply (proj1 Bh)|apply (proj1 Bb)|apply (proj1 Br)]; lia); try exact Hn; try lia.
    (* the guard *)
    destruct Hpsd as (_ & _ & Hsh & _ & _).
    assert (Hnd' : kv_get (p_hash d') n <> None) by (rewrite (proj1 Bh n Hnm0); exact Hn).
    assert (HM : forall x, kv_get (p_hash d') x <> None -> x <= w_m st).
    { intros x Hx. destruct (proj2 Bh x Hx) as [H|H]; [|exact H]. apply Idb. apply kv_get_in_keys. exact H. }
    destruct (guard_on_reopened d' n (w_m st) Hsh Hnd' HM Hwin) as (L & HL & HLin & HnL & HLmax & Hg).
    unfold engine_reorg. rewrite Hg.
    destruct (N.eqb_spec n L) as [HnLe|HnLne]; [|split; [discriminate|exists s2; split; assumption]].
    split; [discriminate|].
    (* ---- no-op: where can the prefix end? ---- *)
    subst n.
    exists (reopen d'). split; [reflexivity|].
    assert (Hh1 : kv_get (puts c0 (b_db (st_hash s))) h <> None).
    { unfold puts. rewrite (kv_get_fold_put _ _ _ (ksorted_nodup _ (proj2 (bt_s _ _ BTh)))).
      destruct (b_get_in_cache_or_db _ _ (ci_hrow _ _ _ CI Hclean h Eh)) as [H|H]; fold c0 in H |- *;
        destruct (kv_get c0 h); try discriminate; try contradiction; exact H. }
    assert (Hn01 : kv_get (puts c0 (b_db (st_hash s))) n0 <> None).
    { unfold puts. rewrite (kv_get_fold_put _ _ _ (ksorted_nodup _ (proj2 (bt_s _ _ BTh)))).
      destruct (b_get_in_cache_or_db _ _ Hn0row) as [H|H]; fold c0 in H |- *;
        destruct (kv_get c0 n0); try discriminate; try contradiction; exact H. }
    assert (Hlast1 : b_last_key hash1 = Some h).
    { apply b_last_key_eq; [apply bt_sorted_commit; apply BTh| |].
      - apply in_or_app. left. apply kv_get_in_keys. exact Hh1.
      - intros x Hx. apply in_app_or in Hx as [Hx|Hx].
        + destruct (keys_b_commit_db _ _ Hx) as [Hx'|Hx'].
          * destruct (bt_db _ _ BTh x Hx') as (hc' & E & Hle). rewrite Ehc in E. injection E as <-. lia.
          * pose proof (bt_hi _ _ BTh x Hx') as H. unfold cache_hi in H. rewrite Eh, Htop in H. exact H.
        + pose proof (bt_hi _ _ BTh x Hx) as H. unfold cache_hi in H. rewrite Eh, Htop in H. exact H. }
    (* the deletes of the height rows end with the row of h *)
    destruct (N.to_nat (h - n0)) as [|j] eqn:Ej; [lia|].
    assert (Hbd0 : bdels 0 hash1 n0 = map (PBlockDel 0) (seqN (n0 + 1) j) ++ [PBlockDel 0 h]).
    { unfold bdels. rewrite Hlast1, Ej, seqN_snoc, map_app. cbn [map]. do 3 f_equal. lia. }
    set (X1 := map (fun e => PBlockPut 0 (fst e) (snd e)) c0).
    set (X2 := [PFlush 0] ++ v ++ bdels 1 (st_blk s) n0 ++ bdels 2 (st_raw s) n0 ++ map (PBlockDel 0) (seqN (n0 + 1) j)).
    assert (HwsX : ws = X1 ++ X2 ++ PBlockDel 0 h :: Y).
    { rewrite <- Hws. unfold X1, X2, B, Y. rewrite Hbd0. unfold bputs. cbn [b_reorg b_cache b_commit hash1]. rewrite <- !app_assoc. reflexivity. }
    assert (HX1 : apply_pwrites P0 X1 = set_hash P0 (puts c0 (b_db (st_hash s)))).
    { pose proof (apply_bputs0 c0 P0) as H. unfold bputs in H. rewrite apply_pwrites_app in H.
      cbn [apply_pwrites fold_left apply_pwrite] in H. exact H. }
    assert (HndelX2 : Forall (ndel h) X2).
    { unfold X2. apply Forall_app. split; [repeat constructor|]. apply Forall_app. split.
      { apply (Forall_impl' isv); [apply isv_ndel|apply (vscript_isv _ _ _ Hv)]. }
      apply Forall_app. split.
      { unfold bdels. destruct (b_last_key (st_blk s)); [|constructor]. apply Forall_forall.
        intros w Hw. apply in_map_iff in Hw as (k & <- & _). exact Logic.I. }
      apply Forall_app. split.
      { unfold bdels. destruct (b_last_key (st_raw s)); [|constructor]. apply Forall_forall.
        intros w Hw. apply in_map_iff in Hw as (k & <- & _). exact Logic.I. }
      apply Forall_forall. intros w Hw. apply in_map_iff in Hw as (k & <- & Hk). apply In_seqN in Hk.
      cbn [ndel]. lia. }
    rewrite HwsX in Hpq.
    destruct (app_eq_app _ _ _ _ Hpq) as (l & [[HA Hq]|[Hp Hrest]]).
    - (* inside the first puts of the height rows *)
      destruct p as [|x p'].
      + assert (HLhc : L = hc).
        { assert (Hhcin : kv_get (p_hash d') hc <> None).
          { unfold d'. cbn [apply_pwrites fold_left P0 persistent p_hash]. apply kv_get_in_keys.
            apply (ci_hc _ _ _ CI hc Ehc). }
          pose proof (HLmax hc Hhcin). lia. }
        rewrite HLhc. unfold d'. cbn [apply_pwrites fold_left].
        apply (recovered_at_commit_point s (cur, sav) st hc I CI Ehc).
      + exfalso. unfold X1 in HA. destruct c0 as [|e c0'] eqn:Ec0; [discriminate|].
        cbn [map app] in HA. injection HA as <- HA.
        assert (Hnd : Forall nodel (PBlockPut 0 (fst e) (snd e) :: p')).
        { apply (Forall_prefix nodel (map (fun e0 => PBlockPut 0 (fst e0) (snd e0)) (e :: c0')) _ l).
          - apply Forall_forall. intros w Hw. apply in_map_iff in Hw as (e1 & <- & _). exact Logic.I.
          - cbn [map app]. f_equal. exact HA. }
        pose proof (put_persists _ Hnd P0 (fst e) (snd e) (or_introl eq_refl)) as Hk.
        fold d' in Hk. pose proof (HLmax _ Hk).
        destruct (Hcachekeys _ BTh (fst e)) as [Hlo _]; [fold c0; rewrite Ec0; left; reflexivity|]. lia.
    - destruct (app_eq_app _ _ _ _ Hrest) as (l2 & [[HX2 Hq2]|[Hl2 HY2]]).
      + (* before the delete of the row of h: that row is still there *)
        exfalso.
        assert (Hk : kv_get (p_hash d') h <> None).
        { unfold d'. rewrite Hp, apply_pwrites_app, HX1.
          apply (present_stays_ndel h l (Forall_prefix _ _ _ _ HndelX2 HX2)). exact Hh1. }
        pose proof (HLmax h Hk). lia.
      + destruct l2 as [|x l3].
        * (* exactly before it *)
          exfalso. rewrite app_nil_r in Hl2. subst l.
          assert (Hk : kv_get (p_hash d') h <> None).
          { unfold d'. rewrite Hp, apply_pwrites_app, HX1.
            apply (present_stays_ndel h X2 HndelX2). exact Hh1. }
          pose proof (HLmax h Hk). lia.
        * (* after it: the reorg is complete up to flushes *)
          cbn [app] in HY2. injection HY2 as <- HY2.
          assert (Hn0in : kv_get (p_hash d') n0 <> None).
          { unfold d'. rewrite Hp, apply_pwrites_app, HX1.
            assert (Hnd : Forall (ndel n0) l).
            { rewrite Hl2. apply Forall_app. split.
              - unfold X2. apply Forall_app. split; [repeat constructor|]. apply Forall_app. split.
                { apply (Forall_impl' isv); [apply isv_ndel|apply (vscript_isv _ _ _ Hv)]. }
                apply Forall_app. split; [apply bdels_ndel; lia|].
                apply Forall_app. split; [apply bdels_ndel; lia|].
                apply Forall_forall. intros w Hw. apply in_map_iff in Hw as (k & <- & Hk).
                apply In_seqN in Hk. cbn [ndel]. lia.
              - constructor; [cbn [ndel]; lia|].
                apply (Forall_prefix (ndel n0) Y l3 q); [|exact HY2].
                unfold Y. constructor; [exact Logic.I|].
                apply Forall_app. split; [|apply Forall_app; split]; apply bputs_ndel. }
            apply (present_stays_ndel n0 l Hnd). exact Hn01. }
          assert (Hnn : n0 = L) by (pose proof (HLmax n0 Hn0in); lia).
          subst n0.
          (* the surviving caches are empty: Y is flushes only *)
          assert (HYfl : Forall isflush Y).
          { unfold Y. cbn [b_reorg b_cache].
            rewrite (filter_le_none (b_cache hash1) L), (filter_le_none (b_cache (st_blk s)) L),
              (filter_le_none (b_cache (st_raw s)) L).
            - repeat constructor.
            - intros x Hx. destruct (Hcachekeys _ BTr x Hx). lia.
            - intros x Hx. destruct (Hcachekeys _ BTb x Hx). lia.
            - intros x Hx. destruct (Hcachekeys _ BTh x Hx). lia. }
          assert (Hfull : d' = apply_pwrites P0 ws).
          { unfold d'. rewrite HwsX, Hp, Hl2.
            rewrite !apply_pwrites_app, !apply_pwrites_cons.
            rewrite (apply_flushes l3 (Forall_prefix _ _ _ _ HYfl HY2)).
            rewrite (apply_flushes Y HYfl). reflexivity. }
          assert (Hwf : wf_step W st (SReorg L) <> None).
          { cbn [wf_step]. rewrite Eh, Hclean. cbn [negb andb].
            rewrite (proj2 (N.leb_le L h) ltac:(lia)), (proj2 (N.leb_le _ _) Hwin). discriminate. }
          destruct (wf_step W st (SReorg L)) as [st1|] eqn:Ewf; [|contradiction].
          destruct (store_reorg_ok W s (cur, sav) st L st1 I Ewf) as (s_r & Hsr).
          cbn [sto_step] in Hsr.
          destruct (reorg_script_ord_correct s L t1 es1 s_r
                      (conj (bt_s _ _ BTh) (conj (bt_s _ _ BTb) (bt_s _ _ BTr)))
                      (tr_db_sorted _ _ _ TR) (tr_cdb_sorted _ _ _ TR) (tr_nodup _ _ _ TR) E1 Hperm Hsr)
            as (ws' & Hws' & Hap).
          rewrite Hrs0 in Hws'. injection Hws' as <-.
          destruct (recovered_after_reorg s (cur, sav) st h hc L s_r I CI Hclean Eh Ehc ltac:(lia) Hnhc Hwin
                      Hn0row Hsr) as [Hrec' Hre].
          rewrite Hfull. fold P0 in Hap. rewrite Hap, Hre. exact Hrec'.
  Qed.

  (* ---------- the statements over recorded traces ---------- *)
  Theorem crun_commit_crash ops st s es ws p q n :
    crun W wf_init st_empty ops = Some (st, s) -> w_dirty st = false ->
    Permutation.Permutation es (t_cache (st_t s)) ->
    commit_script_ord W s es = Ok ws -> ws = p ++ q ->
    kv_get (b_db (st_hash s)) n <> None -> w_m st <= n + W ->
    exists s2, engine_reorg W (reopen (apply_pwrites (persistent s) p)) n = Ok s2 /\
               Recovered s (fs_run fs_init ops) st s2 n.
  Proof.
    intros Hrun Hclean Hperm Hcs Hpq Hn Hwin.
    destruct (crun_inv ops _ _ _ _ _ (SInv_init W) CInv_init Hrun) as [I CI].
    apply (store_crash_in_commit_recovers s _ st es ws p q n I CI Hclean Hperm Hcs Hpq Hn Hwin).
  Qed.

  Theorem crun_reorg_crash ops st s n0 t1 es1 ws p q n :
    crun W wf_init st_empty ops = Some (st, s) -> w_dirty st = false ->
    engine_reorg_guard W 0 s n0 = RvDo -> b_get (st_hash s) n0 <> None ->
    reorg_keys (st_t s) n0 (map fst (t_cdb (st_t s)) ++ map fst (t_cache (st_t s))) = Ok t1 ->
    Permutation.Permutation es1 (t_cache t1) ->
    reorg_script_ord W s n0 es1 = Ok ws -> ws = p ++ q ->
    kv_get (b_db (st_hash s)) n <> None -> n <= n0 -> w_m st <= n + W ->
    exists s2, engine_reorg W (reopen (apply_pwrites (persistent s) p)) n = Ok s2 /\
               Recovered s (fs_run fs_init ops) st s2 n.
  Proof.
    intros Hrun Hclean Hg Hrow E1 Hperm Hrs Hpq Hn Hnn0 Hwin.
    destruct (crun_inv ops _ _ _ _ _ (SInv_init W) CInv_init Hrun) as [I CI].
    apply (store_crash_in_reorg_recovers s _ st n0 t1 es1 ws p q n I CI Hclean Hg Hrow E1 Hperm Hrs Hpq Hn Hnn0 Hwin).
  Qed.

  (* the scripts exist on every clean boundary of a well-formed trace (commit and an admissible
     reorg never panic, C01/C03), so the theorems above are not vacuous *)
  Theorem commit_script_defined s F st :
    SInv W s F st -> w_dirty st = false -> exists ws, commit_script W s = Ok ws.
  Proof.
    intros I Hclean.
    assert (Hwf : wf_step W st SCommit = Some (mkWf (w_h st) (w_m st) (w_h st) false None)).
    { cbn [wf_step]. rewrite Hclean. reflexivity. }
    destruct (store_commit_ok W s F st _ I Hwf) as (s' & Hs'). cbn [sto_step] in Hs'.
    pose proof I as [It _ _ _ _ _ _ _ _]. destruct It as (clk & sclk & TR & _).
    destruct (commit_script_ord_correct s (t_cache (st_t s)) s' (tr_db_sorted _ _ _ TR) (tr_cdb_sorted _ _ _ TR)
                (tr_nodup _ _ _ TR) (Permutation.Permutation_refl _) Hs') as (ws & Hws & _).
    exists ws. exact Hws.
  Qed.
End CrashP.
