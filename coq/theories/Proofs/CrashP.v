(* C04 at store level: a crash keeps a prefix of the write script of commit_changes / reorg;
   reopening and the engine's reorg to a durable block inside the window restores exactly the
   state as of that block -- for the WHOLE store (every versioned key, the three block tables,
   the height), and re-establishes the store invariant [SInv]. *)
From Brc.Model Require Import Base History Table BlockTable Store Crash.
From Brc.Proofs Require Import HistoryP KvP TableP BlockTableP StoreP.
From Coq Require Import Sorting.Sorted.

Arguments N.add : simpl never.
Arguments N.sub : simpl never.
Arguments N.leb : simpl never.
Arguments N.ltb : simpl never.
Arguments N.eqb : simpl never.
Arguments N.max : simpl never.
Arguments N.min : simpl never.

(* ---------- small facts about the write interpreter ---------- *)

Lemma apply_pwrites_app d a b : apply_pwrites d (a ++ b) = apply_pwrites (apply_pwrites d a) b.
Proof. unfold apply_pwrites. apply fold_left_app. Qed.

Lemma apply_pwrites_cons d w ws : apply_pwrites d (w :: ws) = apply_pwrites (apply_pwrite d w) ws.
Proof. reflexivity. Qed.

Definition set_v (P : pstate) (d : kv N) (c : kv vhist) : pstate :=
  mkP d c (p_hash P) (p_blk P) (p_raw P) (p_max P).
Definition set_hash (P : pstate) (x : kv N) : pstate :=
  mkP (p_db P) (p_cdb P) x (p_blk P) (p_raw P) (p_max P).
Definition set_blk (P : pstate) (x : kv N) : pstate :=
  mkP (p_db P) (p_cdb P) (p_hash P) x (p_raw P) (p_max P).
Definition set_raw (P : pstate) (x : kv N) : pstate :=
  mkP (p_db P) (p_cdb P) (p_hash P) (p_blk P) x (p_max P).

Definition puts (c d : kv N) : kv N := fold_left (fun d e => kv_put d (fst e) (snd e)) c d.
Definition dels (ks : list N) (d : kv N) : kv N := fold_left (fun d k => kv_del d k) ks d.

Lemma apply_bputs0 c P : apply_pwrites P (bputs 0 c) = set_hash P (puts c (p_hash P)).
Proof.
  unfold bputs. rewrite apply_pwrites_app. cbn [apply_pwrites fold_left apply_pwrite].
  revert P. induction c as [|e c IH]; intros P; [destruct P; reflexivity|].
  cbn [map]. rewrite apply_pwrites_cons. rewrite IH. destruct P. reflexivity.
Qed.

Lemma apply_bputs1 c P : apply_pwrites P (bputs 1 c) = set_blk P (puts c (p_blk P)).
Proof.
  unfold bputs. rewrite apply_pwrites_app. cbn [apply_pwrites fold_left apply_pwrite].
  revert P. induction c as [|e c IH]; intros P; [destruct P; reflexivity|].
  cbn [map]. rewrite apply_pwrites_cons. rewrite IH. destruct P. reflexivity.
Qed.

Lemma apply_bputs2 c P : apply_pwrites P (bputs 2 c) = set_raw P (puts c (p_raw P)).
Proof.
  unfold bputs. rewrite apply_pwrites_app. cbn [apply_pwrites fold_left apply_pwrite].
  revert P. induction c as [|e c IH]; intros P; [destruct P; reflexivity|].
  cbn [map]. rewrite apply_pwrites_cons. rewrite IH. destruct P. reflexivity.
Qed.

Lemma apply_bdel_list0 ks P : apply_pwrites P (map (PBlockDel 0) ks) = set_hash P (dels ks (p_hash P)).
Proof.
  revert P. induction ks as [|k ks IH]; intros P; [destruct P; reflexivity|].
  cbn [map]. rewrite apply_pwrites_cons, IH. destruct P. reflexivity.
Qed.
Lemma apply_bdel_list1 ks P : apply_pwrites P (map (PBlockDel 1) ks) = set_blk P (dels ks (p_blk P)).
Proof.
  revert P. induction ks as [|k ks IH]; intros P; [destruct P; reflexivity|].
  cbn [map]. rewrite apply_pwrites_cons, IH. destruct P. reflexivity.
Qed.
Lemma apply_bdel_list2 ks P : apply_pwrites P (map (PBlockDel 2) ks) = set_raw P (dels ks (p_raw P)).
Proof.
  revert P. induction ks as [|k ks IH]; intros P; [destruct P; reflexivity|].
  cbn [map]. rewrite apply_pwrites_cons, IH. destruct P. reflexivity.
Qed.

(* ---------- ordered maps: last key, deletes of a range ---------- *)
Section KvMore.
  Context {A : Type}.
  Notation kv := (list (N * A)).

  Lemma ksorted_last_max (m : kv) e x :
    ksorted m -> kv_last_key m = Some e -> In x (map fst m) -> x <= e.
  Proof.
    unfold kv_last_key. induction m as [|a t IH]; intros Hs Hl Hin; [destruct Hin|].
    inversion Hs as [|? ? Hst Hf]; subst. rewrite Forall_forall in Hf.
    destruct t as [|b t'].
    - cbn in Hl. injection Hl as <-. destruct Hin as [<-|[]]. lia.
    - assert (Hl' : option_map fst (last (map Some (b :: t')) None) = Some e) by exact Hl.
      destruct Hin as [<-|Hin]; [|apply (IH Hst Hl' Hin)].
      assert (He : In e (map fst (b :: t'))).
      { apply kv_last_key_in. exact Hl'. }
      apply in_map_iff in He as (y & <- & Hy). specialize (Hf y Hy). lia.
  Qed.

  Lemma ksorted_last_some (m : kv) : m <> [] -> exists e, kv_last_key m = Some e.
  Proof.
    intros Hne. unfold kv_last_key. destruct m as [|a t] using rev_ind; [contradiction|].
    rewrite map_app. cbn [map]. rewrite last_last. eexists. reflexivity.
  Qed.

  Lemma kv_get_dels (ks : list N) (m : kv) x :
    kv_get (fold_left (fun d k => kv_del d k) ks m) x =
      if existsb (N.eqb x) ks then None else kv_get m x.
  Proof.
    revert m. induction ks as [|k ks IH]; intros m; [reflexivity|].
    cbn [fold_left existsb]. rewrite IH, kv_get_del. rewrite (N.eqb_sym x k).
    destruct (k =? x); cbn [orb]; [|reflexivity]. destruct (existsb (N.eqb x) ks); reflexivity.
  Qed.

  Lemma ksorted_dels (ks : list N) (m : kv) :
    ksorted m -> ksorted (fold_left (fun d k => kv_del d k) ks m).
  Proof.
    revert m. induction ks as [|k ks IH]; intros m Hs; [exact Hs|].
    cbn [fold_left]. apply IH. apply ksorted_del. exact Hs.
  Qed.

  Lemma ksorted_puts (c m : kv) :
    ksorted m -> ksorted (fold_left (fun d e => kv_put d (fst e) (snd e)) c m).
  Proof.
    revert m. induction c as [|e c IH]; intros m Hs; [exact Hs|].
    cbn [fold_left]. apply IH. apply ksorted_put. exact Hs.
  Qed.

  Lemma kv_get_none_notin (m : kv) x : ~ In x (map fst m) -> kv_get m x = None.
  Proof.
    intros H. destruct (kv_get m x) eqn:E; [|reflexivity]. exfalso. apply H.
    apply kv_get_in_keys. congruence.
  Qed.
End KvMore.

Lemma existsb_seqN x start len :
  existsb (N.eqb x) (seqN start len) = (start <=? x) && (x <? start + N.of_nat len).
Proof.
  revert start. induction len as [|l IH]; intros start; cbn [seqN existsb].
  - destruct (N.leb_spec start x), (N.ltb_spec x (start + N.of_nat 0)); cbn [andb]; try reflexivity; lia.
  - rewrite IH. destruct (N.eqb_spec x start) as [->|Hne]; cbn [orb].
    + destruct (N.leb_spec start start), (N.ltb_spec start (start + N.of_nat (S l))); cbn [andb]; try reflexivity; lia.
    + destruct (N.leb_spec (start + 1) x), (N.ltb_spec x (start + 1 + N.of_nat l)),
        (N.leb_spec start x), (N.ltb_spec x (start + N.of_nat (S l))); cbn [andb]; try reflexivity; lia.
Qed.

(* deleting n+1 ..= e from an ordered map none of whose keys exceeds e keeps exactly the rows <= n *)
Lemma dels_range_is_filter {A} (m : list (N * A)) n e :
  ksorted m -> (forall k, In k (map fst m) -> k <= e) ->
  fold_left (fun d k => kv_del d k) (seqN (n + 1) (N.to_nat (e - n))) m = filter (fun r => fst r <=? n) m.
Proof.
  intros Hs Hmax. apply ksorted_ext.
  - apply ksorted_dels. exact Hs.
  - apply ksorted_filter. exact Hs.
  - intros x. rewrite kv_get_dels, existsb_seqN, kv_get_filter_le, N2Nat.id.
    destruct (N.leb_spec (n + 1) x), (N.ltb_spec x (n + 1 + (e - n))), (N.leb_spec x n);
      cbn [andb]; try reflexivity; try lia.
    apply kv_get_none_notin. intros Hin. specialize (Hmax x Hin). lia.
Qed.

Section CrashP.
  Variable W : N.

  Notation spec := (N -> option N).
  Notation TRepr := (@TRepr N W).
  Notation CellRepr := (@CellRepr N W).
  Notation cell := (@cell N).

  (* ================= (a) the scripts are the model's commit / reorg ================= *)

  Lemma vscript_apply b es : forall ws P,
    vscript W b es = Ok ws ->
    exists d' c', commit_entries W b (p_db P, p_cdb P) es = Ok (d', c') /\
                  apply_pwrites P ws = set_v P d' c'.
  Proof.
    induction es as [|[k h] t IH]; intros ws P Hv.
    - cbn in Hv. injection Hv as <-. exists (p_db P), (p_cdb P). split; [reflexivity|].
      destruct P; reflexivity.
    - cbn [vscript entry_writes] in Hv. cbn [commit_entries commit_entry].
      destruct (h_latest h) as [l| |] eqn:Hl; cbn [rbind] in Hv; try discriminate.
      destruct (vscript W b t) as [r| |] eqn:Hr; cbn [rbind] in Hv; try discriminate.
      injection Hv as <-. cbn [rbind]. rewrite apply_pwrites_app.
      set (P1 := apply_pwrites P (if h_is_old W h b then [latest_write k l; PHistDel k]
                                   else [PHistPut k h; latest_write k l])).
      destruct (IH r P1 eq_refl) as (d' & c' & Hce & Hap).
      assert (HP1 : P1 = set_v P (match l with Some v => kv_put (p_db P) k v | None => kv_del (p_db P) k end)
                                 (if h_is_old W h b then kv_del (p_cdb P) k else kv_put (p_cdb P) k h)).
      { subst P1. destruct P as [d c hh bb rr mm]. destruct (h_is_old W h b), l; reflexivity. }
      clearbody P1. subst P1. cbn [set_v p_db p_cdb p_hash p_blk p_raw p_max] in Hce, Hap.
      exists d', c'. split; [|exact Hap].
      destruct l; exact Hce.
  Qed.

  Lemma vscript_total b es : forall dc dc',
    commit_entries W b dc es = Ok dc' -> exists ws, vscript W b es = Ok ws.
  Proof.
    induction es as [|[k h] t IH]; intros [d c] dc' Hc; [eexists; reflexivity|].
    cbn [commit_entries commit_entry] in Hc. cbn [vscript entry_writes].
    destruct (h_latest h) as [l| |]; cbn [rbind] in Hc |- *; try discriminate.
    destruct l; destruct (IH _ _ Hc) as (r & ->); cbn [rbind]; eexists; reflexivity.
  Qed.

  Lemma vscript_nil b : vscript W b [] = Ok [].
  Proof. reflexivity. Qed.

  Theorem commit_script_correct s s' :
    sto_commit W s = Ok s' ->
    exists ws, commit_script W s = Ok ws /\ apply_pwrites (persistent s) ws = persistent s'.
  Proof.
    unfold sto_commit, t_commit, commit_script. intros Hc.
    destruct (commit_entries W (next_height s) (t_db (st_t s), t_cdb (st_t s)) (t_cache (st_t s)))
      as [[d' c']| |] eqn:Hce; cbn [rbind] in Hc; try discriminate.
    injection Hc as <-.
    destruct (vscript_total _ _ _ _ Hce) as (v & Hv). rewrite Hv. cbn [rbind].
    eexists. split; [reflexivity|].
    rewrite apply_pwrites_cons. cbn [apply_pwrite].
    rewrite !apply_pwrites_app, apply_bputs0, apply_bputs1, apply_bputs2.
    destruct (vscript_apply _ _ _ (set_raw (set_blk (set_hash (persistent s) (puts (b_cache (st_hash s)) (p_hash (persistent s))))
                                              (puts (b_cache (st_blk s)) (p_blk (set_hash (persistent s) (puts (b_cache (st_hash s)) (p_hash (persistent s)))))))
                                   (puts (b_cache (st_raw s)) (p_raw (set_blk (set_hash (persistent s) (puts (b_cache (st_hash s)) (p_hash (persistent s))))
                                              (puts (b_cache (st_blk s)) (p_blk (set_hash (persistent s) (puts (b_cache (st_hash s)) (p_hash (persistent s))))))))))
                Hv) as (d2 & c2 & Hce2 & Hap).
    rewrite Hap. cbn [set_v set_raw set_blk set_hash persistent p_db p_cdb p_hash p_blk p_raw p_max] in Hce2 |- *.
    rewrite Hce in Hce2. injection Hce2 as <- <-.
    reflexivity.
  Qed.
  (* ---------- block tables: ordered, last key = greatest key ---------- *)
  Definition bt_sorted (t : btable N) : Prop := ksorted (b_db t) /\ ksorted (b_cache t).
  Definition bsorted (s : store) : Prop :=
    bt_sorted (st_hash s) /\ bt_sorted (st_blk s) /\ bt_sorted (st_raw s).

  Lemma b_last_key_max (t : btable N) k :
    bt_sorted t -> In k (map fst (b_db t) ++ map fst (b_cache t)) ->
    exists e, b_last_key t = Some e /\ k <= e.
  Proof.
    intros [Hd Hc] Hin. unfold b_last_key.
    apply in_app_or in Hin as [Hin|Hin].
    - destruct (b_db t) as [|a l] eqn:E; [destruct Hin|].
      destruct (ksorted_last_some (a :: l) ltac:(discriminate)) as (e & He). rewrite He.
      pose proof (ksorted_last_max _ _ _ Hd He Hin) as Hle.
      destruct (kv_last_key (b_cache t)) as [y|]; cbn [omax]; eexists; (split; [reflexivity|lia]).
    - destruct (b_cache t) as [|a l] eqn:E; [destruct Hin|].
      destruct (ksorted_last_some (a :: l) ltac:(discriminate)) as (e & He). rewrite He.
      pose proof (ksorted_last_max _ _ _ Hc He Hin) as Hle.
      destruct (kv_last_key (b_db t)) as [y|]; cbn [omax]; eexists; (split; [reflexivity|lia]).
  Qed.

  Lemma b_last_key_none (t : btable N) : b_last_key t = None -> b_db t = [] /\ b_cache t = [].
  Proof.
    unfold b_last_key. intros H. split.
    - destruct (b_db t) as [|a l]; [reflexivity|].
      destruct (ksorted_last_some (a :: l) ltac:(discriminate)) as (e & He). rewrite He in H.
      destruct (kv_last_key (b_cache t)); discriminate.
    - destruct (b_cache t) as [|a l]; [reflexivity|].
      destruct (ksorted_last_some (a :: l) ltac:(discriminate)) as (e & He). rewrite He in H.
      destruct (kv_last_key (b_db t)); discriminate.
  Qed.

  (* the deletes of BlockDatabase::reorg(n) leave exactly the rows <= n in the database *)
  Lemma dels_of_reorg (t : btable N) n :
    bt_sorted t ->
    match b_last_key t with
    | Some e => dels (seqN (n + 1) (N.to_nat (e - n))) (b_db t)
    | None => b_db t
    end = filter (fun r => fst r <=? n) (b_db t).
  Proof.
    intros Hs. destruct (b_last_key t) as [e|] eqn:El.
    - unfold dels. apply dels_range_is_filter; [apply Hs|].
      intros k Hk. destruct (b_last_key_max t k Hs ltac:(apply in_or_app; left; exact Hk)) as (e' & He' & Hle).
      rewrite El in He'. injection He' as <-. exact Hle.
    - destruct (b_last_key_none _ El) as [-> _]. reflexivity.
  Qed.

  Lemma apply_bdels0 (t : btable N) n P :
    bt_sorted t -> p_hash P = b_db t ->
    apply_pwrites P (bdels 0 t n) = set_hash P (filter (fun r => fst r <=? n) (b_db t)).
  Proof.
    intros Hs HP. rewrite <- (dels_of_reorg t n Hs). unfold bdels.
    destruct (b_last_key t); [rewrite apply_bdel_list0, HP; reflexivity|].
    rewrite <- HP. destruct P; reflexivity.
  Qed.
  Lemma apply_bdels1 (t : btable N) n P :
    bt_sorted t -> p_blk P = b_db t ->
    apply_pwrites P (bdels 1 t n) = set_blk P (filter (fun r => fst r <=? n) (b_db t)).
  Proof.
    intros Hs HP. rewrite <- (dels_of_reorg t n Hs). unfold bdels.
    destruct (b_last_key t); [rewrite apply_bdel_list1, HP; reflexivity|].
    rewrite <- HP. destruct P; reflexivity.
  Qed.
  Lemma apply_bdels2 (t : btable N) n P :
    bt_sorted t -> p_raw P = b_db t ->
    apply_pwrites P (bdels 2 t n) = set_raw P (filter (fun r => fst r <=? n) (b_db t)).
  Proof.
    intros Hs HP. rewrite <- (dels_of_reorg t n Hs). unfold bdels.
    destruct (b_last_key t); [rewrite apply_bdel_list2, HP; reflexivity|].
    rewrite <- HP. destruct P; reflexivity.
  Qed.

  Lemma bt_sorted_commit (t : btable N) : bt_sorted t -> bt_sorted (b_commit t).
  Proof. intros [Hd Hc]. split; [apply ksorted_puts; exact Hd|exact Hc]. Qed.

  (* re-putting the surviving cached rows over "rows <= n of (db with all cached rows put)"
     is the same as over "rows <= n of db" *)
  Lemma puts_filter_absorb (c d : kv N) n :
    ksorted d -> ksorted c ->
    puts (filter (fun r => fst r <=? n) c) (filter (fun r => fst r <=? n) (puts c d))
    = puts (filter (fun r => fst r <=? n) c) (filter (fun r => fst r <=? n) d).
  Proof.
    intros Hd Hc. unfold puts.
    assert (Hfc : ksorted (filter (fun r : N * N => fst r <=? n) c)) by (apply ksorted_filter; exact Hc).
    apply ksorted_ext.
    - apply ksorted_puts. apply ksorted_filter. apply ksorted_puts. exact Hd.
    - apply ksorted_puts. apply ksorted_filter. exact Hd.
    - intros x. rewrite !(kv_get_fold_put _ _ _ (ksorted_nodup _ Hfc)).
      rewrite !kv_get_filter_le. rewrite (kv_get_fold_put _ _ _ (ksorted_nodup _ Hc)).
      destruct (x <=? n); [|reflexivity]. destruct (kv_get c x); reflexivity.
  Qed.

  Theorem reorg_script_correct s n s' :
    bsorted s -> sto_reorg W s n = Ok s' ->
    exists ws, reorg_script W s n = Ok ws /\ apply_pwrites (persistent s) ws = persistent s'.
  Proof.
    intros (Hsh & Hsb & Hsr) Hr. unfold sto_reorg in Hr. unfold reorg_script.
    destruct (W + n <? match st_max s with Some m => m | None => 0 end); [discriminate|].
    unfold t_reorg in Hr.
    destruct (reorg_keys (st_t s) n (map fst (t_cdb (st_t s)) ++ map fst (t_cache (st_t s)))) as [t1| |] eqn:E1;
      cbn [rbind] in Hr |- *; try discriminate.
    unfold t_commit in Hr.
    destruct (commit_entries W n (t_db t1, t_cdb t1) (t_cache t1)) as [[d' c']| |] eqn:Hce;
      cbn [rbind fst snd] in Hr; try discriminate.
    unfold sto_commit, t_commit in Hr. cbn [st_t t_clear t_cache t_db t_cdb commit_entries rbind fst snd] in Hr.
    injection Hr as <-.
    destruct (vscript_total _ _ _ _ Hce) as (v & Hv). rewrite Hv. cbn [rbind].
    eexists. split; [reflexivity|].
    destruct (reorg_keys_view n _ _ _ E1) as (Hd1 & Hc1 & _).
    rewrite !apply_pwrites_app, apply_bputs0.
    set (P1 := set_hash (persistent s) (puts (b_cache (st_hash s)) (p_hash (persistent s)))).
    destruct (vscript_apply _ _ _ P1 Hv) as (d2 & c2 & Hce2 & Hap). rewrite Hap.
    assert (Hdc : d2 = d' /\ c2 = c').
    { subst P1. cbn [set_hash persistent p_db p_cdb] in Hce2. rewrite <- Hd1, <- Hc1 in Hce2.
      rewrite Hce in Hce2. injection Hce2 as <- <-. split; reflexivity. }
    destruct Hdc as [-> ->].
    rewrite (apply_bdels1 (st_blk s) n _ Hsb) by reflexivity.
    rewrite (apply_bdels2 (st_raw s) n _ Hsr) by reflexivity.
    rewrite (apply_bdels0 (b_commit (st_hash s)) n _ (bt_sorted_commit _ Hsh)) by reflexivity.
    rewrite apply_pwrites_cons. cbn [apply_pwrite].
    rewrite !apply_pwrites_app, apply_bputs0, apply_bputs1, apply_bputs2.
    subst P1.
    cbn [set_v set_raw set_blk set_hash persistent p_db p_cdb p_hash p_blk p_raw p_max
         sto_clear st_t st_hash st_blk st_raw st_max st_lbn b_clear b_commit b_reorg b_db b_cache t_clear t_db t_cdb].
    fold (puts (b_cache (st_hash s)) (b_db (st_hash s))).
    rewrite (puts_filter_absorb _ _ n (proj1 Hsh) (proj2 Hsh)).
    reflexivity.
  Qed.
End CrashP.
