(* Replica agreement over whole runs (C02).  [TableP.cache_order_unobservable] compares two
   tables at ONE point; here the comparison is lifted to histories, with the hash-map order
   re-chosen adversarially after EVERY operation: a replica executes the table operation as
   the code does and then its in-memory cache may sit in any order ([shuffle]); it may also
   have been restarted at any clean boundary (the cache is then empty and everything is read
   back from the rows).  Any two such replicas that start from states representing the same
   specification state and are fed the same operations answer every point read and every
   range scan identically - equal lists, in the same order. *)
From Brc.Model Require Import Base History Table.
From Brc.Proofs Require Import HistoryP KvP TableP.
From Coq Require Import Sorting.Sorted Sorting.Permutation.

Arguments N.add : simpl never.
Arguments N.leb : simpl never.
Arguments N.ltb : simpl never.
Arguments N.eqb : simpl never.

Section ReplicaP.
  Context {V : Type}.
  Variable veq : V -> V -> bool.
  Hypothesis veq_spec : forall a b, veq a b = true <-> a = b.
  Variable W : N.

  Notation table := (@table V).
  Notation top := (@top V).
  Notation tspec := (@tspec V).
  Notation TRepr := (@TRepr V W).
  Notation ts_step := (@ts_step V).

  (* the same rows, the same cache entries, in any order *)
  Definition shuffle (t t' : table) : Prop :=
    t_db t' = t_db t /\ t_cdb t' = t_cdb t /\ Permutation (t_cache t) (t_cache t').

  Lemma shuffle_refl t : shuffle t t.
  Proof. repeat split; apply Permutation_refl. Qed.

  Lemma shuffle_TRepr t t' T : TRepr t T -> shuffle t t' -> TRepr t' T.
  Proof.
    intros TR (Hd & Hc & Hp).
    exact (proj1 (cache_order_unobservable W t t' T 0 0 TR Hd Hc Hp)).
  Qed.

  (* one replica's execution: each operation as the code performs it, then any reordering of
     the hash map *)
  Inductive replica_run : table -> list top -> table -> Prop :=
  | rr_nil t : replica_run t [] t
  | rr_cons t o t1 t2 r t' :
      t_step veq W t o = Ok t1 -> shuffle t1 t2 -> replica_run t2 r t' ->
      replica_run t (o :: r) t'.

  (* the deterministic run of the model is one of them *)
  Lemma t_run_is_replica_run ops : forall t t',
    t_run veq W t ops = Ok t' -> replica_run t ops t'.
  Proof.
    induction ops as [|o r IH]; intros t t' Hr; cbn [t_run] in Hr.
    - injection Hr as <-. constructor.
    - destruct (t_step veq W t o) as [t1| |] eqn:Hs; cbn [rbind] in Hr; try discriminate.
      apply (rr_cons t o t1 t1 r t' Hs (shuffle_refl t1)). apply IH. exact Hr.
  Qed.

  Lemma replica_run_refines t ops t' :
    replica_run t ops t' ->
    forall T, TRepr t T -> run_in_window W T ops -> TRepr t' (fold_left ts_step ops T).
  Proof.
    induction 1 as [t|t o t1 t2 r t' Hs Hsh _ IH]; intros T TR Hw.
    - exact TR.
    - destruct Hw as [Hw1 Hw2]. cbn [fold_left]. apply IH; [|exact Hw2].
      apply (shuffle_TRepr t1); [|exact Hsh].
      apply (table_step_refines veq veq_spec W t T o t1 TR Hw1 Hs).
  Qed.

  (* every point read of a state is fixed by the specification state it represents *)
  Lemma latest_of_spec t T k :
    TRepr t T -> t_latest t k = Ok (ts_cur T k (ts_clk T)).
  Proof. intros TR. apply (TRepr_latest W t T k (ts_clk T) TR). apply N.le_refl. Qed.

  Theorem same_spec_same_reads t1 t2 T :
    TRepr t1 T -> TRepr t2 T ->
    (forall k, t_latest t1 k = t_latest t2 k) /\
    (forall lo hi, t_get_range t1 lo hi = t_get_range t2 lo hi).
  Proof.
    intros TR1 TR2.
    assert (Hl : forall k, t_latest t1 k = t_latest t2 k).
    { intros k. rewrite (latest_of_spec t1 T k TR1), (latest_of_spec t2 T k TR2). reflexivity. }
    split; [exact Hl|].
    intros lo hi. apply (get_range_determined_by_latest W t1 T t2 T lo hi TR1 TR2).
    intros k. unfold latest_or_none. rewrite Hl. reflexivity.
  Qed.

  (* replicas agree after ANY common history, whatever their hash-map orders along the way,
     and whichever of them keeps values in the cache or in the rows *)
  Theorem replicas_agree t1 t2 T ops t1' t2' :
    TRepr t1 T -> TRepr t2 T -> run_in_window W T ops ->
    replica_run t1 ops t1' -> replica_run t2 ops t2' ->
    (forall k, t_latest t1' k = t_latest t2' k) /\
    (forall lo hi, t_get_range t1' lo hi = t_get_range t2' lo hi).
  Proof.
    intros TR1 TR2 Hw R1 R2.
    apply (same_spec_same_reads t1' t2' (fold_left ts_step ops T)).
    - apply (replica_run_refines t1 ops t1' R1 T TR1 Hw).
    - apply (replica_run_refines t2 ops t2' R2 T TR2 Hw).
  Qed.

  (* ... and at every prefix of the history, not only at its end *)
  Theorem replicas_agree_at_every_prefix t1 t2 T ops1 ops2 t1' t2' :
    TRepr t1 T -> TRepr t2 T -> run_in_window W T (ops1 ++ ops2) ->
    replica_run t1 ops1 t1' -> replica_run t2 ops1 t2' ->
    (forall k, t_latest t1' k = t_latest t2' k) /\
    (forall lo hi, t_get_range t1' lo hi = t_get_range t2' lo hi).
  Proof.
    intros TR1 TR2 Hw. apply (replicas_agree t1 t2 T ops1 t1' t2' TR1 TR2).
    clear TR1 TR2. revert T Hw. induction ops1 as [|o r IH]; intros T Hw; cbn in *; [exact I|].
    destruct Hw as [H1 H2]. split; [exact H1|apply IH; exact H2].
  Qed.

  (* a restart at a clean boundary (the cache is dropped, [t_clear]) is invisible as well:
     the restarted replica represents the saved specification state, which on a clean
     boundary is the current one *)
  Theorem restarted_replica_agrees t T :
    TRepr t T -> (forall k m, ts_cur T k m = ts_sav T k m) -> ts_clk T = ts_sclk T ->
    (forall k, t_latest (t_clear t) k = t_latest t k) /\
    (forall lo hi, t_get_range (t_clear t) lo hi = t_get_range t lo hi).
  Proof.
    intros TR Hcs Hclk.
    pose proof (TRepr_clear W t T TR) as TRc. cbn [TableP.ts_step] in TRc.
    assert (Hl : forall k, t_latest (t_clear t) k = t_latest t k).
    { intros k. rewrite (latest_of_spec _ _ k TRc), (latest_of_spec _ _ k TR).
      cbn [ts_cur ts_clk]. rewrite Hcs, Hclk. reflexivity. }
    split; [exact Hl|].
    intros lo hi. apply (get_range_determined_by_latest W _ _ _ _ lo hi TRc TR).
    intros k. unfold latest_or_none. rewrite Hl. reflexivity.
  Qed.
End ReplicaP.
