(* Proofs about Model/ConfigDb.v (C20). *)
From Coq Require Import DecimalString DecimalN.
From Brc.Model Require Import Base Config ConfigDb.

Lemma N_str_inj : forall a b, N_str a = N_str b -> a = b.
Proof.
  intros a b H. unfold N_str in H.
  apply (f_equal NilEmpty.uint_of_string) in H. rewrite !NilEmpty.usu in H.
  inversion H as [H']. apply DecimalN.Unsigned.to_uint_inj. exact H'.
Qed.

Lemma bool_str_inj : forall a b, bool_str a = bool_str b -> a = b.
Proof. intros [|] [|]; cbn; intros H; try reflexivity; discriminate. Qed.

Lemma recorded_fresh : forall dbv pv c,
  recorded dbv pv c [] =
  [(KEY_DB_VERSION, N_str dbv); (KEY_PROTOCOL_VERSION, N_str pv);
   (KEY_NETWORK, cfg_network c); (KEY_TRACES, bool_str (cfg_record_traces c))].
Proof. reflexivity. Qed.

Lemma cfg_validate_ok : forall r k v, cfg_validate r k v = Ok tt <-> r_get r k = Some v.
Proof.
  intros r k v. unfold cfg_validate. destruct (r_get r k) as [x|].
  - destruct (String.eqb x v) eqn:E.
    + apply String.eqb_eq in E. subst. split; reflexivity.
    + split; [discriminate|]. intros H. inversion H. subst. rewrite String.eqb_refl in E. discriminate.
  - split; discriminate.
Qed.

Lemma cfg_validate_cases : forall r k v, cfg_validate r k v = Ok tt \/ cfg_validate r k v = Err.
Proof.
  intros. unfold cfg_validate. destruct (r_get r k) as [x|]; [destruct (String.eqb x v)|]; auto.
Qed.

Definition fresh (d : dirstate) : Prop := d = DAbsent \/ d = DDir false None.

(* a fresh run (path absent, or an empty directory) succeeds and records exactly the four rows *)
Lemma fresh_records : forall dbv pv c d, fresh d ->
  validate_config_database dbv pv c d =
  (Ok tt, DDir false (Some [(KEY_DB_VERSION, N_str dbv); (KEY_PROTOCOL_VERSION, N_str pv);
                            (KEY_NETWORK, cfg_network c); (KEY_TRACES, bool_str (cfg_record_traces c))])).
Proof. intros dbv pv c d [H|H]; subst; reflexivity. Qed.

Definition rows_of (cfg : option rows) : rows := match cfg with Some r => r | None => [] end.

(* a non-empty directory: succeeds iff all four rows are present and equal; never writes a row *)
Lemma reopen_iff_equal : forall dbv pv c other cfg,
  dir_nonempty other cfg = true ->
  (fst (validate_config_database dbv pv c (DDir other cfg)) = Ok tt <->
     r_get (rows_of cfg) KEY_DB_VERSION = Some (N_str dbv) /\
     r_get (rows_of cfg) KEY_PROTOCOL_VERSION = Some (N_str pv) /\
     r_get (rows_of cfg) KEY_NETWORK = Some (cfg_network c) /\
     r_get (rows_of cfg) KEY_TRACES = Some (bool_str (cfg_record_traces c))) /\
  (fst (validate_config_database dbv pv c (DDir other cfg)) = Ok tt \/
   fst (validate_config_database dbv pv c (DDir other cfg)) = Err) /\
  snd (validate_config_database dbv pv c (DDir other cfg)) = DDir other (Some (rows_of cfg)).
Proof.
  intros dbv pv c other cfg Hne.
  unfold validate_config_database. rewrite Hne. cbn [negb fst snd].
  fold (rows_of cfg).
  rewrite <- !cfg_validate_ok.
  destruct (cfg_validate_cases (rows_of cfg) KEY_DB_VERSION (N_str dbv)) as [H1|H1];
  destruct (cfg_validate_cases (rows_of cfg) KEY_PROTOCOL_VERSION (N_str pv)) as [H2|H2];
  destruct (cfg_validate_cases (rows_of cfg) KEY_NETWORK (cfg_network c)) as [H3|H3];
  destruct (cfg_validate_cases (rows_of cfg) KEY_TRACES (bool_str (cfg_record_traces c))) as [H4|H4];
  rewrite H1, ?H2, ?H3, ?H4; cbn [rbind];
  (split; [split; [intros H; try discriminate; auto | intros [A [B [C D]]]; try discriminate; reflexivity] | split; auto]).
Qed.

Lemma foreign_nonempty_fails : forall dbv pv c,
  validate_config_database dbv pv c (DDir true None) = (Err, DDir true (Some [])).
Proof. reflexivity. Qed.

(* created under (dbv, pv, c), reopened under (dbv', pv', c') -- whatever else is in the
   directory by then: succeeds iff the four settings are equal *)
Lemma create_then_reopen : forall dbv pv c dbv' pv' c' d other,
  fresh d ->
  let d1 := snd (validate_config_database dbv pv c d) in
  fst (validate_config_database dbv' pv' c' (DDir other (Some (dir_rows d1)))) = Ok tt <->
  (dbv' = dbv /\ pv' = pv /\ cfg_network c' = cfg_network c /\ cfg_record_traces c' = cfg_record_traces c).
Proof.
  intros dbv pv c dbv' pv' c' d other Hf. cbn zeta.
  rewrite (fresh_records dbv pv c d Hf). cbn [snd dir_rows].
  assert (Hne : dir_nonempty other (Some [(KEY_DB_VERSION, N_str dbv); (KEY_PROTOCOL_VERSION, N_str pv);
              (KEY_NETWORK, cfg_network c); (KEY_TRACES, bool_str (cfg_record_traces c))]) = true)
    by (unfold dir_nonempty; cbn [is_none negb]; apply orb_true_r).
  destruct (reopen_iff_equal dbv' pv' c' other _ Hne) as [Hiff _].
  rewrite Hiff. cbn [rows_of].
  change (r_get [(KEY_DB_VERSION, N_str dbv); (KEY_PROTOCOL_VERSION, N_str pv);
                 (KEY_NETWORK, cfg_network c); (KEY_TRACES, bool_str (cfg_record_traces c))] KEY_DB_VERSION)
    with (Some (N_str dbv)).
  change (r_get [(KEY_DB_VERSION, N_str dbv); (KEY_PROTOCOL_VERSION, N_str pv);
                 (KEY_NETWORK, cfg_network c); (KEY_TRACES, bool_str (cfg_record_traces c))] KEY_PROTOCOL_VERSION)
    with (Some (N_str pv)).
  change (r_get [(KEY_DB_VERSION, N_str dbv); (KEY_PROTOCOL_VERSION, N_str pv);
                 (KEY_NETWORK, cfg_network c); (KEY_TRACES, bool_str (cfg_record_traces c))] KEY_NETWORK)
    with (Some (cfg_network c)).
  change (r_get [(KEY_DB_VERSION, N_str dbv); (KEY_PROTOCOL_VERSION, N_str pv);
                 (KEY_NETWORK, cfg_network c); (KEY_TRACES, bool_str (cfg_record_traces c))] KEY_TRACES)
    with (Some (bool_str (cfg_record_traces c))).
  split.
  - intros [A [B [C D]]]. inversion A as [A']. inversion B as [B']. inversion C as [C']. inversion D as [D'].
    apply N_str_inj in A'. apply N_str_inj in B'. apply bool_str_inj in D'. auto.
  - intros [A [B [C D]]]. subst. rewrite C, D. auto.
Qed.

(* the same configuration always reopens, and validation leaves the directory as it was *)
Lemma same_config_reopens : forall dbv pv c d other,
  fresh d ->
  let r := dir_rows (snd (validate_config_database dbv pv c d)) in
  validate_config_database dbv pv c (DDir other (Some r)) = (Ok tt, DDir other (Some r)).
Proof.
  intros dbv pv c d other Hf. cbn zeta.
  pose proof (create_then_reopen dbv pv c dbv pv c d other Hf) as H. cbn zeta in H.
  assert (Hok : fst (validate_config_database dbv pv c
             (DDir other (Some (dir_rows (snd (validate_config_database dbv pv c d)))))) = Ok tt)
    by (apply H; auto).
  rewrite (fresh_records dbv pv c d Hf) in *. cbn [snd dir_rows] in *.
  set (r := [(KEY_DB_VERSION, N_str dbv); (KEY_PROTOCOL_VERSION, N_str pv);
             (KEY_NETWORK, cfg_network c); (KEY_TRACES, bool_str (cfg_record_traces c))]) in *.
  assert (Hne : dir_nonempty other (Some r) = true) by (unfold dir_nonempty; cbn [is_none negb]; apply orb_true_r).
  destruct (reopen_iff_equal dbv pv c other (Some r) Hne) as [_ [_ Hs]].
  cbn [rows_of] in Hs.
  apply injective_projections; cbn [fst snd]; [exact Hok | exact Hs].
Qed.

(* start() fails whenever validate_config_database does, and then the engine never opens *)
Lemma start_fails_if_config_db_fails : forall dbv pv c d,
  fst (validate_config_database dbv pv c d) <> Ok tt -> fst (start_model dbv pv c d) = false.
Proof.
  intros dbv pv c d H. unfold start_model.
  destruct (validate_config_database dbv pv c d) as [[[]| |] d']; cbn [fst] in *; try reflexivity.
  exfalso; apply H; reflexivity.
Qed.
