(* Proofs about the lock model (C11): the discipline implies deadlock freedom and
   termination; the checker decides the discipline; a re-entrant acquisition deadlocks. *)
From Brc.Model Require Import Base Locks.
From Coq Require Import Arith.
Arguments N.add : simpl never.
Arguments N.mul : simpl never.
Arguments N.ltb : simpl never.
Arguments N.eqb : simpl never.

(* ------------------------------------------------------------------------------------- *)
(* The discipline as a predicate.                                                         *)

Section Discipline.
Variable written : list N.
Variable order : N -> N.

Definition holdsP (held : list (N * mode)) (l : N) : Prop := In l (map fst held).

(* [disc held p]: program [p], started while holding [held], is disciplined. *)
Inductive disc : list (N * mode) -> prog -> Prop :=
| disc_nil : disc [] []
| disc_acq_written held l m q :
    In l written ->
    ~ holdsP held l ->
    (forall l', holdsP held l' -> In l' written -> order l' < order l) ->
    disc ((l, m) :: held) q ->
    disc held (Acq l m :: q)
| disc_acq_unwritten held l q :
    ~ In l written ->
    disc ((l, R) :: held) q ->
    disc held (Acq l R :: q)
| disc_rel held l q :
    holdsP held l ->
    disc (remove_one l held) q ->
    disc held (Rel l :: q).

Definition disciplined (p : prog) : Prop := disc [] p.

Lemma memN_In : forall l ls, memN l ls = true <-> In l ls.
Proof.
  intros l ls. unfold memN. rewrite existsb_exists. split.
  - intros [x [Hx He]]. apply N.eqb_eq in He. subst. exact Hx.
  - intros H. exists l. split; [exact H | apply N.eqb_refl].
Qed.

Lemma memN_false : forall l ls, memN l ls = false <-> ~ In l ls.
Proof.
  intros l ls. rewrite <- memN_In. destruct (memN l ls); split; intros; congruence.
Qed.

Lemma holdsb_holdsP : forall held l, holdsb held l = true <-> holdsP held l.
Proof.
  intros held l. unfold holdsb, holdsP. rewrite existsb_exists, in_map_iff. split.
  - intros [h [Hh He]]. apply N.eqb_eq in He. exists h. split; assumption.
  - intros [h [He Hh]]. exists h. split; [assumption | apply N.eqb_eq; assumption].
Qed.

Lemma holdsb_false : forall held l, holdsb held l = false <-> ~ holdsP held l.
Proof.
  intros held l. rewrite <- holdsb_holdsP. destruct (holdsb held l); split; intros; congruence.
Qed.

Lemma holds_wb_holdsb : forall held l, holds_wb held l = true -> holdsb held l = true.
Proof.
  intros held l. unfold holds_wb, holdsb. rewrite !existsb_exists.
  intros [h [Hh He]]. apply andb_prop in He. destruct He as [He _]. exists h. split; assumption.
Qed.

Lemma acq_ok_written : forall held l m,
  In l written ->
  (acq_ok written order held l m = true <->
   ~ holdsP held l /\ forall l', holdsP held l' -> In l' written -> order l' < order l).
Proof.
  intros held l m Hw. unfold acq_ok. apply memN_In in Hw. rewrite Hw.
  rewrite andb_true_iff, negb_true_iff, holdsb_false, forallb_forall. split.
  - intros [Hn Hf]. split; [exact Hn|]. intros l' Hh Hw'.
    unfold holdsP in Hh. apply in_map_iff in Hh. destruct Hh as [h [He Hh]]. subst l'.
    specialize (Hf h Hh). apply memN_In in Hw'. rewrite Hw' in Hf. cbn in Hf.
    apply N.ltb_lt in Hf. exact Hf.
  - intros [Hn Hf]. split; [exact Hn|]. intros h Hh.
    destruct (memN (fst h) written) eqn:E; cbn; [|reflexivity].
    apply N.ltb_lt. apply Hf; [|apply memN_In; exact E].
    unfold holdsP. apply in_map. exact Hh.
Qed.

Lemma acq_ok_unwritten : forall held l m,
  ~ In l written -> (acq_ok written order held l m = true <-> m = R).
Proof.
  intros held l m Hw. unfold acq_ok. apply memN_false in Hw. rewrite Hw.
  destruct m; cbn; split; intros; congruence.
Qed.

(* the checker decides the predicate *)
Lemma disc_from_sound : forall p held, disc_from written order held p = true -> disc held p.
Proof.
  induction p as [|i q IH]; intros held H; cbn in H.
  - destruct held; [constructor | discriminate].
  - destruct i as [l m | l].
    + apply andb_prop in H. destruct H as [Ha Hq].
      destruct (memN l written) eqn:E.
      * assert (Hw : In l written) by (apply memN_In; exact E).
        apply (acq_ok_written held l m Hw) in Ha. destruct Ha as [Hn Ho].
        apply disc_acq_written; auto.
      * assert (Hw : ~ In l written) by (apply memN_false; exact E).
        apply (acq_ok_unwritten held l m Hw) in Ha. subst m.
        apply disc_acq_unwritten; auto.
    + apply andb_prop in H. destruct H as [Hh Hq].
      apply disc_rel; [apply holdsb_holdsP; exact Hh | auto].
Qed.

Lemma disc_from_complete : forall held p, disc held p -> disc_from written order held p = true.
Proof.
  intros held p H. induction H; cbn.
  - reflexivity.
  - rewrite IHdisc, andb_true_r. apply acq_ok_written; auto.
  - rewrite IHdisc, andb_true_r. apply acq_ok_unwritten; auto.
  - rewrite IHdisc, andb_true_r. apply holdsb_holdsP; assumption.
Qed.

(* ------------------------------------------------------------------------------------- *)
(* Invariant of a thread of a configuration reached from disciplined programs.            *)

Definition tinv (t : thread) : Prop :=
  disc_from written order (t_held t) (t_prog t) = true /\
  forall h, In h (t_held t) -> is_W (snd h) = true -> In (fst h) written.

Definition cinv (c : config) : Prop := Forall tinv c.

Lemma tinv_init : forall p, disciplinedb written order p = true -> tinv (init_thread p).
Proof. intros p H. split; [exact H | intros h []]. Qed.

Lemma cinv_init : forall ps,
  (forall p, In p ps -> disciplinedb written order p = true) -> cinv (init ps).
Proof.
  intros ps H. unfold cinv, init. apply Forall_forall. intros t Ht.
  apply in_map_iff in Ht. destruct Ht as [p [<- Hp]]. apply tinv_init. auto.
Qed.

Lemma In_remove_one : forall l held h, In h (remove_one l held) -> In h held.
Proof.
  induction held as [|x xs IH]; cbn; intros h H; [exact H|].
  destruct (fst x =? l); [right; exact H|].
  destruct H as [H|H]; [left; exact H | right; auto].
Qed.

Lemma thread_step_inv : forall lib c t t',
  tinv t -> thread_step lib c t = Some t' -> tinv t'.
Proof.
  intros lib c t t' [Hd Hw] Hs. unfold thread_step in Hs.
  destruct t as [p held w]. cbn in *. destruct p as [|[l m|l] q]; [discriminate| |].
  - destruct (grantable lib c l m).
    + inversion Hs; subst; clear Hs. cbn in Hd. apply andb_prop in Hd. destruct Hd as [Ha Hq].
      split; cbn; [exact Hq|]. intros h [<-|Hh] HW; [|auto]. cbn in *.
      destruct (memN l written) eqn:E; [apply memN_In; exact E|].
      unfold acq_ok in Ha. rewrite E, HW in Ha. discriminate.
    + destruct w; [discriminate|]. inversion Hs; subst; clear Hs. split; cbn; auto.
  - inversion Hs; subst; clear Hs. cbn in Hd. apply andb_prop in Hd. destruct Hd as [_ Hq].
    split; cbn; [exact Hq|]. intros h Hh. apply Hw. eapply In_remove_one; eauto.
Qed.

Lemma Forall_set_nth : forall {A} (P : A -> Prop) i x xs,
  Forall P xs -> P x -> Forall P (set_nth i x xs).
Proof.
  intros A P i x xs. revert i. induction xs as [|y r IH]; intros i Hf Hx; cbn; [constructor|].
  inversion Hf; subst. destruct i; constructor; auto.
Qed.

Lemma step_gen_inv : forall lib c i c', cinv c -> step_gen lib c i = Some c' -> cinv c'.
Proof.
  intros lib c i c' Hc Hs. unfold step_gen in Hs.
  destruct (nth_error c i) as [t|] eqn:En; [|discriminate].
  destruct (thread_step lib c t) as [t'|] eqn:Et; [|discriminate].
  inversion Hs; subst. apply Forall_set_nth; [exact Hc|].
  eapply thread_step_inv; [|exact Et].
  unfold cinv in Hc. rewrite Forall_forall in Hc. apply Hc. eapply nth_error_In; eauto.
Qed.

(* reachability with any mixture of strict (writer-preferring) and liberal grants *)
Inductive reach (c0 : config) : config -> Prop :=
| reach_refl : reach c0 c0
| reach_step lib c i c' : reach c0 c -> step_gen lib c i = Some c' -> reach c0 c'.

Lemma reach_inv : forall c0 c, cinv c0 -> reach c0 c -> cinv c.
Proof. intros c0 c H0 Hr. induction Hr; [exact H0 | eapply step_gen_inv; eauto]. Qed.

Lemma run_reach : forall sched c c', run c sched = Some c' -> reach c c'.
Proof.
  assert (G : forall sched c0 c c', reach c0 c -> run c sched = Some c' -> reach c0 c').
  { induction sched as [|i s IH]; intros c0 c c' Hr H; cbn in H.
    - inversion H; subst; exact Hr.
    - destruct (step c i) as [c1|] eqn:E; [|discriminate].
      eapply IH; [|exact H]. eapply reach_step; [exact Hr | exact E]. }
  intros sched c c' H. eapply G; [apply reach_refl | exact H].
Qed.

(* ------------------------------------------------------------------------------------- *)
(* Progress: a configuration satisfying the invariant in which nobody can take a (strict)
   step has no unfinished thread.                                                         *)

Definition blocked (c : config) (t : thread) : Prop := thread_step false c t = None.

Definition req_lock (t : thread) : N :=
  match t_prog t with Acq l _ :: _ => l | _ => 0 end.

Definition unfinished (t : thread) : bool :=
  match t_prog t with [] => false | _ => true end.

(* a blocked, unfinished thread is queued on an acquisition that is not grantable *)
Lemma blocked_shape : forall c t,
  blocked c t -> unfinished t = true ->
  exists l m q, t_prog t = Acq l m :: q /\ grantable false c l m = false /\ t_wait t = true.
Proof.
  intros c t Hb Hu. unfold blocked, thread_step in Hb. unfold unfinished in Hu.
  destruct (t_prog t) as [|[l m|l] q]; [discriminate| |discriminate].
  exists l, m, q. destruct (grantable false c l m); [discriminate|].
  destruct (t_wait t); [auto|discriminate].
Qed.

Lemma held_any_ex : forall c l, held_any c l = true -> exists u, In u c /\ holdsb (t_held u) l = true.
Proof. intros c l H. unfold held_any in H. apply existsb_exists in H. exact H. Qed.

Lemma held_w_ex : forall c l, held_w c l = true ->
  exists u h, In u c /\ In h (t_held u) /\ fst h = l /\ is_W (snd h) = true.
Proof.
  intros c l H. unfold held_w in H. apply existsb_exists in H. destruct H as [u [Hu H]].
  unfold holds_wb in H. apply existsb_exists in H. destruct H as [h [Hh H]].
  apply andb_prop in H. destruct H as [He HW]. apply N.eqb_eq in He. exists u, h. auto.
Qed.

Lemma writer_queued_ex : forall c l, writer_queued c l = true ->
  exists u q, In u c /\ t_wait u = true /\ t_prog u = Acq l W :: q.
Proof.
  intros c l H. unfold writer_queued in H. apply existsb_exists in H. destruct H as [u [Hu H]].
  unfold queued_w, requests in H. apply andb_prop in H. destruct H as [Hw H].
  destruct (t_prog u) as [|[l' [|]|l'] q] eqn:E; try discriminate.
  apply N.eqb_eq in H. subst l'. exists u, q. auto.
Qed.

Lemma tinv_acq : forall t l m q, tinv t -> t_prog t = Acq l m :: q ->
  acq_ok written order (t_held t) l m = true.
Proof.
  intros t l m q [Hd _] E. rewrite E in Hd. cbn in Hd. apply andb_prop in Hd. tauto.
Qed.

(* A: a request that is not grantable is on a written lock *)
Lemma blocked_request_written : forall c t l m q,
  cinv c -> In t c -> t_prog t = Acq l m :: q -> grantable false c l m = false ->
  In l written.
Proof.
  intros c t l m q Hc Ht E Hg. unfold cinv in Hc. rewrite Forall_forall in Hc.
  destruct (memN l written) eqn:Ew; [apply memN_In; exact Ew|]. exfalso.
  assert (Hnw : ~ In l written) by (apply memN_false; exact Ew).
  pose proof (tinv_acq t l m q (Hc t Ht) E) as Ha.
  apply (acq_ok_unwritten _ _ _ Hnw) in Ha. subst m. cbn in Hg.
  apply andb_false_iff in Hg. destruct Hg as [Hg|Hg].
  - apply negb_false_iff in Hg. apply held_w_ex in Hg. destruct Hg as [u [h [Hu [Hh [He HW]]]]].
    apply Hnw. subst l. destruct (Hc u Hu) as [_ Hww]. apply Hww; assumption.
  - apply negb_false_iff in Hg. apply writer_queued_ex in Hg. destruct Hg as [u [q' [Hu [_ Eu]]]].
    pose proof (tinv_acq u l W q' (Hc u Hu) Eu) as Ha. unfold acq_ok in Ha. rewrite Ew in Ha.
    discriminate.
Qed.

(* B: a thread that holds a written lock and cannot step is queued on a larger lock *)
Lemma holder_requests_larger : forall c u l,
  cinv c -> In u c -> blocked c u -> holdsb (t_held u) l = true -> In l written ->
  exists l' m' q', t_prog u = Acq l' m' :: q' /\ order l < order l'.
Proof.
  intros c u l Hc Hu Hb Hh Hw.
  pose proof Hc as Hc'. unfold cinv in Hc'. rewrite Forall_forall in Hc'.
  assert (Hun : unfinished u = true).
  { unfold unfinished. destruct (t_prog u) eqn:E; [|reflexivity]. exfalso.
    destruct (Hc' u Hu) as [Hd _]. rewrite E in Hd. cbn in Hd.
    destruct (t_held u); [cbn in Hh; discriminate | discriminate]. }
  destruct (blocked_shape c u Hb Hun) as [l' [m' [q' [E [Hg _]]]]].
  exists l', m', q'. split; [exact E|].
  pose proof (blocked_request_written c u l' m' q' Hc Hu E Hg) as Hw'.
  pose proof (tinv_acq u l' m' q' (Hc' u Hu) E) as Ha.
  apply (acq_ok_written _ _ _ Hw') in Ha. destruct Ha as [_ Ho].
  apply Ho; [apply holdsb_holdsP; exact Hh | exact Hw].
Qed.

Lemma exists_max : forall {A} (f : A -> N) (xs : list A),
  xs <> [] -> exists x, In x xs /\ forall y, In y xs -> f y <= f x.
Proof.
  intros A f xs. induction xs as [|a r IH]; intros Hne; [congruence|].
  destruct r as [|b r'].
  - exists a. split; [left; reflexivity|]. intros y [<-|[]]. lia.
  - destruct IH as [x [Hx Hm]]; [discriminate|].
    destruct (N.leb_spec (f a) (f x)).
    + exists x. split; [right; exact Hx|]. intros y [<-|Hy]; [assumption | auto].
    + exists a. split; [left; reflexivity|]. intros y [<-|Hy]; [lia|]. specialize (Hm y Hy). lia.
Qed.

Lemma no_deadlock_threads : forall c,
  cinv c -> (forall t, In t c -> blocked c t) -> forall t, In t c -> unfinished t = false.
Proof.
  intros c Hc Hb t0 Ht0. destruct (unfinished t0) eqn:E0; [|reflexivity]. exfalso.
  set (U := filter unfinished c).
  assert (HU : U <> []).
  { intro HE. assert (In t0 U) by (apply filter_In; auto). rewrite HE in H. exact H. }
  destruct (exists_max (fun t => order (req_lock t)) U HU) as [ts [Hts Hmax]].
  apply filter_In in Hts. destruct Hts as [Hts Huts].
  destruct (blocked_shape c ts (Hb ts Hts) Huts) as [l [m [q [E [Hg Hwt]]]]].
  pose proof (blocked_request_written c ts l m q Hc Hts E Hg) as Hlw.
  (* somebody holds l *)
  assert (Hholder : exists u, In u c /\ holdsb (t_held u) l = true).
  { destruct m; cbn in Hg.
    - apply andb_false_iff in Hg. destruct Hg as [Hg|Hg]; apply negb_false_iff in Hg.
      + apply held_w_ex in Hg. destruct Hg as [u [h [Hu [Hh [He _]]]]]. exists u. split; [exact Hu|].
        apply holdsb_holdsP. unfold holdsP. subst l. apply in_map. exact Hh.
      + apply writer_queued_ex in Hg. destruct Hg as [u [q' [Hu [Hwu Eu]]]].
        assert (Huu : unfinished u = true) by (unfold unfinished; rewrite Eu; reflexivity).
        destruct (blocked_shape c u (Hb u Hu) Huu) as [l2 [m2 [q2 [E2 [Hg2 _]]]]].
        rewrite Eu in E2. inversion E2; subst. cbn in Hg2. apply negb_false_iff in Hg2.
        apply held_any_ex in Hg2. exact Hg2.
    - apply negb_false_iff in Hg. apply held_any_ex in Hg. exact Hg. }
  destruct Hholder as [u [Hu Hh]].
  destruct (holder_requests_larger c u l Hc Hu (Hb u Hu) Hh Hlw) as [l' [m' [q' [Eu Hlt]]]].
  assert (HuU : In u U).
  { apply filter_In. split; [exact Hu|]. unfold unfinished. rewrite Eu. reflexivity. }
  specialize (Hmax u HuU). cbn in Hmax. unfold req_lock in Hmax. rewrite Eu, E in Hmax. lia.
Qed.

Lemma finished_unfinished : forall c,
  finished c = true <-> forall t, In t c -> unfinished t = false.
Proof.
  intros c. unfold finished. rewrite forallb_forall. split; intros H t Ht; specialize (H t Ht);
    unfold unfinished in *; destruct (t_prog t); congruence.
Qed.

Lemma In_nth_error : forall {A} (x : A) xs, In x xs -> exists i, nth_error xs i = Some x.
Proof. intros A x xs H. apply In_nth_error in H. exact H. Qed.

Lemma step_none_blocked : forall c, (forall i, step c i = None) -> forall t, In t c -> blocked c t.
Proof.
  intros c H t Ht. destruct (In_nth_error t c Ht) as [i Hi]. specialize (H i).
  unfold step, step_gen in H. rewrite Hi in H. unfold blocked.
  destruct (thread_step false c t); [discriminate | reflexivity].
Qed.

Lemma all_blocked_steps : forall c, all_blocked c = true <-> forall i, step c i = None.
Proof.
  intros c. unfold all_blocked. rewrite forallb_forall. split.
  - intros H i. destruct (lt_dec i (length c)) as [Hl|Hl].
    + specialize (H i). rewrite in_seq in H. unfold enabled in H.
      destruct (step c i); [|reflexivity]. assert (negb true = true) by (apply H; lia). discriminate.
    + unfold step, step_gen. assert (E : nth_error c i = None) by (apply nth_error_None; lia).
      rewrite E. reflexivity.
  - intros H i _. unfold enabled. rewrite H. reflexivity.
Qed.

(* no reachable configuration is a deadlock; in fact: *)
Lemma progress : forall c,
  cinv c -> finished c = true \/ exists i c', step c i = Some c'.
Proof.
  intros c Hc. destruct (all_blocked c) eqn:E.
  - left. apply finished_unfinished. apply no_deadlock_threads; [exact Hc|].
    apply step_none_blocked. apply all_blocked_steps. exact E.
  - right. unfold all_blocked in E.
    assert (exists i, In i (seq 0 (length c)) /\ negb (enabled c i) = false) as [i [_ Hi]].
    { clear Hc. induction (seq 0 (length c)) as [|a r IH]; cbn in E; [discriminate|].
      destruct (negb (enabled c a)) eqn:Ea.
      - cbn in E. destruct (IH E) as [i [Hi1 Hi2]]. exists i. split; [right; exact Hi1 | exact Hi2].
      - exists a. split; [left; reflexivity | exact Ea]. }
    apply negb_false_iff in Hi. unfold enabled in Hi. destruct (step c i) as [c'|] eqn:Es; [|discriminate].
    exists i, c'. exact Es.
Qed.

Lemma maximal_finished : forall c, cinv c -> (forall i, step c i = None) -> finished c = true.
Proof.
  intros c Hc Hn. destruct (progress c Hc) as [H|[i [c' H]]]; [exact H|]. rewrite Hn in H. discriminate.
Qed.

Lemma not_deadlocked : forall c, cinv c -> deadlocked c = false.
Proof.
  intros c Hc. unfold deadlocked. destruct (progress c Hc) as [H|[i [c' H]]].
  - rewrite H. reflexivity.
  - destruct (all_blocked c) eqn:E; [|apply andb_false_r].
    rewrite all_blocked_steps in E. rewrite E in H. discriminate.
Qed.

End Discipline.

(* ------------------------------------------------------------------------------------- *)
(* Termination: every step strictly decreases a measure, whatever the grant policy.       *)

Definition tweight (t : thread) : nat := 2 * length (t_prog t) + (if t_wait t then 0 else 1).
Definition cweight (c : config) : nat := fold_right (fun t acc => tweight t + acc)%nat 0%nat c.
Definition schedule_bound (ps : list prog) : nat := cweight (init ps).

Lemma thread_step_weight : forall lib c t t',
  thread_step lib c t = Some t' -> (tweight t' < tweight t)%nat.
Proof.
  intros lib c [p held w] t' H. unfold thread_step in H. cbn in H.
  destruct p as [|[l m|l] q]; [discriminate| |].
  - destruct (grantable lib c l m).
    + inversion H; subst. unfold tweight; cbn. destruct w; lia.
    + destruct w; [discriminate|]. inversion H; subst. unfold tweight; cbn. lia.
  - inversion H; subst. unfold tweight; cbn. destruct w; lia.
Qed.

Lemma cweight_set_nth : forall i t t' c,
  nth_error c i = Some t -> (cweight (set_nth i t' c) + tweight t = cweight c + tweight t')%nat.
Proof.
  intros i t t' c. revert i. unfold cweight. induction c as [|x r IH]; intros i H.
  - destruct i; discriminate.
  - destruct i; cbn [nth_error] in H.
    + inversion H; subst. cbn [set_nth fold_right]. lia.
    + cbn [set_nth fold_right]. specialize (IH i H). lia.
Qed.

Lemma step_gen_weight : forall lib c i c', step_gen lib c i = Some c' -> (cweight c' < cweight c)%nat.
Proof.
  intros lib c i c' H. unfold step_gen in H.
  destruct (nth_error c i) as [t|] eqn:En; [|discriminate].
  destruct (thread_step lib c t) as [t'|] eqn:Et; [|discriminate].
  inversion H; subst. pose proof (cweight_set_nth i t t' c En). pose proof (thread_step_weight _ _ _ _ Et). lia.
Qed.

Lemma run_weight : forall sched c c', run c sched = Some c' -> (length sched + cweight c' <= cweight c)%nat.
Proof.
  induction sched as [|i s IH]; intros c c' H; cbn in H.
  - inversion H; subst. cbn. lia.
  - destruct (step c i) as [c1|] eqn:E; [|discriminate].
    specialize (IH c1 c' H). apply step_gen_weight in E. cbn. lia.
Qed.

(* no infinite schedule *)
Lemma no_infinite_schedule : forall (f : nat -> config) (g : nat -> nat * bool),
  ~ (forall n, step_gen (snd (g n)) (f n) (fst (g n)) = Some (f (S n))).
Proof.
  intros f g H.
  assert (G : forall n, (n + cweight (f n) <= cweight (f 0%nat))%nat).
  { induction n; [lia|]. specialize (H n). apply step_gen_weight in H. lia. }
  specialize (G (S (cweight (f 0%nat)))). lia.
Qed.

(* ------------------------------------------------------------------------------------- *)
(* The deadlock witness.                                                                   *)

Lemma step0_pair : forall t u t',
  thread_step false [t; u] t = Some t' -> step [t; u] 0 = Some [t'; u].
Proof. intros t u t' H. unfold step, step_gen. cbn [nth_error]. rewrite H. reflexivity. Qed.

Lemma step1_pair : forall t u u',
  thread_step false [t; u] u = Some u' -> step [t; u] 1 = Some [t; u'].
Proof. intros t u u' H. unfold step, step_gen. cbn [nth_error]. rewrite H. reflexivity. Qed.

Lemma run_app : forall s1 s2 c c1, run c s1 = Some c1 -> run c (s1 ++ s2) = run c1 s2.
Proof.
  induction s1 as [|i s IH]; intros s2 c c1 H; cbn in *.
  - inversion H; reflexivity.
  - destruct (step c i); [auto | discriminate].
Qed.

Lemma held_any_pair : forall t u l,
  held_any [t; u] l = holdsb (t_held t) l || holdsb (t_held u) l.
Proof. intros. unfold held_any. cbn [existsb]. rewrite orb_false_r. reflexivity. Qed.

Lemma held_w_pair : forall t u l,
  held_w [t; u] l = holds_wb (t_held t) l || holds_wb (t_held u) l.
Proof. intros. unfold held_w. cbn [existsb]. rewrite orb_false_r. reflexivity. Qed.

Lemma writer_queued_pair : forall t u l,
  writer_queued [t; u] l = queued_w t l || queued_w u l.
Proof. intros. unfold writer_queued. cbn [existsb]. rewrite orb_false_r. reflexivity. Qed.

Lemma queued_w_nowait : forall t l, t_wait t = false -> queued_w t l = false.
Proof. intros t l H. unfold queued_w. rewrite H. reflexivity. Qed.

Lemma holds_wb_nil : forall l, holds_wb [] l = false. Proof. reflexivity. Qed.
Lemma holdsb_nil : forall l, holdsb [] l = false. Proof. reflexivity. Qed.

Lemma queued_w_writer : forall l, queued_w (mkT (writer_of l) [] true) l = true.
Proof. intros l. unfold queued_w, requests, writer_of. cbn [t_wait t_prog]. rewrite N.eqb_refl. reflexivity. Qed.

(* thread 0 runs alone up to its first re-entrant request; the other thread has not started *)
Lemma solo_prefix : forall p held k0 k l B,
  t_held B = [] -> t_wait B = false ->
  first_reentry held p k0 = Some (k, l) ->
  exists n held' m q,
    k = (k0 + n)%nat /\
    run [mkT p held false; B] (repeat 0%nat n) = Some [mkT (Acq l m :: q) held' false; B] /\
    holdsb held' l = true.
Proof.
  induction p as [|i p IH]; intros held k0 k l B HB1 HB2 H; cbn [first_reentry] in H; [discriminate|].
  destruct i as [l1 m1|l1].
  - destruct (holdsb held l1) eqn:Eh.
    + inversion H; subst. exists 0%nat, held, m1, p. split; [lia|]. split; [reflexivity | exact Eh].
    + destruct (IH ((l1, m1) :: held) (S k0) k l B HB1 HB2 H) as [n [held' [m [q [Hk [Hr Hh]]]]]].
      exists (S n), held', m, q. split; [lia|]. split; [|exact Hh].
      cbn [repeat run].
      assert (Hg : grantable false [mkT (Acq l1 m1 :: p) held false; B] l1 m1 = true).
      { unfold grantable. destruct m1.
        - rewrite held_w_pair, writer_queued_pair. cbn [t_held]. rewrite HB1, holds_wb_nil.
          rewrite (queued_w_nowait _ _ HB2), queued_w_nowait by reflexivity.
          destruct (holds_wb held l1) eqn:Ew; [apply holds_wb_holdsb in Ew; congruence | reflexivity].
        - rewrite held_any_pair. cbn [t_held]. rewrite HB1, Eh. reflexivity. }
      erewrite step0_pair; [exact Hr|]. unfold thread_step. cbn [t_prog t_held t_wait]. rewrite Hg. reflexivity.
  - destruct (IH (remove_one l1 held) (S k0) k l B HB1 HB2 H) as [n [held' [m [q [Hk [Hr Hh]]]]]].
    exists (S n), held', m, q. split; [lia|]. split; [|exact Hh].
    cbn [repeat run]. erewrite step0_pair; [exact Hr|]. reflexivity.
Qed.

Lemma witness_deadlock : forall p c s,
  witness p = Some (c, s) -> exists c', run c s = Some c' /\ deadlocked c' = true.
Proof.
  intros p c s H. unfold witness in H.
  destruct (first_reentry [] p 0) as [[k l]|] eqn:E; [|discriminate].
  inversion H; subst; clear H.
  set (B := init_thread (writer_of l)).
  destruct (solo_prefix p [] 0%nat k l B eq_refl eq_refl E) as [n [held' [m [q [Hk [Hr Hh]]]]]].
  cbn in Hk. subst n. unfold init. cbn [map]. fold B. unfold init_thread at 1.
  set (A := mkT (Acq l m :: q) held' false) in *.
  set (B' := mkT (writer_of l) [] true).
  set (A' := mkT (Acq l m :: q) held' true).
  assert (HgB : forall X, t_held X = held' -> grantable false [X; B'] l W = false).
  { intros X HX. unfold grantable. rewrite held_any_pair, HX, Hh. reflexivity. }
  assert (HgA : forall X, t_held X = held' -> grantable false [X; B'] l m = false).
  { intros X HX. destruct m; [|apply HgB; exact HX]. unfold grantable.
    rewrite writer_queued_pair. unfold B' at 2. rewrite queued_w_writer, orb_true_r. apply andb_false_r. }
  exists [A'; B']. split.
  - rewrite (run_app _ _ _ _ Hr). cbn [run].
    assert (S1 : step [A; B] 1 = Some [A; B']).
    { apply step1_pair. unfold thread_step, B, init_thread, writer_of. cbn [t_prog t_held t_wait].
      unfold grantable. rewrite held_any_pair. cbn [t_held A]. rewrite Hh. reflexivity. }
    rewrite S1.
    assert (S2 : step [A; B'] 0 = Some [A'; B']).
    { apply step0_pair. unfold thread_step. cbn [A t_prog t_held t_wait].
      fold A. rewrite (HgA A eq_refl). reflexivity. }
    rewrite S2. reflexivity.
  - unfold deadlocked. cbn [finished forallb A' t_prog negb andb].
    unfold all_blocked. cbn [length seq forallb]. unfold enabled, step, step_gen. cbn [nth_error].
    unfold thread_step. cbn [A' B' t_prog t_held t_wait writer_of].
    fold A'. fold (writer_of l). fold B'.
    rewrite (HgA A' eq_refl), (HgB A' eq_refl). reflexivity.
Qed.

(* ------------------------------------------------------------------------------------- *)
(* The statements used by Props/C11.v.                                                    *)

Lemma disciplinedb_iff : forall written order p,
  disciplinedb written order p = true <-> disciplined written order p.
Proof.
  intros. unfold disciplinedb, disciplined. split;
    [apply disc_from_sound | apply disc_from_complete].
Qed.

Lemma cinv_threads : forall written order threads,
  (forall p, In p threads -> disciplined written order p) -> cinv written order (init threads).
Proof.
  intros written order threads H. apply cinv_init. intros p Hp. apply disciplinedb_iff. auto.
Qed.

(* strict (writer-preferring) schedules *)
Lemma disciplined_run : forall written order threads,
  (forall p, In p threads -> disciplined written order p) ->
  forall sched c, run (init threads) sched = Some c ->
    (finished c = true \/ exists i c', step c i = Some c')
    /\ (length sched <= schedule_bound threads)%nat
    /\ ((forall i, step c i = None) -> finished c = true)
    /\ deadlocked c = false.
Proof.
  intros written order threads H sched c Hr.
  assert (Hc : cinv written order c).
  { eapply reach_inv; [apply cinv_threads; exact H | eapply run_reach; exact Hr]. }
  split; [eapply progress; exact Hc|].
  split; [apply run_weight in Hr; unfold schedule_bound; lia|].
  split; [apply maximal_finished with (written := written) (order := order); exact Hc|].
  eapply not_deadlocked; exact Hc.
Qed.

(* any mixture of strict and liberal grants *)
Lemma disciplined_reach : forall written order threads,
  (forall p, In p threads -> disciplined written order p) ->
  forall c, reach (init threads) c ->
    (finished c = true \/ exists i c', step c i = Some c') /\ deadlocked c = false.
Proof.
  intros written order threads H c Hr.
  assert (Hc : cinv written order c) by (eapply reach_inv; [apply cinv_threads; exact H | exact Hr]).
  split; [eapply progress; exact Hc | eapply not_deadlocked; exact Hc].
Qed.
