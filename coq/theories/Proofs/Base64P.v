(* Proofs about Model/Base64.v. *)
From Coq Require Import ZArith.
From Brc.Model Require Import Base Base64.
Ltac Zify.zify_post_hook ::= Z.to_euclidean_division_equations.

Arguments N.add : simpl never.
Arguments N.sub : simpl never.
Arguments N.mul : simpl never.
Arguments N.div : simpl never.
Arguments N.modulo : simpl never.
Arguments N.ltb : simpl never.
Arguments N.leb : simpl never.
Arguments N.eqb : simpl never.

Definition byte (b : N) : Prop := b < 256.
Definition bytes (l : list N) : Prop := Forall byte l.

Lemma len_nil {A} : len (@nil A) = 0. Proof. reflexivity. Qed.
Lemma len_cons {A} (a : A) l : len (a :: l) = len l + 1.
Proof. unfold len. cbn [length]. lia. Qed.
Lemma len_app {A} (a b : list A) : len (a ++ b) = len a + len b.
Proof. unfold len. rewrite app_length. lia. Qed.

Lemma list_ind3 {A} (P : list A -> Prop) :
  P [] -> (forall a, P [a]) -> (forall a b, P [a; b]) ->
  (forall a b c r, P r -> P (a :: b :: c :: r)) -> forall l, P l.
Proof.
  intros H0 H1 H2 H3. fix IH 1. intros [|a [|b [|c r]]].
  - exact H0.
  - apply H1.
  - apply H2.
  - apply H3, IH.
Qed.

(* finite sweeps over the 64 digits / the symbols below 123 *)
Definition digits : list N := map N.of_nat (seq 0 64).
Lemma in_digits v : v < 64 -> In v digits.
Proof.
  intros H. unfold digits. rewrite <- (N2Nat.id v). apply in_map, in_seq. lia.
Qed.

Lemma b64_val_chr v : v < 64 -> b64_val (b64_chr v) = Some v.
Proof.
  intros H.
  assert (S : forallb (fun v => opt_eqb N.eqb (b64_val (b64_chr v)) (Some v)) digits = true)
    by (vm_compute; reflexivity).
  rewrite forallb_forall in S. specialize (S v (in_digits v H)).
  destruct (b64_val (b64_chr v)); cbn [opt_eqb] in S; try discriminate.
  apply N.eqb_eq in S. now subst.
Qed.

Lemma b64_chr_not_eq v : v < 64 -> b64_chr v <> 61.
Proof.
  intros H.
  assert (S : forallb (fun v => negb (b64_chr v =? 61)) digits = true) by (vm_compute; reflexivity).
  rewrite forallb_forall in S. specialize (S v (in_digits v H)).
  intros E. rewrite E in S. discriminate.
Qed.

Lemma b64_val_lt c v : b64_val c = Some v -> v < 64.
Proof.
  unfold b64_val. intros H.
  repeat match type of H with
  | (if ?b then _ else _) = _ => destruct b eqn:?
  end; inversion H; subst; clear H;
  repeat match goal with
  | H : (_ && _)%bool = true |- _ => apply andb_true_iff in H; destruct H
  | H : (_ <=? _) = true |- _ => apply N.leb_le in H
  end; lia.
Qed.

Definition symbols : list N := map N.of_nat (seq 0 123).
Lemma b64_chr_val c v : b64_val c = Some v -> b64_chr v = c.
Proof.
  intros H.
  assert (L : c < 123).
  { unfold b64_val in H.
    repeat match type of H with
    | (if ?b then _ else _) = _ => destruct b eqn:?
    end; try discriminate;
    repeat match goal with
    | H : (_ && _)%bool = true |- _ => apply andb_true_iff in H; destruct H
    | H : (_ <=? _) = true |- _ => apply N.leb_le in H
    | H : (_ =? _) = true |- _ => apply N.eqb_eq in H
    end; lia. }
  assert (S : forallb (fun c => match b64_val c with Some v => b64_chr v =? c | None => true end) symbols = true)
    by (vm_compute; reflexivity).
  rewrite forallb_forall in S.
  assert (I : In c symbols).
  { unfold symbols. rewrite <- (N2Nat.id c). apply in_map, in_seq. lia. }
  specialize (S c I). rewrite H in S. now apply N.eqb_eq in S.
Qed.

(* ---- round trip ---- *)
Theorem b64_roundtrip : forall x, bytes x -> b64_decode (b64_encode x) = Some x.
Proof.
  induction x as [|a|a b|a b c r IH] using list_ind3; intros Hb.
  - reflexivity.
  - inversion Hb as [|? ? Ha _]; subst. unfold byte in Ha.
    cbn [b64_encode b64_decode].
    rewrite !b64_val_chr by lia.
    replace ((a mod 4 * 16) mod 16 =? 0) with true by (symmetry; apply N.eqb_eq; lia).
    f_equal. f_equal. lia.
  - inversion Hb as [|? ? Ha Hb']; subst. inversion Hb' as [|? ? Hb2 _]; subst.
    unfold byte in *. cbn [b64_encode b64_decode].
    rewrite !b64_val_chr by lia.
    replace ((b mod 16 * 4) mod 4 =? 0) with true by (symmetry; apply N.eqb_eq; lia).
    f_equal. f_equal; [lia|]. f_equal. lia.
  - inversion Hb as [|? ? Ha Hb1]; subst. inversion Hb1 as [|? ? Hb2 Hb3]; subst.
    inversion Hb3 as [|? ? Hc Hr]; subst. unfold byte in *.
    cbn [b64_encode]. cbn [b64_decode].
    rewrite !b64_val_chr by lia.
    rewrite (IH Hr).
    f_equal. f_equal; [lia|]. f_equal; [lia|]. f_equal. lia.
Qed.

(* the encoder never produces '=' *)
Lemma b64_encode_no_eq : forall x, bytes x -> ~ In 61 (b64_encode x).
Proof.
  induction x as [|a|a b|a b c r IH] using list_ind3; intros Hb.
  - cbn. tauto.
  - inversion Hb as [|? ? Ha _]; subst. unfold byte in Ha. cbn [b64_encode In].
    intros [E|[E|[]]]; revert E; apply b64_chr_not_eq; lia.
  - inversion Hb as [|? ? Ha Hb']; subst. inversion Hb' as [|? ? Hb2 _]; subst.
    unfold byte in *. cbn [b64_encode In].
    intros [E|[E|[E|[]]]]; revert E; apply b64_chr_not_eq; lia.
  - inversion Hb as [|? ? Ha Hb1]; subst. inversion Hb1 as [|? ? Hb2 Hb3]; subst.
    inversion Hb3 as [|? ? Hc Hr]; subst. unfold byte in *. cbn [b64_encode In].
    intros [E|[E|[E|[E|E]]]]; try (revert E; apply b64_chr_not_eq; lia).
    now apply IH.
Qed.

(* decoding yields bytes, and is canonical: the only string that decodes to x is the encoding
   of x (non-canonical trailing bits are rejected), so decoding is injective *)
Lemma list_ind4 {A} (P : list A -> Prop) :
  P [] -> (forall a, P [a]) -> (forall a b, P [a; b]) -> (forall a b c, P [a; b; c]) ->
  (forall a b c d r, P r -> P (a :: b :: c :: d :: r)) -> forall l, P l.
Proof.
  intros H0 H1 H2 H3 H4. fix IH 1. intros [|a [|b [|c [|d r]]]].
  - exact H0.
  - apply H1.
  - apply H2.
  - apply H3.
  - apply H4, IH.
Qed.

Theorem b64_decode_canonical : forall s x, b64_decode s = Some x -> bytes x /\ b64_encode x = s.
Proof.
  induction s as [|a|a b|a b c|a b c d r IH] using list_ind4; intros x H.
  - inversion H. split; [constructor|reflexivity].
  - discriminate.
  - cbn [b64_decode] in H.
    destruct (b64_val a) as [v1|] eqn:E1; try discriminate.
    destruct (b64_val b) as [v2|] eqn:E2; try discriminate.
    destruct (v2 mod 16 =? 0) eqn:T; try discriminate. apply N.eqb_eq in T.
    inversion H; subst; clear H.
    pose proof (b64_val_lt _ _ E1). pose proof (b64_val_lt _ _ E2).
    split. { repeat constructor. unfold byte. lia. }
    cbn [b64_encode].
    replace ((v1 * 4 + v2 / 16) / 4) with v1 by lia.
    replace ((v1 * 4 + v2 / 16) mod 4 * 16) with v2 by lia.
    now rewrite (b64_chr_val _ _ E1), (b64_chr_val _ _ E2).
  - cbn [b64_decode] in H.
    destruct (b64_val a) as [v1|] eqn:E1; try discriminate.
    destruct (b64_val b) as [v2|] eqn:E2; try discriminate.
    destruct (b64_val c) as [v3|] eqn:E3; try discriminate.
    destruct (v3 mod 4 =? 0) eqn:T; try discriminate. apply N.eqb_eq in T.
    inversion H; subst; clear H.
    pose proof (b64_val_lt _ _ E1). pose proof (b64_val_lt _ _ E2). pose proof (b64_val_lt _ _ E3).
    split. { repeat constructor; unfold byte; lia. }
    cbn [b64_encode].
    replace ((v1 * 4 + v2 / 16) / 4) with v1 by lia.
    replace ((v1 * 4 + v2 / 16) mod 4 * 16 + (v2 mod 16 * 16 + v3 / 4) / 16) with v2 by lia.
    replace ((v2 mod 16 * 16 + v3 / 4) mod 16 * 4) with v3 by lia.
    now rewrite (b64_chr_val _ _ E1), (b64_chr_val _ _ E2), (b64_chr_val _ _ E3).
  - cbn [b64_decode] in H.
    destruct (b64_val a) as [v1|] eqn:E1; try discriminate.
    destruct (b64_val b) as [v2|] eqn:E2; try discriminate.
    destruct (b64_val c) as [v3|] eqn:E3; try discriminate.
    destruct (b64_val d) as [v4|] eqn:E4; try discriminate.
    destruct (b64_decode r) as [t|] eqn:Er; try discriminate.
    inversion H; subst; clear H.
    destruct (IH t eq_refl) as [Bt Et].
    pose proof (b64_val_lt _ _ E1). pose proof (b64_val_lt _ _ E2).
    pose proof (b64_val_lt _ _ E3). pose proof (b64_val_lt _ _ E4).
    split. { repeat constructor; try (unfold byte; lia). exact Bt. }
    cbn [b64_encode].
    replace ((v1 * 4 + v2 / 16) / 4) with v1 by lia.
    replace ((v1 * 4 + v2 / 16) mod 4 * 16 + (v2 mod 16 * 16 + v3 / 4) / 16) with v2 by lia.
    replace ((v2 mod 16 * 16 + v3 / 4) mod 16 * 4 + (v3 mod 4 * 64 + v4) / 64) with v3 by lia.
    replace ((v3 mod 4 * 64 + v4) mod 64) with v4 by lia.
    now rewrite (b64_chr_val _ _ E1), (b64_chr_val _ _ E2), (b64_chr_val _ _ E3), (b64_chr_val _ _ E4), Et.
Qed.

(* what the engine accepts, by length: never a string of length 4k+1 *)
Lemma b64_decode_len1 : forall s x, b64_decode s = Some x -> len s mod 4 <> 1.
Proof.
  induction s as [|a|a b|a b c|a b c d r IH] using list_ind4; intros x H.
  - cbn. lia.
  - discriminate.
  - cbn. lia.
  - cbn. lia.
  - cbn [b64_decode] in H.
    destruct (b64_val a), (b64_val b), (b64_val c), (b64_val d); try discriminate.
    destruct (b64_decode r) as [t|] eqn:Er; try discriminate.
    specialize (IH t eq_refl). rewrite !len_cons. lia.
Qed.
