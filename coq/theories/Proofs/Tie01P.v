(* What an ACCEPTED store-trace case means (C01, C03, C04, C05).  [Tie01.s_check] answers 0
   when the recorded store operations of the real engine replay on the model without error,
   every refused operation is refused by the model, every probe agrees, and the trace is
   well-formed.  This file proves that verdict 0 delivers exactly the two hypotheses of
   [C01_store_trace_invariant] for the recorded operations - so for every accepted case the
   store invariant SInv holds of the model store the probes were compared with. *)
From Brc.Model Require Import Base History Table BlockTable Store Tie01.
From Brc.Proofs Require Import HistoryP KvP TableP BlockTableP StoreP.

Definition ops_of (items : list titem) : list sop :=
  flat_map (fun it => match it with IOp o => [o] | _ => [] end) items.

Theorem s_check_accepts W : forall items s st,
  s_check W s (Some st) items = 0 ->
  exists s' st', sto_run W s (ops_of items) = Ok s' /\ wf_run W st (ops_of items) = Some st'.
Proof.
  induction items as [|it r IH]; intros s st Hc.
  - exists s, st. split; reflexivity.
  - destruct it as [o|o|keys vals rngs rvals bkeys hs bs rs height next maxb];
      cbn [s_check] in Hc; unfold ops_of; cbn [flat_map app]; fold (ops_of r).
    + cbn [sto_run wf_run]. destruct (sto_step W s o) as [s1| |]; try discriminate.
      destruct (wf_step W st o) as [st1|].
      * destruct (IH s1 st1 Hc) as (s' & st' & H1 & H2). exists s', st'. split; assumption.
      * exfalso. clear IH. revert s1 Hc. induction r as [|it2 r2 IH2]; intros s1 Hc; cbn [s_check] in Hc; [discriminate|].
        destruct it2 as [o2|o2|k v rg rv bk h b rr hh nn mm]; cbn [s_check] in Hc.
        -- destruct (sto_step W s1 o2) as [s2| |]; try discriminate. exact (IH2 s2 Hc).
        -- destruct (sto_step W s1 o2) as [s2| |]; try discriminate. exact (IH2 s1 Hc).
        -- destruct (probe_ok s1 _); [exact (IH2 s1 Hc)|discriminate].
    + destruct (sto_step W s o) as [s1| |]; try discriminate. exact (IH s st Hc).
    + destruct (probe_ok s _); [exact (IH s st Hc)|discriminate].
Qed.

(* for a whole case: the invariant of the C01/C03 theorems holds of the replayed store *)
Theorem accepted_case_invariant W items :
  s_check W st_empty (Some wf_init) items = 0 ->
  exists s' st', sto_run W st_empty (ops_of items) = Ok s' /\
                 wf_run W wf_init (ops_of items) = Some st' /\
                 SInv W s' (fs_run fs_init (ops_of items)) st'.
Proof.
  intros Hc. destruct (s_check_accepts W items st_empty wf_init Hc) as (s' & st' & H1 & H2).
  exists s', st'. split; [exact H1|]. split; [exact H2|].
  exact (store_run_inv W (ops_of items) st_empty fs_init wf_init s' st' (SInv_init W) H2 H1).
Qed.
