(* Proofs about Model/Auth.v (C12). *)
From Coq Require Import Ascii.
From Brc.Model Require Import Base Config Auth.

Arguments N.add : simpl never.
Arguments N.leb : simpl never.
Arguments N.ltb : simpl never.

(* ---- small facts ------------------------------------------------------------------------ *)

Lemma in_deny_In : forall deny m, in_deny deny m = true <-> In m deny.
Proof.
  intros deny m. unfold in_deny. rewrite existsb_exists. split.
  - intros [x [Hx He]]. apply String.eqb_eq in He. subst. exact Hx.
  - intros H. exists m. split; [exact H | apply String.eqb_refl].
Qed.

Lemma in_deny_false : forall deny m, in_deny deny m = false <-> ~ In m deny.
Proof.
  intros deny m. rewrite <- in_deny_In. destruct (in_deny deny m); split; intros; congruence.
Qed.

Lemma opt_eqb_string_eq : forall a b : option string, opt_eqb String.eqb a b = true <-> a = b.
Proof.
  intros [a|] [b|]; cbn; split; intros H; try congruence; try reflexivity.
  - apply String.eqb_eq in H. congruence.
  - inversion H. apply String.eqb_refl.
Qed.

(* ---- HTTP layer ------------------------------------------------------------------------- *)

Lemma authorized_new_iff : forall b64 u p hdr,
  authorized (auth_new b64 u p) hdr = true <-> hdr = Some (basic_header b64 u p).
Proof.
  intros. unfold authorized, auth_new. cbn [ha_allow_all ha_header orb].
  apply opt_eqb_string_eq.
Qed.

Lemma authorized_allow : forall hdr, authorized auth_allow hdr = true.
Proof. reflexivity. Qed.

Lemma to_str_invisible : forall raw b, In b raw -> visible_ascii b = false -> to_str raw = None.
Proof.
  intros raw b Hin Hv. unfold to_str.
  destruct (forallb visible_ascii raw) eqn:E; [|reflexivity].
  rewrite forallb_forall in E. rewrite (E b Hin) in Hv. discriminate.
Qed.

Lemma make_auth_disabled : forall b64 c, cfg_enable_auth c = false -> make_auth b64 c = Ok auth_allow.
Proof. intros b64 c H. unfold make_auth. rewrite H. reflexivity. Qed.

Lemma make_auth_enabled : forall b64 c a, cfg_enable_auth c = true -> make_auth b64 c = Ok a ->
  exists u p, cfg_user c = Some u /\ cfg_password c = Some p /\ a = auth_new b64 u p.
Proof.
  intros b64 c a H. unfold make_auth. rewrite H. cbn [negb].
  destruct (cfg_user c) as [u|]; [|discriminate].
  destruct (cfg_password c) as [p|]; [|discriminate].
  intros E. inversion E. exists u, p. auto.
Qed.

Lemma config_requires_credentials : forall b64 c,
  cfg_enable_auth c = true -> (cfg_user c = None \/ cfg_password c = None) ->
  validate_config c = Err /\ make_auth b64 c = Err.
Proof.
  intros b64 c He Hn. unfold validate_config, make_auth. rewrite He. cbn [negb andb].
  destruct Hn as [Hn|Hn]; rewrite Hn; cbn [is_none orb].
  - split; reflexivity.
  - destruct (cfg_user c); cbn [is_none orb]; split; reflexivity.
Qed.

Lemma validate_config_ok_make_auth : forall b64 c, validate_config c = Ok tt -> exists a, make_auth b64 c = Ok a.
Proof.
  intros b64 c. unfold validate_config, make_auth.
  destruct (cfg_enable_auth c); cbn [negb andb].
  - destruct (cfg_user c) as [u|]; cbn [is_none orb]; [|discriminate].
    destruct (cfg_password c) as [p|]; cbn [is_none]; [|discriminate].
    intros _. eexists; reflexivity.
  - intros _. eexists; reflexivity.
Qed.

(* ---- middleware ------------------------------------------------------------------------- *)

Lemma rewrite_entry_authd : forall deny e, rewrite_entry deny true e = keep e.
Proof. intros deny [id m|m|id]; reflexivity. Qed.

Lemma rewrite_entry_unauth : forall deny e,
  rewrite_entry deny false e = if entry_protected deny e then BErr (Some (entry_id0 e)) E401 else keep e.
Proof.
  intros deny [id m|m|id]; cbn [rewrite_entry entry_protected entry_id0 keep validate_call validate_notification orb];
    try reflexivity; destruct (in_deny deny m); reflexivity.
Qed.

Lemma rewrite_entry_public : forall deny authd e,
  (forall m, In m (entry_methods e) -> ~ In m deny) -> rewrite_entry deny authd e = keep e.
Proof.
  intros deny authd [id m|m|id] H; cbn [rewrite_entry keep]; unfold validate_call, validate_notification; try reflexivity;
    (assert (Hf : in_deny deny m = false) by (apply in_deny_false, H; left; reflexivity));
    rewrite Hf; destruct authd; reflexivity.
Qed.

Lemma mw_authd : forall deny r, mw deny true r = mw [] true r.
Proof.
  intros deny [id m|m|es]; reflexivity.
Qed.

Lemma mw_authd_forwards : forall deny r,
  mw deny true r = match r with
                   | Call id m => FwdCall id m
                   | Notif m => FwdNotif m
                   | Batch es => FwdBatch (map keep es)
                   end.
Proof.
  intros deny [id m|m|es]; reflexivity.
Qed.

Lemma mw_public : forall deny authd r,
  (forall m, In m (req_methods r) -> ~ In m deny) -> mw deny authd r = mw deny true r.
Proof.
  intros deny authd [id m|m|es] H; cbn [mw]; unfold validate_call, validate_notification.
  - assert (Hf : in_deny deny m = false) by (apply in_deny_false, H; left; reflexivity).
    rewrite Hf. destruct authd; reflexivity.
  - assert (Hf : in_deny deny m = false) by (apply in_deny_false, H; left; reflexivity).
    rewrite Hf. destruct authd; reflexivity.
  - f_equal. apply map_ext_in. intros e He.
    rewrite (rewrite_entry_public deny authd e), (rewrite_entry_public deny true e); try reflexivity;
      intros m Hm; apply H; cbn [req_methods]; apply in_flat_map; exists e; auto.
Qed.

Lemma forwarded_unauth_not_protected : forall deny r m,
  In m (forwarded (mw deny false r)) -> ~ In m deny.
Proof.
  intros deny [id m0|m0|es] m; cbn [mw validate_call validate_notification orb].
  - destruct (in_deny deny m0) eqn:E; cbn [negb forwarded]; intros H; [contradiction|].
    destruct H as [H|[]]. subst. apply in_deny_false; exact E.
  - destruct (in_deny deny m0) eqn:E; cbn [negb forwarded]; intros H; [contradiction|].
    destruct H as [H|[]]. subst. apply in_deny_false; exact E.
  - cbn [forwarded]. rewrite in_flat_map. intros [b [Hb Hm]].
    apply in_map_iff in Hb. destruct Hb as [e [He _]]. subst b.
    rewrite rewrite_entry_unauth in Hm.
    destruct e as [id m1|m1|id]; cbn [entry_protected keep entry_id0] in Hm.
    + destruct (in_deny deny m1) eqn:E; cbn [bentry_methods] in Hm; [contradiction|].
      destruct Hm as [Hm|[]]. subst. apply in_deny_false; exact E.
    + destruct (in_deny deny m1) eqn:E; cbn [bentry_methods] in Hm; [contradiction|].
      destruct Hm as [Hm|[]]. subst. apply in_deny_false; exact E.
    + contradiction.
Qed.

Lemma mw_unauth_call_protected : forall deny id m, In m deny -> mw deny false (Call id m) = Reply401 id.
Proof.
  intros deny id m H. apply in_deny_In in H. cbn [mw validate_call orb]. rewrite H. reflexivity.
Qed.

Lemma mw_unauth_notif_protected : forall deny m, In m deny -> mw deny false (Notif m) = ReplyNothing.
Proof.
  intros deny m H. apply in_deny_In in H. cbn [mw validate_notification orb]. rewrite H. reflexivity.
Qed.

Lemma mw_unauth_batch_positions : forall deny es,
  exists es', mw deny false (Batch es) = FwdBatch es' /\ List.length es' = List.length es /\
    forall i e, nth_error es i = Some e ->
      nth_error es' i = Some (if entry_protected deny e then BErr (Some (entry_id0 e)) E401 else keep e).
Proof.
  intros deny es. exists (map (rewrite_entry deny false) es). split; [reflexivity|]. split; [apply map_length|].
  intros i e H. rewrite nth_error_map, H. cbn [option_map]. rewrite rewrite_entry_unauth. reflexivity.
Qed.

(* ---- both layers over abstract handlers ---------------------------------------------------- *)

Section Served.
  Variables S O : Type.
  Variable handler : method -> S -> S * O.

  Lemma inner_batch_unauth : forall deny es s,
    let r := inner_batch handler (map (rewrite_entry deny false) es) s in
    b_trace _ _ r = flat_map (entry_permitted_call deny) es /\
    b_state _ _ r = run_handlers handler (flat_map (entry_permitted_call deny) es) s.
  Proof.
    intros deny es. induction es as [|e es IH]; intros s.
    - split; reflexivity.
    - cbn [map]. rewrite rewrite_entry_unauth.
      destruct e as [id m|m|id]; cbn [entry_protected keep entry_id0 flat_map entry_permitted_call].
      + destruct (in_deny deny m); cbn [inner_batch b_trace b_state app].
        * apply IH.
        * destruct (IH (fst (handler m s))) as [Ht Hs]. split.
          -- f_equal. exact Ht.
          -- rewrite Hs. reflexivity.
      + destruct (in_deny deny m); cbn [inner_batch b_trace b_state app]; apply IH.
      + cbn [inner_batch b_trace b_state app]. apply IH.
  Qed.

  Lemma serve_unauth : forall deny r s,
    o_trace (serve handler deny false r s) = permitted_calls deny r /\
    o_state (serve handler deny false r s) = run_handlers handler (permitted_calls deny r) s /\
    (forall m, In m (o_trace (serve handler deny false r s)) -> ~ In m deny).
  Proof.
    intros deny r s.
    assert (H12 : o_trace (serve handler deny false r s) = permitted_calls deny r /\
                  o_state (serve handler deny false r s) = run_handlers handler (permitted_calls deny r) s).
    { destruct r as [id m|m|es]; unfold serve; cbn [mw validate_call validate_notification orb permitted_calls].
      - destruct (in_deny deny m); cbn [negb run_action o_trace o_state]; split; reflexivity.
      - destruct (in_deny deny m); cbn [negb run_action o_trace o_state]; split; reflexivity.
      - cbn [run_action o_trace o_state]. apply inner_batch_unauth. }
    destruct H12 as [H1 H2]. split; [exact H1|]. split; [exact H2|].
    intros m Hm. rewrite H1 in Hm.
    destruct r as [id m0|m0|es]; cbn [permitted_calls] in Hm.
    - destruct (in_deny deny m0) eqn:E; [contradiction|]. destruct Hm as [Hm|[]]. subst. apply in_deny_false; exact E.
    - contradiction.
    - apply in_flat_map in Hm. destruct Hm as [e [_ Hm]].
      destruct e as [id m1|m1|id]; cbn [entry_permitted_call] in Hm; try contradiction.
      destruct (in_deny deny m1) eqn:E; [contradiction|]. destruct Hm as [Hm|[]]. subst. apply in_deny_false; exact E.
  Qed.

  (* answers of a batch sent without authorisation: every protected call gets 401 with its id,
     every other call is answered by its handler, under its id *)
  Lemma inner_batch_unauth_answers : forall deny es s id m,
    In (ECall id m) es ->
    let rs := b_resps _ _ (inner_batch handler (map (rewrite_entry deny false) es) s) in
    if in_deny deny m then In (RErr (Some id) E401) rs else exists o, In (RServed id m o) rs.
  Proof.
    intros deny es. induction es as [|e es IH]; intros s id m Hin; [contradiction|].
    cbn [map]. destruct Hin as [Heq|Hin].
    - subst e. cbn [rewrite_entry validate_call orb].
      destruct (in_deny deny m); cbn [negb inner_batch b_resps].
      + left; reflexivity.
      + eexists. left; reflexivity.
    - rewrite rewrite_entry_unauth.
      destruct e as [id' m'|m'|id']; cbn [entry_protected keep entry_id0].
      + destruct (in_deny deny m'); cbn [inner_batch b_resps].
        * specialize (IH s id m Hin). cbn zeta in IH. destruct (in_deny deny m).
          -- right; exact IH.
          -- destruct IH as [o Ho]. exists o. right; exact Ho.
        * specialize (IH (fst (handler m' s)) id m Hin). cbn zeta in IH. destruct (in_deny deny m).
          -- right; exact IH.
          -- destruct IH as [o Ho]. exists o. right; exact Ho.
      + destruct (in_deny deny m'); cbn [inner_batch b_resps].
        * specialize (IH s id m Hin). cbn zeta in IH. destruct (in_deny deny m).
          -- right; exact IH.
          -- destruct IH as [o Ho]. exists o. right; exact Ho.
        * exact (IH s id m Hin).
      + cbn [inner_batch b_resps].
        specialize (IH s id m Hin). cbn zeta in IH. destruct (in_deny deny m).
        -- right; exact IH.
        -- destruct IH as [o Ho]. exists o. right; exact Ho.
  Qed.

  Lemma serve_unauth_answers : forall deny s,
    (forall id m, In m deny ->
       o_body (serve handler deny false (Call id m) s) = Single (RErr (Some id) E401) /\
       o_state (serve handler deny false (Call id m) s) = s) /\
    (forall m, o_body (serve handler deny false (Notif m) s) = NoBody /\
               o_state (serve handler deny false (Notif m) s) = s) /\
    (forall es id m, In (ECall id m) es ->
       exists rs, o_body (serve handler deny false (Batch es) s) = Many rs /\
                  if in_deny deny m then In (RErr (Some id) E401) rs else exists o, In (RServed id m o) rs).
  Proof.
    intros deny s. split; [|split].
    - intros id m H. apply in_deny_In in H. unfold serve. cbn [mw validate_call orb]. rewrite H.
      cbn [negb run_action o_body o_state]. split; reflexivity.
    - intros m. unfold serve. cbn [mw validate_notification orb].
      destruct (in_deny deny m); cbn [negb run_action o_body o_state]; split; reflexivity.
    - intros es id m Hin. unfold serve. cbn [mw run_action o_body].
      pose proof (inner_batch_unauth_answers deny es s id m Hin) as H. cbn zeta in H.
      destruct (b_resps S O (inner_batch handler (map (rewrite_entry deny false) es) s)) as [|r rs] eqn:E.
      + destruct (in_deny deny m); [contradiction | destruct H as [o []]].
      + exists (r :: rs). split; [reflexivity | exact H].
  Qed.

  Lemma serve_authd : forall deny r s, serve handler deny true r s = serve handler [] true r s.
  Proof. intros. unfold serve. rewrite mw_authd. reflexivity. Qed.

  Lemma serve_public : forall deny authd r s,
    (forall m, In m (req_methods r) -> ~ In m deny) -> serve handler deny authd r s = serve handler deny true r s.
  Proof. intros. unfold serve. rewrite (mw_public deny authd r); auto. Qed.

  (* an authorised call reaches its handler whatever the denylist says *)
  Lemma serve_authd_call : forall deny id m s,
    serve handler deny true (Call id m) s =
    {| o_state := fst (handler m s); o_body := Single (RServed id m (snd (handler m s))); o_trace := [m] |}.
  Proof. reflexivity. Qed.
End Served.

(* ---- the reflected table ------------------------------------------------------------------- *)

Definition mutators_protected_b (t : mtable) (deny : list method) : bool :=
  forallb (fun m => negb (tbl_mutates t m) || mem_str m deny) (tbl_methods t).
Definition all_classified_b (t : mtable) : bool := forallb (tbl_classified t) (tbl_methods t).
Definition subset_b (a b : list string) : bool := forallb (fun m => mem_str m b) a.

Lemma mem_str_In : forall m l, mem_str m l = true <-> In m l.
Proof. exact (fun m l => in_deny_In l m). Qed.

Lemma mutators_protected_sound : forall t deny, mutators_protected_b t deny = true ->
  forall m, In m (tbl_methods t) -> tbl_mutates t m = true -> In m deny.
Proof.
  intros t deny H m Hin Hm. unfold mutators_protected_b in H. rewrite forallb_forall in H.
  specialize (H m Hin). rewrite Hm in H. cbn [negb orb] in H. apply mem_str_In; exact H.
Qed.

Lemma all_classified_sound : forall t, all_classified_b t = true ->
  forall m, In m (tbl_methods t) -> tbl_classified t m = true.
Proof. intros t H m Hin. unfold all_classified_b in H. rewrite forallb_forall in H. auto. Qed.

Lemma subset_sound : forall a b, subset_b a b = true -> forall m, In m a -> In m b.
Proof. intros a b H m Hin. unfold subset_b in H. rewrite forallb_forall in H. apply mem_str_In. auto. Qed.

(* the server as wired, with the reflected table: an unauthorised request runs only handlers
   of unprotected methods, which -- if registered -- were measured as not mutating *)
Lemma unauth_cannot_change_state : forall (t : mtable) (deny : list method),
  mutators_protected_b t deny = true ->
  forall (b64 : string -> string) (c : config) (a : http_auth) (raw : option (list N)),
    cfg_enable_auth c = true -> make_auth b64 c = Ok a -> header_str raw <> ha_header a ->
    forall (S O : Type) (handler : method -> S -> S * O) (req : request) (s : S) (r : outcome S O),
      server handler b64 deny c raw req s = Ok r ->
      o_state r = run_handlers handler (permitted_calls deny req) s /\
      forall m, In m (o_trace r) -> ~ In m deny /\ (In m (tbl_methods t) -> tbl_mutates t m = false).
Proof.
  intros t deny Ht b64 c a raw He Ha Hh S O handler req s r Hs.
  unfold server in Hs. rewrite Ha in Hs. inversion Hs as [Hr]. clear Hs.
  destruct (make_auth_enabled b64 c a He Ha) as [u [p [_ [_ Hau]]]].
  assert (Hf : authorized a (header_str raw) = false).
  { destruct (authorized a (header_str raw)) eqn:E; [|reflexivity].
    subst a. apply authorized_new_iff in E. exfalso. apply Hh. exact E. }
  rewrite Hf.
  destruct (serve_unauth S O handler deny req s) as [_ [H2 H3]].
  split; [exact H2|].
  intros m Hm. split; [exact (H3 m Hm)|].
  intros Hin. destruct (tbl_mutates t m) eqn:E; [|reflexivity].
  exfalso. apply (H3 m Hm). exact (mutators_protected_sound t deny Ht m Hin E).
Qed.
