(* Proofs about the engine protocol model (C05, C08). *)
From Brc.Model Require Import Base Table Engine.

Arguments N.add : simpl never.
Arguments N.leb : simpl never.
Arguments N.ltb : simpl never.
Arguments N.eqb : simpl never.

Section EngineP.
  Variables W FN FB IDX : N.

  Notation e_step := (e_step W FN FB IDX).
  Notation drain := (drain FB).
  Notation finalise := (finalise FB).

  Lemma exec_tx_fields g a nn idx ts h num v g1 :
    exec_tx g a nn idx ts h num v = Some g1 ->
    validate_next g idx h num ts = true /\
    g_wait g1 = g_wait g + 1 /\ g_ts g1 = ts /\ g_hash g1 = h /\ g_blocks g1 = g_blocks g /\
    g_h g1 = g_h g /\ g_pool g1 = g_pool g /\ g_maxb g1 = g_maxb g /\
    g_log g1 = (num, idx, a, nn, v) :: g_log g.
  Proof.
    unfold exec_tx. destruct (validate_next g idx h num ts) eqn:E; [|discriminate].
    intros [= <-]. cbn. repeat split; reflexivity.
  Qed.

  Lemma validate_wait g idx h num ts : validate_next g idx h num ts = true -> g_wait g = idx.
  Proof.
    unfold validate_next. intros H. apply andb_prop in H as [H _]. apply andb_prop in H as [H _].
    apply andb_prop in H as [H _]. apply N.eqb_eq in H. exact H.
  Qed.

  Lemma validate_after_exec g a nn idx ts h num v g1 :
    exec_tx g a nn idx ts h num v = Some g1 -> validate_next g1 (idx + 1) h num ts = true.
  Proof.
    intros He. destruct (exec_tx_fields _ _ _ _ _ _ _ _ _ He) as (Hv & Hw & Hts & Hh & Hb & _).
    pose proof (validate_wait _ _ _ _ _ Hv) as Hwi.
    unfold validate_next in *. rewrite Hw, Hts, Hh. unfold block_exists, hash_exists in *. rewrite Hb.
    rewrite Hwi. rewrite N.eqb_refl. cbn [andb].
    destruct (N.eqb_spec (idx + 1) 0); [lia|]. rewrite !N.eqb_refl. cbn [andb].
    apply andb_prop in Hv as [Hv H4]. apply andb_prop in Hv as [Hv H3]. rewrite H3, H4. reflexivity.
  Qed.

  Lemma validate_pool_irrelevant g idx h num ts pool dirty log :
    validate_next (mkEng (g_h g) (g_maxb g) (g_wait g) (g_ts g) (g_hash g) (g_blocks g) (g_nonce g) pool dirty log)
                  idx h num ts = validate_next g idx h num ts.
  Proof. reflexivity. Qed.

  (* The drain loop cannot fail once the first transaction of the call was accepted, and it
     appends exactly the transactions it reports, at consecutive indexes. *)
  Lemma drain_ok fuel : forall g a nn idx ts h num valids done,
    validate_next g idx h num ts = true ->
    exists g' k, drain fuel g a nn idx ts h num valids done = Some (g', k) /\
                 done <= k /\ g_wait g' = g_wait g + (k - done) /\
                 g_blocks g' = g_blocks g /\ g_h g' = g_h g /\ g_maxb g' = g_maxb g.
  Proof.
    induction fuel as [|f IH]; intros g a nn idx ts h num valids done Hv; cbn [Engine.drain].
    - exists g, done. repeat split; try reflexivity; lia.
    - destruct (pool_find g a nn) as [parked|]; [|exists g, done; repeat split; try reflexivity; lia].
      destruct (num <? FB + parked).
      + unfold exec_tx at 1. rewrite Hv.
        set (g1 := mkEng (g_h g) (g_maxb g) (g_wait g + 1) ts h (g_blocks g) _ (g_pool g) (g_dirty g) _).
        assert (He : exec_tx g a nn idx ts h num (hd true valids) = Some g1).
        { unfold exec_tx. rewrite Hv. reflexivity. }
        pose proof (validate_after_exec _ _ _ _ _ _ _ _ _ He) as Hv1.
        match goal with |- context [Engine.drain FB f ?g2 _ _ _ _ _ _ _ _] => set (gg := g2) end.
        assert (Hv2 : validate_next gg (idx + 1) h num ts = true) by exact Hv1.
        destruct (IH gg a (nn + 1) (idx + 1) ts h num (tl valids) (done + 1) Hv2) as (g' & k & Hd & Hk & Hw & Hb & Hh & Hm).
        exists g', k. split; [exact Hd|]. subst gg g1. cbn in Hw, Hb, Hh, Hm.
        repeat split; try assumption; lia.
      + eexists. exists done. split; [reflexivity|]. cbn. repeat split; lia.
  Qed.

  Lemma finalise_after_exec g a nn ts h num v g1 :
    exec_tx g a nn 0 ts h num v = Some g1 -> exists g2, finalise g1 ts h num 1 = Some g2.
  Proof.
    intros He. pose proof (validate_after_exec _ _ _ _ _ _ _ _ _ He) as Hv. cbn in Hv.
    unfold Engine.finalise. change (0 + 1) with 1 in Hv. rewrite Hv. eexists. reflexivity.
  Qed.

  Arguments Engine.drain : simpl never.
  Arguments Engine.exec_tx : simpl never.
  Arguments Engine.finalise : simpl never.
  Arguments Engine.mine : simpl never.

  (* C05: a rejected call leaves the engine exactly as it was. *)
  Theorem reject_no_effect g c : snd (e_step g c) = ORejected -> fst (e_step g c) = g.
  Proof.
    destruct c as [a idx ts h v|d idx ts h vs|ts h cnt|cnt ts|h ts hg| |hc bl nn pl|n nn pl|]; cbn [Engine.e_step].
    - destruct (exec_tx _ _ _ _ _ _ _ _); cbn; [discriminate|reflexivity].
    - destruct d as [| |a n]; cbn; try discriminate; try reflexivity.
      destruct (n =? nonce_of g a).
      + destruct (exec_tx g a n idx ts (resolve_hash h (next_h g)) (next_h g) (hd true vs)) as [g1|] eqn:He; cbn; [|reflexivity].
        pose proof (validate_after_exec _ _ _ _ _ _ _ _ _ He) as Hv.
        destruct (drain_ok (S (length (g_pool g1))) g1 a (nonce_of g a + 1) (idx + 1) ts
                    (resolve_hash h (next_h g)) (next_h g) (tl vs) 1 Hv) as (g' & k & Hd & _).
        rewrite Hd. cbn. discriminate.
      + destruct ((nonce_of g a <? n) && (n <? nonce_of g a + FN)); cbn; discriminate.
    - destruct (finalise _ _ _ _ _); cbn; [discriminate|reflexivity].
    - destruct (negb (g_wait g =? 0) || g_dirty g); cbn; [reflexivity|].
      destruct (mine _ _ _ _ _); cbn; [discriminate|reflexivity].
    - destruct (find _ _) as [b|].
      + destruct (snd b =? _); cbn; [discriminate|reflexivity].
      + destruct (negb (hg =? next_h g) || negb (nonce_of g IDX =? 0)); cbn; [reflexivity|].
        destruct (exec_tx g IDX (nonce_of g IDX) 0 ts (resolve_hash h hg) hg true) as [g1|] eqn:He; cbn; [|reflexivity].
        destruct (finalise_after_exec _ _ _ _ _ _ _ _ He) as (g2 & Hf). rewrite Hf. cbn. discriminate.
    - destruct (negb (g_wait g =? 0) || g_dirty g); cbn; [reflexivity|discriminate].
    - cbn. discriminate.
    - destruct (negb (g_wait g =? 0) || g_dirty g); cbn; [reflexivity|].
      destruct (height g <? n); cbn; [reflexivity|].
      destruct (W <? height g - n); cbn; [reflexivity|].
      destruct (n =? height g); cbn; [discriminate|].
      destruct (W + n <? g_maxb g); cbn; [reflexivity|discriminate].
    - reflexivity.
  Qed.

  (* C05: each protocol violation is rejected. *)
  Theorem wrong_tx_idx_rejected g a idx ts h v :
    idx <> g_wait g -> snd (e_step g (CTx a idx ts h v)) = ORejected.
  Proof.
    intros Hne. cbn [Engine.e_step]. unfold exec_tx, validate_next.
    destruct (N.eqb_spec (g_wait g) idx); [congruence|]. reflexivity.
  Qed.

  Theorem midblock_mismatch_rejected g a idx ts h v :
    g_wait g <> 0 -> (ts <> g_ts g \/ resolve_hash h (next_h g) <> g_hash g) ->
    snd (e_step g (CTx a idx ts h v)) = ORejected.
  Proof.
    intros Hw Hm. cbn [Engine.e_step]. unfold exec_tx, validate_next.
    destruct (g_wait g =? idx); [|reflexivity]. cbn [andb].
    destruct (N.eqb_spec (g_wait g) 0); [contradiction|].
    destruct (N.eqb_spec (g_ts g) ts), (N.eqb_spec (g_hash g) (resolve_hash h (next_h g))); cbn [andb]; try reflexivity.
    destruct Hm; congruence.
  Qed.

  Theorem finalise_wrong_count_rejected g ts h cnt :
    cnt <> g_wait g -> snd (e_step g (CFinalise ts h cnt)) = ORejected.
  Proof.
    intros Hne. cbn [Engine.e_step]. unfold Engine.finalise, validate_next.
    destruct (N.eqb_spec (g_wait g) cnt); [congruence|]. reflexivity.
  Qed.

  Theorem existing_hash_rejected g a idx ts h v :
    hash_exists g (resolve_hash h (next_h g)) = true -> snd (e_step g (CTx a idx ts h v)) = ORejected.
  Proof.
    intros He. cbn [Engine.e_step]. unfold exec_tx, validate_next. rewrite He.
    rewrite !andb_false_r. reflexivity.
  Qed.

  Theorem open_block_refuses_commit_reorg_mine g :
    g_wait g <> 0 \/ g_dirty g = true ->
    snd (e_step g CCommit) = ORejected /\
    (forall n nn pl, snd (e_step g (CReorg n nn pl)) = ORejected) /\
    (forall c ts, snd (e_step g (CMine c ts)) = ORejected).
  Proof.
    intros H. assert (E : negb (g_wait g =? 0) || g_dirty g = true).
    { destruct H as [H|H]; [destruct (N.eqb_spec (g_wait g) 0); [contradiction|reflexivity]|rewrite H; apply orb_true_r]. }
    cbn [Engine.e_step]. rewrite E. repeat split.
  Qed.

  (* C08: the number of receipts a transact returns is the number of transactions it
     appended; they sit at consecutive indexes starting at tx_idx. *)
  Theorem transact_receipts_match g d idx ts h vs k :
    snd (e_step g (CRaw d idx ts h vs)) = OOk k ->
    g_wait (fst (e_step g (CRaw d idx ts h vs))) = g_wait g + k /\
    g_blocks (fst (e_step g (CRaw d idx ts h vs))) = g_blocks g /\
    g_h (fst (e_step g (CRaw d idx ts h vs))) = g_h g.
  Proof.
    cbn [Engine.e_step]. destruct d as [| |a n]; cbn.
    - discriminate.
    - intros [= <-]. repeat split; lia.
    - destruct (n =? nonce_of g a).
      + destruct (exec_tx g a n idx ts (resolve_hash h (next_h g)) (next_h g) (hd true vs)) as [g1|] eqn:He; cbn; [|discriminate].
        pose proof (validate_after_exec _ _ _ _ _ _ _ _ _ He) as Hv.
        destruct (exec_tx_fields _ _ _ _ _ _ _ _ _ He) as (_ & Hw1 & _ & _ & Hb1 & Hh1 & _).
        destruct (drain_ok (S (length (g_pool g1))) g1 a (nonce_of g a + 1) (idx + 1) ts
                    (resolve_hash h (next_h g)) (next_h g) (tl vs) 1 Hv) as (g' & k' & Hd & Hk & Hw & Hb & Hh & _).
        rewrite Hd. cbn. intros [= <-]. repeat split; [lia|congruence|congruence].
      + destruct ((nonce_of g a <? n) && (n <? nonce_of g a + FN)); cbn; intros [= <-]; repeat split; lia.
  Qed.

  (* C08: stale, far-future and wrong-chain transactions are ignored without effect;
     undecodable ones are rejected without effect. *)
  Theorem transact_ignored_no_effect g idx ts h vs :
    e_step g (CRaw DUndecodable idx ts h vs) = (g, ORejected) /\
    e_step g (CRaw DWrongChain idx ts h vs) = (g, OOk 0) /\
    (forall a n, (n < nonce_of g a \/ (nonce_of g a < n /\ nonce_of g a + FN <= n)) ->
                 e_step g (CRaw (DSigned a n) idx ts h vs) = (g, OOk 0)).
  Proof.
    repeat split. intros a n Hn. cbn [Engine.e_step].
    destruct (N.eqb_spec n (nonce_of g a)); [lia|].
    destruct (N.ltb_spec (nonce_of g a) n), (N.ltb_spec n (nonce_of g a + FN)); cbn [andb]; try reflexivity; lia.
  Qed.

  (* C08: a transaction ahead of the account by fewer than FN nonces is parked, nothing is
     executed. *)
  Theorem transact_parks g a n idx ts h vs :
    nonce_of g a < n -> n < nonce_of g a + FN ->
    snd (e_step g (CRaw (DSigned a n) idx ts h vs)) = OOk 0 /\
    g_wait (fst (e_step g (CRaw (DSigned a n) idx ts h vs))) = g_wait g /\
    pool_find (fst (e_step g (CRaw (DSigned a n) idx ts h vs))) a n = Some (next_h g).
  Proof.
    intros H1 H2. cbn [Engine.e_step].
    destruct (N.eqb_spec n (nonce_of g a)); [lia|].
    destruct (N.ltb_spec (nonce_of g a) n), (N.ltb_spec n (nonce_of g a + FN)); try lia. cbn [andb fst snd].
    repeat split. unfold pool_find, pool_put. cbn [g_pool find fst snd]. rewrite !N.eqb_refl. reflexivity.
  Qed.
End EngineP.
