(* Proofs about the environments handed to revm (C16 limit_applied, C17, C19). *)
From Brc.Model Require Import Base Table BlockTable Engine Gas Env.
From Brc.Proofs Require Import KvP GasP.
From Coq Require Import PeanoNat.

Arguments N.add : simpl never.
Arguments N.mul : simpl never.
Arguments N.div : simpl never.
Arguments N.leb : simpl never.
Arguments N.ltb : simpl never.
Arguments N.eqb : simpl never.
Arguments N.min : simpl never.

Section EnvP.
  Variable GPB : N.
  Variables PM PS : N.
  Variables INDEXER INVALID CONTROLLER : N.

  Notation get_evm_spec := (get_evm_spec PM PS).
  Notation add_tx_env := (add_tx_env GPB PM PS).
  Notation read_env := (read_env PM PS).
  Notation read_multi_envs := (read_multi_envs PM PS).
  Notation op_ti := (op_ti INDEXER CONTROLLER).
  Notation op_len := (op_len GPB).
  Notation op_env := (op_env GPB PM PS INDEXER CONTROLLER).
  Notation rpc_tx_env := (rpc_tx_env GPB PM PS INDEXER CONTROLLER).
  Notation rpc_read_env := (rpc_read_env PM PS).
  Notation rpc_read_multi_envs := (rpc_read_multi_envs PM PS).

  (* ---------------------------------------------------------------- C19: env_fields *)
  Lemma tx_env_fields cf g o hash ts :
    let e := rpc_tx_env cf g o hash ts in
    be_number (e_block e) = next_h g /\
    be_timestamp (e_block e) = ts /\
    be_prevrandao (e_block e) = Some (resolve_hash hash (next_h g)) /\
    ce_chain_id (e_cfg e) = cf_chain_id cf /\
    te_chain_id (e_tx e) = Some (cf_chain_id cf) /\
    be_basefee (e_block e) = 0 /\ te_gas_price (e_tx e) = 0 /\ be_beneficiary (e_block e) = 0 /\
    be_difficulty (e_block e) = 0 /\ te_value (e_tx e) = 0 /\
    te_caller (e_tx e) = ti_from (op_ti o) /\
    te_kind (e_tx e) = ti_to (op_ti o) /\ te_data (e_tx e) = ti_data (op_ti o) /\
    ce_spec (e_cfg e) = get_evm_spec (cf_net cf) (next_h g).
  Proof. cbv zeta. repeat split. Qed.

  Lemma tx_env_sender cf g hash ts :
    (forall ti len txid, te_caller (e_tx (rpc_tx_env cf g (OInscr ti len txid) hash ts)) = ti_from ti) /\
    (forall from nonce to data len txid,
        te_caller (e_tx (rpc_tx_env cf g (OSigned from nonce to data len txid) hash ts)) = from) /\
    (forall p, te_caller (e_tx (rpc_tx_env cf g (ODrained p) hash ts)) = pk_from p) /\
    (forall d, te_caller (e_tx (rpc_tx_env cf g (OIndexer d) hash ts)) = INDEXER) /\
    (forall d, te_caller (e_tx (rpc_tx_env cf g (OGenesis d) hash ts)) = INDEXER).
  Proof. repeat split. Qed.

  (* the nonce handed to revm: the account's for inscriptions and indexer operations, the
     transaction's own for signed ones *)
  Lemma tx_env_nonce cf g hash ts :
    (forall from k d len txid,
        te_nonce (e_tx (rpc_tx_env cf g (OInscr (mkTi from k d None) len txid) hash ts)) = nonce_of g from) /\
    (forall from nonce to data len txid,
        te_nonce (e_tx (rpc_tx_env cf g (OSigned from nonce to data len txid) hash ts)) = nonce) /\
    (forall p, te_nonce (e_tx (rpc_tx_env cf g (ODrained p) hash ts)) = pk_nonce p) /\
    (forall d, te_nonce (e_tx (rpc_tx_env cf g (OIndexer d) hash ts)) = nonce_of g INDEXER).
  Proof. repeat split. Qed.

  Lemma read_env_fields cf g ti bh now gas :
    let e := rpc_read_env cf g ti bh now gas in
    be_number (e_block e) = match bh with Some h => h | None => next_h g end /\
    be_timestamp (e_block e) = now /\ be_prevrandao (e_block e) = Some 0 /\
    ce_chain_id (e_cfg e) = cf_chain_id cf /\ te_chain_id (e_tx e) = Some (cf_chain_id cf) /\
    be_basefee (e_block e) = 0 /\ te_gas_price (e_tx e) = 0 /\ be_beneficiary (e_block e) = 0 /\
    te_value (e_tx e) = 0 /\ te_caller (e_tx e) = ti_from ti /\ te_kind (e_tx e) = ti_to ti /\
    te_nonce (e_tx e) = nonce_of g (ti_from ti) /\
    te_gas_limit (e_tx e) = match gas with Some x => x | None => cf_call_gas cf end /\
    e_txid e = 0.
  Proof. cbv zeta. repeat split. Qed.

  (* ---------------------------------------------------------------- C16: limit_applied *)
  Lemma limit_applied cf o number hash ts an :
    te_gas_limit (e_tx (op_env cf o number hash ts an)) = gas_limit GPB (op_len o).
  Proof. reflexivity. Qed.

  Lemma limit_by_kind :
    (forall ti len txid, op_len (OInscr ti len txid) = len) /\
    (forall f n t d len txid, op_len (OSigned f n t d len txid) = len) /\
    (forall ti nonce len txid, op_len (ODrained (park GPB ti nonce len txid)) = byte_len GPB (gas_limit GPB len)) /\
    (forall d, op_len (OIndexer d) = u64max) /\ (forall d, op_len (OGenesis d) = u64max).
  Proof. repeat split. Qed.

  Lemma limit_unmetered : 0 < GPB -> forall cf d number hash ts an,
    te_gas_limit (e_tx (op_env cf (OIndexer d) number hash ts an)) = u64max /\
    te_gas_limit (e_tx (op_env cf (OGenesis d) number hash ts an)) = u64max.
  Proof. intros H cf d number hash ts an. split; cbn; apply gas_limit_max; exact H. Qed.

  Lemma limit_parked : 0 < GPB -> forall cf ti nonce len txid number hash ts an,
    let g := te_gas_limit (e_tx (op_env cf (ODrained (park GPB ti nonce len txid)) number hash ts an)) in
    g <= gas_limit GPB len /\ gas_limit GPB len < g + GPB /\ (len * GPB <= u64max -> g = gas_limit GPB len).
  Proof.
    intros H cf ti nonce len txid number hash ts an. cbv zeta.
    change (te_gas_limit _) with (regas GPB (gas_limit GPB len)).
    split; [apply regas_le; exact H|]. split; [apply regas_close; exact H|]. apply regas_exact; exact H.
  Qed.

  (* ---------------------------------------------------------------- C19: txid_of_this_tx *)
  Lemma txid_of_this_tx cf number hash ts an :
    (forall ti len txid, e_txid (op_env cf (OInscr ti len txid) number hash ts an) = txid) /\
    (forall f n t d len txid, e_txid (op_env cf (OSigned f n t d len txid) number hash ts an) = txid) /\
    (forall ti nonce len txid, e_txid (op_env cf (ODrained (park GPB ti nonce len txid)) number hash ts an) = txid) /\
    (forall p, pk_txid p = None -> e_txid (op_env cf (ODrained p) number hash ts an) = 0) /\
    (forall d, e_txid (op_env cf (OIndexer d) number hash ts an) = 0) /\
    (forall d, e_txid (op_env cf (OGenesis d) number hash ts an) = 0).
  Proof.
    repeat split. intros p Hp. cbn. rewrite Hp. reflexivity.
  Qed.

  Lemma txid_read cf ti bh next now gas an : e_txid (read_env cf ti bh next now gas an) = 0.
  Proof. reflexivity. Qed.

  (* a parked transaction keeps sender, target, data and nonce *)
  Lemma park_roundtrip ti nonce len txid :
    op_ti (ODrained (park GPB ti nonce len txid)) = mkTi (ti_from ti) (ti_to ti) (ti_data ti) (Some nonce).
  Proof. cbn. destruct (ti_to ti); reflexivity. Qed.

  (* read_contract_multi *)
  Lemma multi_envs_length cf tis : forall e0 idx nonces txids gases,
    length (multi_envs cf e0 tis idx nonces txids gases) = length tis.
  Proof. induction tis as [|ti r IH]; intros; cbn [multi_envs length]; [reflexivity|]. rewrite IH. reflexivity. Qed.

  Definition nth_txid (txids : option (list N)) (i : nat) : N :=
    match txids with Some l => match nth_error l i with Some t => t | None => 0 end | None => 0 end.

  Lemma multi_envs_nth cf : forall tis e0 idx nonces txids gases i ti,
    nth_error tis i = Some ti ->
    exists e, nth_error (multi_envs cf e0 tis idx nonces txids gases) i = Some e /\
              e_txid e = nth_txid txids (idx + i) /\
              e_block e = e_block e0 /\ e_cfg e = e_cfg e0 /\ e_helper e = e_helper e0 /\
              te_caller (e_tx e) = ti_from ti /\ te_kind (e_tx e) = ti_to ti /\ te_data (e_tx e) = ti_data ti /\
              te_gas_price (e_tx e) = te_gas_price (e_tx e0) /\ te_value (e_tx e) = te_value (e_tx e0) /\
              te_chain_id (e_tx e) = te_chain_id (e_tx e0).
  Proof.
    induction tis as [|t r IH]; intros e0 idx nonces txids gases i ti H; [destruct i; discriminate|].
    destruct i as [|i].
    - injection H as <-. cbn [multi_envs nth_error]. eexists. split; [reflexivity|].
      rewrite Nat.add_0_r. repeat split.
    - cbn [nth_error] in H. cbn [multi_envs nth_error].
      match goal with |- context [multi_envs cf ?E r (S idx) ?NN txids gases] =>
        destruct (IH E (S idx) NN txids gases i ti H) as (e & He & Htx & Hb & Hc & Hh & H1 & H2 & H3 & H4 & H5 & H6) end.
      exists e. split; [exact He|]. replace (idx + S i)%nat with (S idx + i)%nat by lia.
      split; [exact Htx|]. cbn in Hb, Hc, Hh, H4, H5, H6. repeat split; assumption.
  Qed.

  (* the nonce bookkeeping: account nonce + number of earlier calls of the same sender *)
  Definition earlier (tis : list txinfo) (i : nat) (a : N) : N :=
    N.of_nat (length (filter (fun t => ti_from t =? a) (firstn i tis))).

  Lemma kv_get_put_same (m : kv N) k v : kv_get (kv_put m k v) k = Some v.
  Proof. rewrite kv_get_put, N.eqb_refl. reflexivity. Qed.

  Lemma kv_get_put_other (m : kv N) k k2 v : k2 <> k -> kv_get (kv_put m k v) k2 = kv_get m k2.
  Proof. intros H. rewrite kv_get_put. destruct (N.eqb_spec k k2); [congruence|reflexivity]. Qed.

  Lemma init_nonces_get acct : forall tis (m : kv N) a,
    kv_get (fold_left (fun m ti => kv_put m (ti_from ti) (acct (ti_from ti))) tis m) a =
    if existsb (fun t => ti_from t =? a) tis then Some (acct a) else kv_get m a.
  Proof.
    induction tis as [|t r IH]; intros m a; cbn [fold_left existsb]; [reflexivity|].
    rewrite IH. destruct (existsb (fun t0 => ti_from t0 =? a) r); [rewrite Bool.orb_true_r; reflexivity|].
    rewrite Bool.orb_false_r. destruct (N.eqb_spec (ti_from t) a) as [->|Hne].
    - apply kv_get_put_same.
    - apply kv_get_put_other. congruence.
  Qed.

  Lemma multi_nonce_gen cf : forall tis e0 idx nonces txids gases i ti,
    nth_error tis i = Some ti ->
    exists e, nth_error (multi_envs cf e0 tis idx nonces txids gases) i = Some e /\
      te_nonce (e_tx e) =
        (match kv_get nonces (ti_from ti) with Some n => n | None => 0 end) + earlier tis i (ti_from ti).
  Proof.
    induction tis as [|t r IH]; intros e0 idx nonces txids gases i ti H; [destruct i; discriminate|].
    destruct i as [|i].
    - injection H as <-. cbn [multi_envs nth_error]. eexists. split; [reflexivity|].
      unfold earlier. cbn. lia.
    - cbn [nth_error] in H. cbn [multi_envs nth_error].
      match goal with |- context [multi_envs cf ?E r (S idx) ?NN txids gases] =>
        destruct (IH E (S idx) NN txids gases i ti H) as (e & He & Hn) end.
      exists e. split; [exact He|]. rewrite Hn. unfold earlier. cbn [firstn filter].
      destruct (N.eqb_spec (ti_from t) (ti_from ti)) as [Heq|Hne].
      + rewrite Heq. rewrite kv_get_put_same. cbn [length]. rewrite Nat2N.inj_succ. lia.
      + rewrite kv_get_put_other by congruence. reflexivity.
  Qed.

  Lemma multi_nonce cf tis bh next now txids gases acct i ti :
    nth_error tis i = Some ti ->
    exists e, nth_error (read_multi_envs cf tis bh next now txids gases acct) i = Some e /\
      te_nonce (e_tx e) = acct (ti_from ti) + earlier tis i (ti_from ti).
  Proof.
    intros H. unfold Env.read_multi_envs.
    destruct (multi_nonce_gen cf tis (Env.get_evm PM PS cf (match bh with Some h => h | None => next end) 0 now 0)
                0%nat (init_nonces acct tis) txids gases i ti H) as (e & He & Hn).
    exists e. split; [exact He|]. rewrite Hn. unfold init_nonces. rewrite init_nonces_get.
    assert (Hex : existsb (fun t => ti_from t =? ti_from ti) tis = true).
    { apply existsb_exists. exists ti. split; [eapply nth_error_In; exact H|apply N.eqb_refl]. }
    rewrite Hex. reflexivity.
  Qed.

  Lemma multi_txid cf tis bh next now txids gases acct i ti :
    nth_error tis i = Some ti ->
    exists e, nth_error (read_multi_envs cf tis bh next now txids gases acct) i = Some e /\
      e_txid e = nth_txid txids i /\
      be_number (e_block e) = match bh with Some h => h | None => next end /\
      te_caller (e_tx e) = ti_from ti /\ te_kind (e_tx e) = ti_to ti /\ te_data (e_tx e) = ti_data ti.
  Proof.
    intros H. unfold Env.read_multi_envs.
    destruct (multi_envs_nth cf tis (Env.get_evm PM PS cf (match bh with Some h => h | None => next end) 0 now 0)
                0%nat (init_nonces acct tis) txids gases i ti H)
      as (e & He & Htx & Hb & _ & _ & H1 & H2 & H3 & _).
    exists e. split; [exact He|]. split; [exact Htx|]. rewrite Hb. repeat split; assumption.
  Qed.

  (* ---------------------------------------------------------------- C19: helper only under Prague *)
  Lemma helper_iff_prague cf o number hash ts an :
    e_helper (op_env cf o number hash ts an) = true <-> get_evm_spec (cf_net cf) number = PRAGUE.
  Proof.
    cbn. destruct (get_evm_spec (cf_net cf) number); cbn; split; congruence.
  Qed.

  Lemma helper_iff_prague_read cf ti bh next now gas an :
    e_helper (read_env cf ti bh next now gas an) = true <->
    get_evm_spec (cf_net cf) (match bh with Some h => h | None => next end) = PRAGUE.
  Proof.
    cbn. destruct (get_evm_spec (cf_net cf) _); cbn; split; congruence.
  Qed.

  Lemma spec_by_network number :
    (get_evm_spec NetBitcoin number = PRAGUE <-> PM <= number) /\
    (get_evm_spec NetSignet number = PRAGUE <-> PS <= number) /\
    get_evm_spec NetOther number = PRAGUE.
  Proof.
    unfold Env.get_evm_spec. repeat split.
    - destruct (N.leb_spec PM number); [trivial|discriminate].
    - intros H. destruct (N.leb_spec PM number); [reflexivity|lia].
    - destruct (N.leb_spec PS number); [trivial|discriminate].
    - intros H. destruct (N.leb_spec PS number); [reflexivity|lia].
  Qed.

  (* ---------------------------------------------------------------- C17: env_sim_vs_tx *)
  (* the same sender, target and data; the simulation at the block boundary (no explicit
     height, default gas), the transaction executed next *)
  Lemma env_sim_vs_tx cf g from kind data len txid hash ts now gas :
    env_mask (rpc_read_env cf g (mkTi from kind data None) None now gas) =
    env_mask (rpc_tx_env cf g (OInscr (mkTi from kind data None) len txid) hash ts).
  Proof. reflexivity. Qed.

  (* the same holds against a signed transaction that carries the account's nonce *)
  Lemma env_sim_vs_signed cf g from to data len txid hash ts now gas :
    env_mask (rpc_read_env cf g (mkTi from (raw_kind to) data None) None now gas) =
    env_mask (rpc_tx_env cf g (OSigned from (nonce_of g from) to data len txid) hash ts).
  Proof. reflexivity. Qed.

  (* with an explicit height the simulation's block number (and so its spec and BLOCKHASH
     window) is that height while nonce and state are the current ones *)
  Lemma read_at_height_number cf g ti h now gas :
    be_number (e_block (rpc_read_env cf g ti (Some h) now gas)) = h /\
    te_nonce (e_tx (rpc_read_env cf g ti (Some h) now gas)) = nonce_of g (ti_from ti).
  Proof. split; reflexivity. Qed.

  Lemma mask_differs_only_in e1 e2 :
    env_mask e1 = env_mask e2 ->
    be_number (e_block e1) = be_number (e_block e2) /\
    e_cfg e1 = e_cfg e2 /\
    te_caller (e_tx e1) = te_caller (e_tx e2) /\ te_kind (e_tx e1) = te_kind (e_tx e2) /\
    te_data (e_tx e1) = te_data (e_tx e2) /\ te_nonce (e_tx e1) = te_nonce (e_tx e2) /\
    te_gas_price (e_tx e1) = te_gas_price (e_tx e2) /\ te_value (e_tx e1) = te_value (e_tx e2) /\
    te_chain_id (e_tx e1) = te_chain_id (e_tx e2) /\
    be_basefee (e_block e1) = be_basefee (e_block e2) /\
    be_beneficiary (e_block e1) = be_beneficiary (e_block e2) /\
    be_gas_limit (e_block e1) = be_gas_limit (e_block e2) /\
    be_difficulty (e_block e1) = be_difficulty (e_block e2) /\
    be_blob (e_block e1) = be_blob (e_block e2) /\
    e_helper e1 = e_helper e2.
  Proof.
    destruct e1 as [[? ? ? ? ? ? ? ?] ? [? ? ? ? ? ? ? ?] ? ?], e2 as [[? ? ? ? ? ? ? ?] ? [? ? ? ? ? ? ? ?] ? ?].
    unfold env_mask. cbn. intros H. injection H. intros. subst. repeat split.
  Qed.

  Lemma empty_deploy_is_a_call from data : d_len data = 0 ->
    ti_to (deploy_ti INVALID from data) = KCall INVALID /\
    ti_to (ethcall_ti INVALID (Some from) None data) = KCreate /\
    (forall data', d_len data' <> 0 -> deploy_ti INVALID from data' = ethcall_ti INVALID (Some from) None data').
  Proof.
    intros H. unfold deploy_ti, ethcall_ti. cbn. rewrite H. repeat split.
    intros d' H'. destruct (N.eqb_spec (d_len d') 0); [contradiction|reflexivity].
  Qed.

  (* ---------------------------------------------------------------- C17: sim_predicts_tx *)
  Section Oracle.
    Context {View Out : Type}.
    (* what one EVM run answers: success flag, return data (the runtime code for a creation),
       the created address, the addresses created inside, and whether the run ended because
       its gas limit was reached *)
    Record result : Type := mkResult {
      r_ok : bool; r_out : Out; r_created : option N; r_children : list N; r_gas_exhausted : bool;
    }.
    Variable evm : env -> View -> result.

    Definition same_answer (a b : result) : Prop :=
      r_ok a = r_ok b /\ r_out a = r_out b /\ r_created a = r_created b /\ r_children a = r_children b.

    (* the program does not read timestamp, randomness, remaining gas or the current txid *)
    Definition insensitive : Prop :=
      forall e1 e2 v, env_mask e1 = env_mask e2 ->
        r_gas_exhausted (evm e1 v) = false -> r_gas_exhausted (evm e2 v) = false ->
        same_answer (evm e1 v) (evm e2 v).

    Lemma sim_predicts_tx :
      insensitive ->
      forall cf g v from kind data len txid hash ts now gas,
        let sim := evm (rpc_read_env cf g (mkTi from kind data None) None now gas) v in
        let txr := evm (rpc_tx_env cf g (OInscr (mkTi from kind data None) len txid) hash ts) v in
        r_gas_exhausted sim = false -> r_gas_exhausted txr = false -> same_answer sim txr.
    Proof.
      intros Hi cf g v from kind data len txid hash ts now gas sim txr H1 H2.
      apply Hi; [apply env_sim_vs_tx|exact H1|exact H2].
    Qed.
  End Oracle.

  (* ---------------------------------------------------------------- C19: blockhash_view *)
  Lemma blockhash_view (t : btable N) n :
    block_hash_view t n =
      match kv_get (b_cache t) n with
      | Some h => h
      | None => match kv_get (b_db t) n with Some h => h | None => 0 end
      end.
  Proof. unfold block_hash_view, b_get. destruct (kv_get (b_cache t) n); reflexivity. Qed.

  (* a finalised block's hash is visible before any commit, a committed one after the cache
     is dropped, an absent one reads zero *)
  Lemma blockhash_uncommitted (t : btable N) n h : block_hash_view (b_set t n h) n = h.
  Proof. unfold block_hash_view, b_get, b_set. cbn. rewrite kv_get_put_same. reflexivity. Qed.

  Lemma blockhash_absent (t : btable N) n :
    kv_get (b_cache t) n = None -> kv_get (b_db t) n = None -> block_hash_view t n = 0.
  Proof. intros H1 H2. rewrite blockhash_view, H1, H2. reflexivity. Qed.
End EnvP.
