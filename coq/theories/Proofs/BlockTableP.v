(* Proofs about the block-keyed table (BlockDatabase). *)
From Brc.Model Require Import Base Table BlockTable.
From Brc.Proofs Require Import KvP.

Arguments N.leb : simpl never.
Arguments N.ltb : simpl never.
Arguments N.eqb : simpl never.

Section BlockTableP.
  Context {V : Type}.
  Notation btable := (btable V).

  Lemma kv_get_filter_le (m : list (N * V)) n k :
    kv_get (filter (fun e => fst e <=? n) m) k = if k <=? n then kv_get m k else None.
  Proof.
    induction m as [|[k0 a0] t IH]; cbn [filter kv_get fst].
    - destruct (k <=? n); reflexivity.
    - destruct (N.leb_spec k0 n) as [Hle|Hgt]; cbn [kv_get].
      + destruct (N.eqb_spec k0 k) as [<-|Hne]; [|exact IH].
        destruct (N.leb_spec k0 n); [reflexivity|lia].
      + rewrite IH. destruct (N.eqb_spec k0 k) as [<-|Hne]; [|reflexivity].
        destruct (N.leb_spec k0 n); [lia|reflexivity].
  Qed.

  Lemma kv_get_fold_put (c d : list (N * V)) k :
    NoDup (map fst c) ->
    kv_get (fold_left (fun d e => kv_put d (fst e) (snd e)) c d) k =
      match kv_get c k with Some v => Some v | None => kv_get d k end.
  Proof.
    revert d. induction c as [|[k0 a0] t IH]; intros d Hnd; cbn [fold_left kv_get fst snd]; [reflexivity|].
    cbn [map fst] in Hnd. inversion Hnd as [|? ? Hnot Hnd']; subst.
    rewrite (IH _ Hnd'). rewrite kv_get_put.
    destruct (N.eqb_spec k0 k) as [<-|Hne]; [|reflexivity].
    destruct (kv_get t k0) eqn:E; [|reflexivity].
    exfalso. apply Hnot. apply kv_get_in_keys. congruence.
  Qed.

  (* committing and dropping the cache does not change any read *)
  Theorem b_get_commit_clear (t : btable) k :
    NoDup (map fst (b_cache t)) -> b_get (b_clear (b_commit t)) k = b_get t k.
  Proof.
    intros Hnd. unfold b_get, b_clear, b_commit. cbn [b_db b_cache kv_get].
    rewrite (kv_get_fold_put _ _ _ Hnd). reflexivity.
  Qed.

  Theorem b_get_commit (t : btable) k : b_get (b_commit t) k = b_get t k.
  Proof. unfold b_get, b_commit. cbn [b_db b_cache]. destruct (kv_get (b_cache t) k) eqn:E; [reflexivity|].
    (* not cached: the database row is unchanged *)
    generalize (b_db t) as d. induction (b_cache t) as [|[k0 a0] c IH]; intros d; [reflexivity|].
    cbn [kv_get] in E. destruct (N.eqb_spec k0 k) as [->|Hne]; [discriminate|].
    cbn [fold_left fst snd]. rewrite (IH E). rewrite kv_get_put.
    destruct (N.eqb_spec k0 k); [congruence|reflexivity].
  Qed.

  Theorem b_get_reorg (t : btable) n k :
    b_get (b_reorg t n) k = if k <=? n then b_get t k else None.
  Proof.
    unfold b_get, b_reorg. cbn [b_db b_cache]. rewrite !kv_get_filter_le.
    destruct (k <=? n); reflexivity.
  Qed.

  Theorem b_get_set (t : btable) n v k :
    b_get (b_set t n v) k = if n =? k then Some v else b_get t k.
  Proof.
    unfold b_get, b_set. cbn [b_db b_cache]. rewrite kv_get_put.
    destruct (n =? k); reflexivity.
  Qed.

  Lemma kv_get_fold_put_other (l d : list (N * V)) x :
    (forall e, In e l -> fst e <> x) ->
    kv_get (fold_left (fun d e => kv_put d (fst e) (snd e)) l d) x = kv_get d x.
  Proof.
    revert d. induction l as [|e l IH]; intros d H; [reflexivity|].
    cbn [fold_left]. rewrite IH by (intros e' He'; apply H; right; assumption).
    rewrite kv_get_put. destruct (N.eqb_spec (fst e) x) as [E|E]; [|reflexivity].
    exfalso. apply (H e (or_introl eq_refl) E).
  Qed.

  (* a crash after any number of the puts of commit(), then reopen and a reorg to n below every
     row that was being committed: the rows up to n are exactly the durable ones *)
  Theorem b_crash_in_commit_then_reorg (t : btable) k n x :
    (forall e, In e (b_cache t) -> n < fst e) ->
    b_get (b_reorg (mkBTable (fold_left (fun d e => kv_put d (fst e) (snd e)) (firstn k (b_cache t)) (b_db t)) []) n) x
    = if x <=? n then kv_get (b_db t) x else None.
  Proof.
    intros H. rewrite b_get_reorg. destruct (N.leb_spec x n) as [Hx|Hx]; [|reflexivity].
    unfold b_get. cbn [b_cache b_db kv_get]. apply kv_get_fold_put_other.
    intros e He.
    assert (Hin : In e (b_cache t)).
    { clear -He. revert k He. induction (b_cache t) as [|a l IH]; intros k He; destruct k; cbn [firstn] in He; try (destruct He; fail).
      destruct He as [<-|He]; [left; reflexivity|right; apply (IH k He)]. }
    specialize (H e Hin). lia.
  Qed.
End BlockTableP.
