(* What an ACCEPTED C13 correspondence case means.  [Tie13.h_check] / [Tie13.t_check] replay
   the operations the harness executed on the real BlockHistoryCacheData / BlockCachedDatabase
   and compare what the implementation reported after every operation with the model.  If a
   case in which the implementation never panicked is accepted, the model runs the whole
   sequence without error and the implementation's LAST report is literally the model's
   state (history entries) resp. the model's answers (latest / range scans / full scan), so
   the refinement theorems of Props/C13.v apply to what the implementation answered. *)
From Brc.Model Require Import Base History Table BlockTable Tie13.

Lemma opt_eqb_N_eq (a b : option N) : opt_eqb N.eqb a b = true -> a = b.
Proof.
  destruct a as [a|], b as [b|]; cbn [opt_eqb]; try discriminate; try reflexivity.
  intros H. apply N.eqb_eq in H. subst. reflexivity.
Qed.

Lemma entry_eqb_eq a b : entry_eqb a b = true -> a = b.
Proof.
  destruct a as [a1 a2], b as [b1 b2]. unfold entry_eqb. cbn [fst snd].
  intros H. apply andb_prop in H. destruct H as [H1 H2].
  apply N.eqb_eq in H1. apply opt_eqb_N_eq in H2. subst. reflexivity.
Qed.

Lemma list_eqb_eq {A} (e : A -> A -> bool) (He : forall x y, e x y = true -> x = y) :
  forall a b, list_eqb e a b = true -> a = b.
Proof.
  induction a as [|x a IH]; destruct b as [|y b]; cbn [list_eqb]; try discriminate; try reflexivity.
  intros H. apply andb_prop in H. destruct H as [H1 H2].
  rewrite (He _ _ H1), (IH _ H2). reflexivity.
Qed.

Lemma last_cons_default {A} (l : list A) : forall x d d', last (x :: l) d = last (x :: l) d'.
Proof.
  induction l as [|y l IH]; intros x d d'; [reflexivity|].
  change (last (x :: y :: l) d) with (last (y :: l) d).
  change (last (x :: y :: l) d') with (last (y :: l) d'). apply IH.
Qed.

(* history object: every report is [Some entries] (no panic) *)
Theorem h_check_accepts W : forall ops h (es : list ohist),
  h_check W h ops (map Some es) = true ->
  exists h', h_run N.eqb W h ops = Ok h' /\ h' = last es h /\ length es = length ops.
Proof.
  induction ops as [|o r IH]; intros h es Hc.
  - destruct es as [|e es]; cbn [map h_check] in Hc; [|discriminate].
    exists h. repeat split.
  - destruct es as [|e es]; cbn [map h_check] in Hc; [discriminate|].
    cbn [h_run]. destruct (h_step N.eqb W h o) as [h1| |]; try discriminate.
    apply andb_prop in Hc. destruct Hc as [He Hr].
    apply (list_eqb_eq entry_eqb entry_eqb_eq) in He. subst e.
    destruct (IH h1 es Hr) as (h' & Hrun & Hlast & Hlen).
    exists h'. cbn [rbind]. split; [exact Hrun|]. split.
    + rewrite Hlast. destruct es as [|e2 es]; [reflexivity|].
      change (last (h1 :: e2 :: es) h) with (last (e2 :: es) h). apply last_cons_default.
    + cbn [length]. rewrite Hlen. reflexivity.
Qed.

(* versioned table: the model's observation after the whole sequence is the implementation's *)
Theorem t_check_accepts W keys ranges : forall ops t (es : list tobs) e,
  t_check W t keys ranges ops (map Some (es ++ [e])) = true ->
  exists t' m, t_run N.eqb W t ops = Ok t' /\ t_observe t' keys ranges = Some m /\ tobs_eqb m e = true.
Proof.
  induction ops as [|o r IH]; intros t es e Hc.
  - destruct es; cbn [app map t_check] in Hc; discriminate.
  - destruct es as [|e1 es]; cbn [app map t_check] in Hc; cbn [t_run].
    + destruct (t_step N.eqb W t o) as [t1| |]; try discriminate.
      destruct (t_observe t1 keys ranges) as [m|] eqn:Em; [|discriminate].
      apply andb_prop in Hc. destruct Hc as [He Hr].
      destruct r as [|o2 r]; [|cbn [t_check] in Hr; discriminate].
      exists t1, m. cbn [rbind t_run]. repeat split; assumption.
    + destruct (t_step N.eqb W t o) as [t1| |]; try discriminate.
      destruct (t_observe t1 keys ranges) as [m|]; [|discriminate].
      apply andb_prop in Hc. destruct Hc as [_ Hr].
      destruct (IH t1 es e Hr) as (t' & m' & Hrun & Hobs & Heq).
      exists t', m'. cbn [rbind]. repeat split; assumption.
Qed.
