(* Proofs about Model/Nada.v: the encoder never panics, its output is a byte string, the
   decoder inverts it (state-machine invariant), and what decode_with_limit accepts. *)
From Brc.Model Require Import Base Base64 Nada.
From Brc.Proofs Require Import Base64P.

Arguments N.add : simpl never.
Arguments N.sub : simpl never.
Arguments N.mul : simpl never.
Arguments N.ltb : simpl never.
Arguments N.leb : simpl never.
Arguments N.eqb : simpl never.
Arguments N.to_nat : simpl never.

Definition ffs (n : N) : list N := repeat 255 (N.to_nat n).
Definition st (o : list N) : dec := {| d_out := o; d_wait := false |}.

Lemma zeros_0 : zeros 0 = []. Proof. reflexivity. Qed.
Lemma ffs_0 : ffs 0 = []. Proof. reflexivity. Qed.
Lemma zeros_succ n : zeros (n + 1) = zeros n ++ [0].
Proof.
  unfold zeros. replace (N.to_nat (n + 1)) with (S (N.to_nat n)) by lia.
  cbn [repeat]. apply repeat_cons.
Qed.
Lemma ffs_succ n : ffs (n + 1) = ffs n ++ [255].
Proof.
  unfold ffs. replace (N.to_nat (n + 1)) with (S (N.to_nat n)) by lia.
  cbn [repeat]. apply repeat_cons.
Qed.
Lemma len_zeros n : len (zeros n) = n.
Proof. unfold len, zeros. rewrite repeat_length. lia. Qed.

(* ---- decoder: runs compose ---- *)
Lemma dec_run_app d l1 l2 :
  dec_run d (l1 ++ l2) = (do d' <- dec_run d l1; dec_run d' l2).
Proof.
  revert d. induction l1 as [|a l1 IH]; intros d; cbn [dec_run app rbind]; [reflexivity|].
  destruct (dec_feed d a); cbn [rbind]; auto.
Qed.

Lemma dec_lit o b : b <> 255 -> dec_run (st o) [b] = Ok (st (o ++ [b])).
Proof.
  intros H. cbn [dec_run]. unfold dec_feed, st. cbn [d_wait d_out].
  apply N.eqb_neq in H. rewrite H. reflexivity.
Qed.

Lemma dec_esc o n :
  dec_run (st o) [255; n] =
  if n =? 0 then Err
  else if n =? 1 then Ok (st (o ++ [255]))
  else if n =? 2 then Ok (st (o ++ [255; 255]))
  else Ok (st (o ++ zeros n)).
Proof.
  cbn [dec_run]. unfold dec_feed at 1. unfold st. cbn [d_wait d_out].
  rewrite N.eqb_refl. cbn [rbind]. unfold dec_feed. cbn [d_wait d_out].
  destruct (n =? 0); [reflexivity|]. destruct (n =? 1); [reflexivity|].
  destruct (n =? 2); reflexivity.
Qed.

(* ---- the two flushes, seen through the decoder ---- *)
Lemma flush_zeroes_spec e o :
  dec_run dec_new (e_out e) = Ok (st o) ->
  dec_run dec_new (e_out (flush_zeroes e)) = Ok (st (o ++ zeros (e_zero e)))
  /\ e_zero (flush_zeroes e) = 0 /\ e_ff (flush_zeroes e) = e_ff e.
Proof.
  intros H. unfold flush_zeroes.
  destruct (N.eqb_spec (e_zero e) 0) as [E0|N0].
  { rewrite E0, zeros_0, app_nil_r. auto. }
  destruct (N.eqb_spec (e_zero e) 1) as [E1|N1].
  { cbn [e_out e_zero e_ff]. rewrite dec_run_app, H. cbn [rbind]. rewrite E1.
    rewrite dec_lit by lia. auto. }
  destruct (N.eqb_spec (e_zero e) 2) as [E2|N2].
  { cbn [e_out e_zero e_ff]. rewrite dec_run_app, H. cbn [rbind]. rewrite E2.
    change [0; 0] with ([0] ++ [0]). rewrite dec_run_app, dec_lit by lia. cbn [rbind].
    rewrite dec_lit by lia. rewrite <- app_assoc. auto. }
  cbn [e_out e_zero e_ff]. rewrite dec_run_app, H. cbn [rbind]. rewrite dec_esc.
  apply N.eqb_neq in N0, N1, N2. rewrite N0, N1, N2. auto.
Qed.

Lemma flush_ff_spec e o :
  e_ff e <= 2 -> dec_run dec_new (e_out e) = Ok (st o) ->
  exists e', flush_ff e = Ok e'
    /\ dec_run dec_new (e_out e') = Ok (st (o ++ ffs (e_ff e)))
    /\ e_ff e' = 0 /\ e_zero e' = e_zero e.
Proof.
  intros L H. unfold flush_ff.
  destruct (N.eqb_spec (e_ff e) 0) as [E0|N0].
  { exists e. rewrite E0, ffs_0, app_nil_r. auto. }
  destruct (N.eqb_spec (e_ff e) 1) as [E1|N1].
  { eexists. split; [reflexivity|]. cbn [e_out e_zero e_ff].
    rewrite dec_run_app, H. cbn [rbind]. rewrite dec_esc, E1. auto. }
  destruct (N.eqb_spec (e_ff e) 2) as [E2|N2].
  { eexists. split; [reflexivity|]. cbn [e_out e_zero e_ff].
    rewrite dec_run_app, H. cbn [rbind]. rewrite dec_esc, E2. auto. }
  lia.
Qed.

(* ---- the encoder invariant: what has been consumed = what the decoder makes of the output
        so far, followed by the pending runs ---- *)
Definition Repr (e : enc) (p : list N) : Prop :=
  exists o, dec_run dec_new (e_out e) = Ok (st o)
    /\ p = o ++ zeros (e_zero e) ++ ffs (e_ff e)
    /\ e_zero e < 255 /\ e_ff e < 2 /\ (e_zero e = 0 \/ e_ff e = 0).

Lemma Repr_new : Repr enc_new [].
Proof. exists []. cbn. repeat split; auto; lia. Qed.

Lemma Repr_flush e p :
  Repr e p -> exists e', enc_flush e = Ok e' /\ dec_run dec_new (e_out e') = Ok (st p)
                         /\ e_zero e' = 0 /\ e_ff e' = 0.
Proof.
  intros (o & Hd & Hp & Hz & Hf & _).
  destruct (flush_zeroes_spec e o Hd) as (H1 & Z1 & F1).
  destruct (flush_ff_spec (flush_zeroes e) _ ltac:(lia) H1) as (e' & E & H2 & F2 & Z2).
  exists e'. unfold enc_flush. rewrite E, H2, F1, Hp, app_assoc. repeat split; auto. lia.
Qed.

Lemma Repr_step e p b :
  Repr e p -> exists e', enc_feed e b = Ok e' /\ Repr e' (p ++ [b]).
Proof.
  intros R. unfold enc_feed.
  destruct (N.eqb_spec b 0) as [B0|NB0].
  - (* feed_zero *)
    destruct R as (o & Hd & Hp & Hz & Hf & Hx). subst b. unfold feed_zero.
    destruct (flush_ff_spec e o ltac:(lia) Hd) as (e1 & E1 & H1 & F1 & Z1).
    rewrite E1. cbn [rbind].
    replace (255 <=? e_zero e1) with false by (symmetry; apply N.leb_gt; lia).
    assert (EQ : (o ++ ffs (e_ff e)) ++ zeros (e_zero e + 1) = p ++ [0]).
    { rewrite Hp, zeros_succ. destruct Hx as [Hx|Hx]; rewrite Hx.
      - rewrite zeros_0. cbn [app]. now rewrite <- !app_assoc.
      - rewrite ffs_0, !app_nil_r. now rewrite <- app_assoc. }
    cbn [e_zero e_ff e_out]. rewrite Z1.
    destruct (N.eqb_spec (e_zero e + 1) 255) as [E255|N255].
    + eexists. split; [reflexivity|].
      set (e2 := {| e_zero := e_zero e + 1; e_ff := e_ff e1; e_out := e_out e1 |}).
      destruct (flush_zeroes_spec e2 _ H1) as (H2 & Z2 & F2).
      exists ((o ++ ffs (e_ff e)) ++ zeros (e_zero e2)). split; [exact H2|].
      rewrite Z2, F2. subst e2. cbn [e_zero e_ff]. rewrite F1, zeros_0, ffs_0, !app_nil_r.
      repeat split; auto; lia.
    + eexists. split; [reflexivity|].
      exists (o ++ ffs (e_ff e)). cbn [e_zero e_ff e_out]. split; [exact H1|].
      rewrite F1, ffs_0, app_nil_r. repeat split; auto; lia.
  - destruct (N.eqb_spec b 255) as [B255|NB255].
    + (* feed_ff *)
      destruct R as (o & Hd & Hp & Hz & Hf & Hx). subst b. unfold feed_ff.
      destruct (flush_zeroes_spec e o Hd) as (H1 & Z1 & F1).
      replace (255 <=? e_ff (flush_zeroes e)) with false by (symmetry; apply N.leb_gt; lia).
      cbn [e_zero e_ff e_out]. rewrite F1, Z1.
      assert (EQ : (o ++ zeros (e_zero e)) ++ ffs (e_ff e + 1) = p ++ [255]).
      { rewrite Hp, ffs_succ. now rewrite <- !app_assoc. }
      destruct (N.eqb_spec (e_ff e + 1) 2) as [E2|N2].
      * set (e2 := {| e_zero := 0; e_ff := e_ff e + 1; e_out := e_out (flush_zeroes e) |}).
        destruct (flush_ff_spec e2 _ ltac:(subst e2; cbn [e_ff]; lia) H1) as (e3 & E3 & H3 & F3 & Z3).
        exists e3. split; [exact E3|].
        exists ((o ++ zeros (e_zero e)) ++ ffs (e_ff e2)). split; [exact H3|].
        rewrite F3, Z3. subst e2. cbn [e_zero e_ff]. rewrite zeros_0, ffs_0, !app_nil_r.
        repeat split; auto; lia.
      * eexists. split; [reflexivity|].
        exists (o ++ zeros (e_zero e)). cbn [e_zero e_ff e_out]. split; [exact H1|].
        rewrite zeros_0. cbn [app]. repeat split; auto; lia.
    + (* literal *)
      destruct (Repr_flush e p R) as (e1 & E1 & H1 & Z1 & F1).
      rewrite E1. cbn [rbind]. eexists. split; [reflexivity|].
      exists (p ++ [b]). cbn [e_zero e_ff e_out].
      rewrite dec_run_app, H1. cbn [rbind]. rewrite dec_lit by assumption.
      rewrite Z1, F1, zeros_0, ffs_0, !app_nil_r. repeat split; auto; lia.
Qed.

Lemma Repr_run l : forall e p,
  Repr e p -> exists e', enc_run e l = Ok e' /\ Repr e' (p ++ l).
Proof.
  induction l as [|b r IH]; intros e p R.
  - exists e. rewrite app_nil_r. auto.
  - destruct (Repr_step e p b R) as (e1 & E1 & R1).
    destruct (IH e1 _ R1) as (e2 & E2 & R2).
    exists e2. cbn [enc_run]. rewrite E1. cbn [rbind]. rewrite E2. split; [reflexivity|].
    now rewrite <- app_assoc in R2.
Qed.

(* decode (encode x) = Ok x, for every list (the encoder never panics) *)
Theorem nada_roundtrip : forall x, exists e, nada_encode x = Ok e /\ nada_decode e = Ok x.
Proof.
  intros x. destruct (Repr_run x enc_new [] Repr_new) as (e1 & E1 & R1). cbn [app] in R1.
  destruct (Repr_flush e1 x R1) as (e2 & E2 & H2 & _).
  exists (e_out e2). unfold nada_encode, nada_decode. rewrite E1. cbn [rbind]. rewrite E2.
  cbn [rbind]. rewrite H2. split; reflexivity.
Qed.

Corollary nada_encode_no_panic : forall x, nada_encode x <> Panic /\ nada_encode x <> Err.
Proof. intros x. destruct (nada_roundtrip x) as (e & E & _). rewrite E. split; discriminate. Qed.

(* ---- the encoder output is a byte string ---- *)
Definition Inv (e : enc) : Prop := bytes (e_out e) /\ e_zero e < 255.

Lemma bytes_app a b : bytes a -> bytes b -> bytes (a ++ b).
Proof. intros. apply Forall_app. auto. Qed.

Lemma flush_zeroes_bytes e : bytes (e_out e) -> e_zero e < 256 -> bytes (e_out (flush_zeroes e)).
Proof.
  intros H Z. unfold flush_zeroes.
  destruct (e_zero e =? 0); [assumption|].
  destruct (e_zero e =? 1); [apply bytes_app; auto; repeat constructor|].
  destruct (e_zero e =? 2); cbn [e_out]; apply bytes_app; auto; repeat constructor; unfold byte; lia.
Qed.

Lemma flush_ff_bytes e e' : flush_ff e = Ok e' -> bytes (e_out e) -> bytes (e_out e') /\ e_zero e' = e_zero e.
Proof.
  unfold flush_ff. intros H B.
  destruct (e_ff e =? 0); [inversion H; subst; auto|].
  destruct (e_ff e =? 1); [inversion H; subst; cbn [e_out e_zero]; split; auto; apply bytes_app; auto; repeat constructor|].
  destruct (e_ff e =? 2); [inversion H; subst; cbn [e_out e_zero]; split; auto; apply bytes_app; auto; repeat constructor|].
  discriminate.
Qed.

Lemma flush_zeroes_zero e : e_zero (flush_zeroes e) = 0.
Proof.
  unfold flush_zeroes. destruct (N.eqb_spec (e_zero e) 0); [assumption|].
  destruct (e_zero e =? 1); [reflexivity|]. destruct (e_zero e =? 2); reflexivity.
Qed.

Lemma Inv_step e b e' : Inv e -> byte b -> enc_feed e b = Ok e' -> Inv e'.
Proof.
  intros [B Z] Hb. unfold enc_feed.
  destruct (b =? 0).
  - unfold feed_zero. destruct (flush_ff e) as [e1| |] eqn:E1; cbn [rbind]; try discriminate.
    destruct (flush_ff_bytes _ _ E1 B) as [B1 Z1].
    destruct (255 <=? e_zero e1); [discriminate|]. cbn [e_zero e_ff e_out].
    destruct (N.eqb_spec (e_zero e1 + 1) 255) as [E|NE]; intros H; inversion H; subst; clear H.
    + split; [|rewrite flush_zeroes_zero; lia].
      apply flush_zeroes_bytes; cbn [e_out e_zero]; [assumption|lia].
    + split; cbn [e_out e_zero]; [assumption|lia].
  - destruct (b =? 255).
    + unfold feed_ff. destruct (255 <=? e_ff (flush_zeroes e)); [discriminate|].
      cbn [e_zero e_ff e_out].
      assert (B1 : bytes (e_out (flush_zeroes e))) by (apply flush_zeroes_bytes; [assumption|lia]).
      destruct (e_ff (flush_zeroes e) + 1 =? 2).
      * intros H. destruct (flush_ff_bytes _ _ H B1) as [B2 Z2]. split; [assumption|].
        rewrite Z2. cbn [e_zero]. rewrite flush_zeroes_zero. lia.
      * intros H. inversion H; subst; clear H. split; cbn [e_out e_zero]; [assumption|].
        rewrite flush_zeroes_zero. lia.
    + unfold enc_flush. destruct (flush_ff (flush_zeroes e)) as [e1| |] eqn:E1; cbn [rbind]; try discriminate.
      assert (B1 : bytes (e_out (flush_zeroes e))) by (apply flush_zeroes_bytes; [assumption|lia]).
      destruct (flush_ff_bytes _ _ E1 B1) as [B2 Z2].
      intros H. inversion H; subst; clear H. cbn [e_out e_zero]. split.
      * cbn [e_out]. apply bytes_app; auto. repeat constructor. assumption.
      * cbn [e_zero]. rewrite Z2, flush_zeroes_zero. lia.
Qed.

Lemma Inv_run l : forall e e', Inv e -> bytes l -> enc_run e l = Ok e' -> Inv e'.
Proof.
  induction l as [|b r IH]; intros e e' I B H; cbn [enc_run] in H.
  - inversion H; subst; assumption.
  - inversion B; subst. destruct (enc_feed e b) as [e1| |] eqn:E1; cbn [rbind] in H; try discriminate.
    apply (IH e1 e'); [eapply Inv_step; eauto|assumption|assumption].
Qed.

Theorem nada_encode_bytes : forall x e, bytes x -> nada_encode x = Ok e -> bytes e.
Proof.
  intros x e B. unfold nada_encode.
  destruct (enc_run enc_new x) as [e1| |] eqn:E1; cbn [rbind]; try discriminate.
  assert (I1 : Inv e1).
  { eapply Inv_run; eauto. split; [constructor|cbn; lia]. }
  unfold enc_flush. destruct (flush_ff (flush_zeroes e1)) as [e2| |] eqn:E2; cbn [rbind]; try discriminate.
  intros H. inversion H; subst; clear H. destruct I1 as [B1 Z1].
  eapply flush_ff_bytes; eauto. apply flush_zeroes_bytes; [assumption|lia].
Qed.

(* ---- the decoder: never panics, output grows, decode_with_limit ---- *)
Lemma dec_feed_no_panic d b : dec_feed d b <> Panic.
Proof.
  unfold dec_feed. destruct (d_wait d).
  - destruct (b =? 0); [discriminate|]. destruct (b =? 1); [discriminate|].
    destruct (b =? 2); discriminate.
  - destruct (b =? 255); discriminate.
Qed.

Lemma dec_feed_mono d b d' : dec_feed d b = Ok d' -> len (d_out d) <= len (d_out d').
Proof.
  unfold dec_feed. destruct (d_wait d).
  - destruct (b =? 0); [discriminate|].
    destruct (b =? 1); [intros H; inversion H; cbn [d_out]; rewrite len_app; lia|].
    destruct (b =? 2); intros H; inversion H; cbn [d_out]; rewrite len_app; lia.
  - destruct (b =? 255); intros H; inversion H; cbn [d_out]; [lia|rewrite len_app; lia].
Qed.

Lemma dec_run_mono l : forall d d', dec_run d l = Ok d' -> len (d_out d) <= len (d_out d').
Proof.
  induction l as [|b r IH]; intros d d' H; cbn [dec_run] in H.
  - inversion H; subst. lia.
  - destruct (dec_feed d b) as [d1| |] eqn:E; cbn [rbind] in H; try discriminate.
    apply dec_feed_mono in E. apply IH in H. lia.
Qed.

Lemma dec_run_no_panic l : forall d, dec_run d l <> Panic.
Proof.
  induction l as [|b r IH]; intros d; cbn [dec_run]; [discriminate|].
  destruct (dec_feed d b) eqn:E; cbn [rbind]; [apply IH|discriminate|].
  now apply dec_feed_no_panic in E.
Qed.

Lemma dec_run_lim_no_panic L l : forall d, dec_run_lim L d l <> Panic.
Proof.
  induction l as [|b r IH]; intros d; cbn [dec_run_lim]; [discriminate|].
  destruct (dec_feed d b) eqn:E; cbn [rbind]; [|discriminate|now apply dec_feed_no_panic in E].
  destruct (L <=? len (d_out a)); [discriminate|apply IH].
Qed.

Lemma dec_run_lim_iff L l : forall d d',
  dec_run_lim L d l = Ok d' <-> dec_run d l = Ok d' /\ (l = [] \/ len (d_out d') < L).
Proof.
  induction l as [|b r IH]; intros d d'; cbn [dec_run_lim dec_run].
  - split; [intros H; auto|intros [H _]; exact H].
  - destruct (dec_feed d b) as [d1| |] eqn:E; cbn [rbind].
    + destruct (N.leb_spec L (len (d_out d1))) as [GE|LT].
      * split; [discriminate|]. intros [H [H0|H1]]; [discriminate|].
        apply dec_run_mono in H. lia.
      * rewrite IH. split.
        -- intros [H [H0|H1]]; (split; [exact H|right]); [|exact H1].
           subst r. cbn [dec_run] in H. inversion H; subst. exact LT.
        -- intros [H [H0|H1]]; [discriminate|]. split; [exact H|right; exact H1].
    + split; [discriminate|intros [H _]; discriminate].
    + split; [discriminate|intros [H _]; discriminate].
Qed.

(* decode_with_limit accepts exactly what decode accepts and whose output is shorter than
   the limit (strictly), the empty input being accepted under every limit *)
Theorem nada_decode_with_limit_spec : forall l L o,
  nada_decode_with_limit l L = Ok o <-> nada_decode l = Ok o /\ (l = [] \/ len o < L).
Proof.
  intros l L o. unfold nada_decode_with_limit, nada_decode. split.
  - destruct (dec_run_lim L dec_new l) as [d| |] eqn:E; cbn [rbind]; try discriminate.
    apply dec_run_lim_iff in E. destruct E as [E1 E2]. rewrite E1. cbn [rbind].
    unfold dec_output. destruct (d_wait d); [discriminate|]. intros H; inversion H; subst. auto.
  - destruct (dec_run dec_new l) as [d| |] eqn:E; cbn [rbind]; intros [H1 H2]; try discriminate.
    assert (E' : dec_run_lim L dec_new l = Ok d).
    { apply dec_run_lim_iff. split; [exact E|]. unfold dec_output in H1.
      destruct (d_wait d); [discriminate|]. inversion H1; subst. exact H2. }
    rewrite E'. exact H1.
Qed.

Theorem nada_decode_with_limit_no_panic : forall l L, nada_decode_with_limit l L <> Panic.
Proof.
  intros l L. unfold nada_decode_with_limit.
  destruct (dec_run_lim L dec_new l) eqn:E; cbn [rbind].
  - unfold dec_output. destruct (d_wait a); discriminate.
  - discriminate.
  - now apply dec_run_lim_no_panic in E.
Qed.

Theorem nada_decode_with_limit_err : forall l L o,
  nada_decode l = Ok o -> l <> [] -> L <= len o -> nada_decode_with_limit l L = Err.
Proof.
  intros l L o H NE GE.
  destruct (nada_decode_with_limit l L) as [o'| |] eqn:E; [|reflexivity|].
  - apply nada_decode_with_limit_spec in E. destruct E as [E1 [E2|E2]]; [contradiction|].
    rewrite H in E1. inversion E1; subst. lia.
  - now apply nada_decode_with_limit_no_panic in E.
Qed.

(* ---- size: the encoding is at most twice as long as the input ---- *)
Definition cost (e : enc) : N := len (e_out e) + 2 * e_zero e + 2 * e_ff e.

Lemma flush_zeroes_cost e : cost (flush_zeroes e) <= cost e /\ e_ff (flush_zeroes e) = e_ff e.
Proof.
  unfold flush_zeroes, cost.
  destruct (N.eqb_spec (e_zero e) 0); [lia|].
  destruct (N.eqb_spec (e_zero e) 1); [cbn [e_out e_zero e_ff]; rewrite len_app; cbn; lia|].
  destruct (N.eqb_spec (e_zero e) 2); cbn [e_out e_zero e_ff]; rewrite len_app; cbn; lia.
Qed.

Lemma flush_ff_cost e e' : flush_ff e = Ok e' -> cost e' <= cost e.
Proof.
  unfold flush_ff, cost.
  destruct (N.eqb_spec (e_ff e) 0); [intros H; inversion H; subst; lia|].
  destruct (N.eqb_spec (e_ff e) 1); [intros H; inversion H; subst; cbn [e_out e_zero e_ff]; rewrite len_app; cbn; lia|].
  destruct (N.eqb_spec (e_ff e) 2); [intros H; inversion H; subst; cbn [e_out e_zero e_ff]; rewrite len_app; cbn; lia|].
  discriminate.
Qed.

Lemma enc_feed_cost e b e' : enc_feed e b = Ok e' -> cost e' <= cost e + 2.
Proof.
  unfold enc_feed. destruct (b =? 0).
  - unfold feed_zero. destruct (flush_ff e) as [e1| |] eqn:E1; cbn [rbind]; try discriminate.
    apply flush_ff_cost in E1. destruct (255 <=? e_zero e1); [discriminate|].
    set (e2 := {| e_zero := e_zero e1 + 1; e_ff := e_ff e1; e_out := e_out e1 |}).
    assert (C2 : cost e2 = cost e1 + 2) by (unfold cost, e2; cbn [e_out e_zero e_ff]; lia).
    destruct (e_zero e2 =? 255); intros H; inversion H; subst; clear H.
    + pose proof (flush_zeroes_cost e2). lia.
    + lia.
  - destruct (b =? 255).
    + unfold feed_ff. destruct (flush_zeroes_cost e) as [C1 F1].
      destruct (255 <=? e_ff (flush_zeroes e)); [discriminate|].
      set (e2 := {| e_zero := e_zero (flush_zeroes e); e_ff := e_ff (flush_zeroes e) + 1; e_out := e_out (flush_zeroes e) |}).
      assert (C2 : cost e2 = cost (flush_zeroes e) + 2) by (unfold cost, e2; cbn [e_out e_zero e_ff]; lia).
      destruct (e_ff e2 =? 2); intros H.
      * apply flush_ff_cost in H. lia.
      * inversion H; subst; clear H. lia.
    + unfold enc_flush. destruct (flush_ff (flush_zeroes e)) as [e1| |] eqn:E1; cbn [rbind]; try discriminate.
      apply flush_ff_cost in E1. destruct (flush_zeroes_cost e) as [C1 _].
      intros H; inversion H; subst; clear H. unfold cost in *. cbn [e_out e_zero e_ff].
      rewrite len_app. cbn. lia.
Qed.

Lemma enc_run_cost l : forall e e', enc_run e l = Ok e' -> cost e' <= cost e + 2 * len l.
Proof.
  induction l as [|b r IH]; intros e e' H; cbn [enc_run] in H.
  - inversion H; subst. cbn. lia.
  - destruct (enc_feed e b) as [e1| |] eqn:E1; cbn [rbind] in H; try discriminate.
    apply enc_feed_cost in E1. apply IH in H. rewrite len_cons. lia.
Qed.

Theorem nada_encode_len : forall x e, nada_encode x = Ok e -> len e <= 2 * len x.
Proof.
  intros x e. unfold nada_encode.
  destruct (enc_run enc_new x) as [e1| |] eqn:E1; cbn [rbind]; try discriminate.
  apply enc_run_cost in E1. unfold enc_flush.
  destruct (flush_ff (flush_zeroes e1)) as [e2| |] eqn:E2; cbn [rbind]; try discriminate.
  apply flush_ff_cost in E2. destruct (flush_zeroes_cost e1) as [C1 _].
  intros H; inversion H; subst; clear H. unfold cost in *. cbn [e_out e_zero e_ff enc_new] in *.
  change (len (@nil N)) with 0 in E1. lia.
Qed.

Lemma nada_encode_nil : nada_encode [] = Ok [].
Proof. reflexivity. Qed.
