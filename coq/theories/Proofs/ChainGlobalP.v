(* Global facts about the bookkeeping model (C06): whole chains built from chain_init. *)
From Brc.Model Require Import Base Chain ChainRun.
From Brc.Proofs Require Import ChainP.
Arguments N.add : simpl never.
Arguments N.leb : simpl never.
Arguments N.ltb : simpl never.
Arguments N.eqb : simpl never.

(* r is a transaction of the chain: of the block under construction or of a finalised block *)
Definition listed (c : chain) (r : txrec) : Prop :=
  In r (o_txs (c_open c)) \/ exists b, In b (c_blocks c) /\ In r (b_txs b).

Record GInv (c : chain) : Prop := {
  gi_lookup : LookupInv c;
  gi_blocks : forall b, In b (c_blocks c) -> block_coherent b = true;
  gi_by_hash : forall r, listed c r -> lookup_hash c (x_hash r) = Some r;
}.

Lemma GInv_init : GInv chain_init.
Proof.
  constructor; [exact LookupInv_init|intros b []|].
  intros r [[]|(b & [] & _)].
Qed.

Lemma lookup_hash_add c number bhash hash gas nlogs x :
  lookup_hash (add_tx c number bhash hash gas nlogs) x =
  if hash =? x then Some (mkTx hash number bhash (o_wait (c_open c)) gas
                              (checked_add_or_old (o_gas (c_open c)) gas) (o_log (c_open c)) nlogs)
  else lookup_hash c x.
Proof. unfold lookup_hash, add_tx. cbn [c_by_hash find fst snd]. destruct (hash =? x); reflexivity. Qed.

Lemma GInv_add c number bhash hash gas nlogs :
  GInv c -> lookup_hash c hash = None -> GInv (add_tx c number bhash hash gas nlogs).
Proof.
  intros [Il Ib Ih] Hfresh. constructor.
  - exact (LookupInv_add c number bhash hash gas nlogs Il Hfresh).
  - exact Ib.
  - intros r Hr. rewrite lookup_hash_add.
    assert (Hcase : r = mkTx hash number bhash (o_wait (c_open c)) gas
                           (checked_add_or_old (o_gas (c_open c)) gas) (o_log (c_open c)) nlogs \/ listed c r).
    { destruct Hr as [Hr|Hr]; [|right; right; exact Hr].
      unfold add_tx in Hr. cbn [c_open o_txs In] in Hr. destruct Hr as [<-|Hr]; [left; reflexivity|right; left; exact Hr]. }
    destruct Hcase as [->|Hl].
    + cbn [x_hash]. rewrite N.eqb_refl. reflexivity.
    + specialize (Ih r Hl). destruct (N.eqb_spec hash (x_hash r)) as [E|E]; [|exact Ih].
      rewrite <- E, Hfresh in Ih. discriminate.
Qed.

Lemma GInv_finalise c number bhash :
  GInv c -> OpenInv (c_open c) number bhash -> GInv (finalise c number bhash).
Proof.
  intros [Il Ib Ih] Io. constructor.
  - exact Il.
  - intros b [<-|Hb]; [|exact (Ib b Hb)].
    pose proof (finalise_block_coherent c number bhash Io) as H. cbn [finalise c_blocks] in H. exact (proj1 H).
  - intros r Hr. change (lookup_hash (finalise c number bhash) (x_hash r)) with (lookup_hash c (x_hash r)).
    apply Ih. destruct Hr as [[]|(b & [<-|Hb] & Hin)].
    + left. cbn [b_txs] in Hin. apply in_rev in Hin. exact Hin.
    + right. exists b. split; assumption.
Qed.

Lemma add_txs_blocks txs : forall c number bhash, c_blocks (add_txs c number bhash txs) = c_blocks c.
Proof. induction txs as [|t r IH]; intros c number bhash; cbn [add_txs fold_left]; [reflexivity|]. exact (IH _ _ _). Qed.

Lemma add_txs_hashes txs : forall c number bhash,
  map x_hash (rev (o_txs (c_open (add_txs c number bhash txs)))) =
  map x_hash (rev (o_txs (c_open c))) ++ map t_hash txs.
Proof.
  induction txs as [|t r IH]; intros c number bhash; cbn [add_txs fold_left map]; [rewrite app_nil_r; reflexivity|].
  change (fold_left _ r ?c0) with (add_txs c0 number bhash r). rewrite IH.
  unfold add_tx at 1. cbn [c_open o_txs rev]. rewrite map_app, <- app_assoc. reflexivity.
Qed.

Lemma GInv_add_txs txs : forall c number bhash,
  GInv c -> OpenInv (c_open c) number bhash -> fresh_txs c number bhash txs = true ->
  GInv (add_txs c number bhash txs) /\ OpenInv (c_open (add_txs c number bhash txs)) number bhash.
Proof.
  induction txs as [|t r IH]; intros c number bhash I Io Hf; cbn [add_txs fold_left fresh_txs] in *; [split; assumption|].
  apply andb_prop in Hf as [Hk Hf]. unfold hash_known, t_hash in Hk.
  destruct (lookup_hash c (fst (fst t))) eqn:E; [discriminate|].
  exact (IH _ number bhash (GInv_add c number bhash _ _ _ I E) (OpenInv_add c number bhash _ _ _ Io) Hf).
Qed.

Lemma run_block_eq c number bhash txs : run_block c number bhash txs = finalise (add_txs c number bhash txs) number bhash.
Proof. reflexivity. Qed.

Definition block_summary (b : blockrec) : N * N * list N := (b_number b, b_hash b, map x_hash (b_txs b)).
Definition blockin_summary (b : blockin) : N * N * list N := (bi_number b, bi_hash b, map t_hash (bi_txs b)).

Lemma run_blocks_inv bs : forall c,
  GInv c -> c_open c = open_init -> fresh_blocks c bs = true ->
  GInv (run_blocks c bs) /\ c_open (run_blocks c bs) = open_init /\
  map block_summary (c_blocks (run_blocks c bs)) = rev (map blockin_summary bs) ++ map block_summary (c_blocks c).
Proof.
  induction bs as [|b r IH]; intros c I Ho Hf; cbn [run_blocks fold_left fresh_blocks map rev] in *; [split; [exact I|split; [exact Ho|reflexivity]]|].
  apply andb_prop in Hf as [Hf1 Hf2].
  assert (Io : OpenInv (c_open c) (bi_number b) (bi_hash b)) by (rewrite Ho; apply OpenInv_init).
  destruct (GInv_add_txs _ _ _ _ I Io Hf1) as [I1 Io1].
  pose proof (GInv_finalise _ _ _ I1 Io1) as I2. rewrite <- run_block_eq in I2.
  destruct (IH _ I2 eq_refl Hf2) as (I3 & Ho3 & Hs).
  change (fold_left _ r ?c0) with (run_blocks c0 r).
  split; [exact I3|]. split; [exact Ho3|]. rewrite Hs, <- app_assoc. f_equal.
  rewrite run_block_eq. cbn [finalise c_blocks map app]. f_equal; [|rewrite add_txs_blocks; reflexivity].
  unfold block_summary, blockin_summary. cbn [b_number b_hash b_txs]. f_equal.
  rewrite add_txs_hashes, Ho. reflexivity.
Qed.

(* C06 over whole chains *)
Theorem chain_coherent_run bs number bhash txs :
  fresh_blocks chain_init bs = true ->
  fresh_txs (run_blocks chain_init bs) number bhash txs = true ->
  let c := add_txs (run_blocks chain_init bs) number bhash txs in
  LookupInv c /\
  (forall b, In b (c_blocks c) -> block_coherent b = true) /\
  map block_summary (c_blocks c) = rev (map blockin_summary bs) /\
  (forall r, (In r (o_txs (c_open c)) \/ exists b, In b (c_blocks c) /\ In r (b_txs b)) ->
             lookup_hash c (x_hash r) = Some r) /\
  OpenInv (c_open c) number bhash /\
  map x_hash (rev (o_txs (c_open c))) = map t_hash txs.
Proof.
  intros Hf1 Hf2 c.
  destruct (run_blocks_inv bs chain_init GInv_init eq_refl Hf1) as (I & Ho & Hs).
  assert (Io : OpenInv (c_open (run_blocks chain_init bs)) number bhash) by (rewrite Ho; apply OpenInv_init).
  destruct (GInv_add_txs _ _ _ _ I Io Hf2) as [[Il Ib Ih] Io1]. fold c in Il, Ib, Ih, Io1.
  split; [exact Il|]. split; [exact Ib|]. split.
  { subst c. rewrite add_txs_blocks, Hs. cbn [chain_init c_blocks map]. apply app_nil_r. }
  split; [exact Ih|]. split; [exact Io1|].
  subst c. rewrite add_txs_hashes, Ho. reflexivity.
Qed.

(* heights contiguous, parent hashes chained *)
Lemma run_blocks_linked bs : forall c start,
  contiguous start bs = true -> linked (c_blocks c) = true ->
  match c_blocks c with [] => True | b :: _ => b_number b + 1 = start end ->
  linked (c_blocks (run_blocks c bs)) = true /\
  map b_number (c_blocks (run_blocks c bs)) = rev (map N.of_nat (seq (N.to_nat start) (length bs))) ++ map b_number (c_blocks c).
Proof.
  induction bs as [|b r IH]; intros c start Hc Hl Hd; cbn [run_blocks fold_left contiguous length seq map rev] in *; [split; [exact Hl|reflexivity]|].
  apply andb_prop in Hc as [Hn Hc]. apply N.eqb_eq in Hn.
  change (fold_left _ r ?c0) with (run_blocks c0 r).
  set (c1 := run_block c (bi_number b) (bi_hash b) (bi_txs b)).
  assert (Hb1 : c_blocks c1 = mkBlock start (bi_hash b) (parent_of (add_txs c (bi_number b) (bi_hash b) (bi_txs b)) start)
                                       (o_gas (c_open (add_txs c (bi_number b) (bi_hash b) (bi_txs b))))
                                       (rev (o_txs (c_open (add_txs c (bi_number b) (bi_hash b) (bi_txs b))))) :: c_blocks c).
  { subst c1. rewrite run_block_eq. cbn [finalise c_blocks]. rewrite add_txs_blocks, Hn. reflexivity. }
  assert (Hl1 : linked (c_blocks c1) = true).
  { rewrite Hb1. cbn [linked]. rewrite Hl, andb_true_r. unfold parent_of. rewrite add_txs_blocks.
    destruct (c_blocks c) as [|b0 t] eqn:Eb; cbn [b_parent b_number].
    - destruct (start =? 0); cbn [find]; reflexivity.
    - destruct (N.eqb_spec start 0) as [E0|E0]; [lia|]. cbn [find].
      replace (start - 1) with (b_number b0) by lia. rewrite N.eqb_refl.
      apply andb_true_intro. split; apply N.eqb_eq; [lia|reflexivity]. }
  destruct (IH c1 (start + 1) Hc Hl1 ltac:(rewrite Hb1; cbn [b_number]; reflexivity)) as (Hl2 & Hm).
  split; [exact Hl2|]. rewrite Hm, Hb1. cbn [map b_number]. rewrite <- app_assoc. cbn [app].
  replace (N.to_nat (start + 1)) with (S (N.to_nat start)) by lia. rewrite N2Nat.id. reflexivity.
Qed.

Theorem chain_linked_run bs start :
  contiguous start bs = true ->
  let c := run_blocks chain_init bs in
  linked (c_blocks c) = true /\
  map b_number (c_blocks c) = rev (map N.of_nat (seq (N.to_nat start) (length bs))).
Proof.
  intros Hc c. destruct (run_blocks_linked bs chain_init start Hc eq_refl I) as (H1 & H2).
  split; [exact H1|]. subst c. rewrite H2. cbn [chain_init c_blocks map]. apply app_nil_r.
Qed.

(* with contiguous heights the (block, index) table is complete: every transaction of every
   finalised block is found under its block number and index *)
Record BiInv (c : chain) (number : N) : Prop := {
  bi_below : forall b, In b (c_blocks c) -> b_number b < number;
  bi_fin : forall b r, In b (c_blocks c) -> In r (b_txs b) ->
             x_block r = b_number b /\ lookup_bi c (b_number b) (x_idx r) = Some (x_hash r);
  bi_open : forall r, In r (o_txs (c_open c)) ->
             x_block r = number /\ x_idx r < o_wait (c_open c) /\ lookup_bi c number (x_idx r) = Some (x_hash r);
}.

Lemma lookup_bi_add c number bhash hash gas nlogs b i :
  lookup_bi (add_tx c number bhash hash gas nlogs) b i =
  if (number =? b) && (o_wait (c_open c) =? i) then Some hash else lookup_bi c b i.
Proof.
  unfold lookup_bi, add_tx. cbn [c_by_bi find fst snd].
  destruct ((number =? b) && (o_wait (c_open c) =? i)); reflexivity.
Qed.

Lemma BiInv_add c number bhash hash gas nlogs :
  BiInv c number -> BiInv (add_tx c number bhash hash gas nlogs) number.
Proof.
  intros [Hb Hf Ho]. constructor.
  - exact Hb.
  - intros b r Hin Hr. destruct (Hf b r Hin Hr) as [H1 H2]. split; [exact H1|].
    rewrite lookup_bi_add. specialize (Hb b Hin).
    destruct (N.eqb_spec number (b_number b)); [lia|]. exact H2.
  - intros r Hr. unfold add_tx in Hr |- *. cbn [c_open o_txs o_wait In] in Hr |- *.
    fold (add_tx c number bhash hash gas nlogs). rewrite lookup_bi_add, N.eqb_refl. cbn [andb].
    destruct Hr as [<-|Hr].
    + cbn [x_block x_idx x_hash]. rewrite N.eqb_refl. repeat split. lia.
    + destruct (Ho r Hr) as (H1 & H2 & H3). destruct (N.eqb_spec (o_wait (c_open c)) (x_idx r)); [lia|].
      repeat split; [exact H1|lia|exact H3].
Qed.

Lemma BiInv_finalise c number bhash : BiInv c number -> BiInv (finalise c number bhash) (number + 1).
Proof.
  intros [Hb Hf Ho]. constructor.
  - intros b [<-|Hin]; [cbn [b_number]; lia|]. specialize (Hb b Hin). lia.
  - intros b r [<-|Hin] Hr.
    + cbn [b_txs b_number] in *. apply in_rev in Hr. destruct (Ho r Hr) as (H1 & _ & H3). split; [exact H1|exact H3].
    + exact (Hf b r Hin Hr).
  - intros r [].
Qed.

Lemma BiInv_add_txs txs : forall c number bhash, BiInv c number -> BiInv (add_txs c number bhash txs) number.
Proof.
  induction txs as [|t r IH]; intros c number bhash I; cbn [add_txs fold_left]; [exact I|].
  exact (IH _ number bhash (BiInv_add c number bhash _ _ _ I)).
Qed.

Lemma run_blocks_BiInv bs : forall c start,
  contiguous start bs = true -> c_open c = open_init -> BiInv c start ->
  BiInv (run_blocks c bs) (start + N.of_nat (length bs)).
Proof.
  induction bs as [|b r IH]; intros c start Hc Ho I; cbn [run_blocks fold_left contiguous length] in *.
  - change (N.of_nat 0) with 0. rewrite N.add_0_r. exact I.
  - apply andb_prop in Hc as [Hn Hc]. apply N.eqb_eq in Hn. rewrite Hn.
    change (fold_left _ r ?c0) with (run_blocks c0 r). rewrite Nat2N.inj_succ.
    replace (start + N.succ (N.of_nat (length r))) with (start + 1 + N.of_nat (length r)) by lia.
    apply IH; [exact Hc|reflexivity|]. rewrite run_block_eq. apply BiInv_finalise, BiInv_add_txs. exact I.
Qed.

Theorem chain_index_complete bs start :
  contiguous start bs = true ->
  let c := run_blocks chain_init bs in
  forall b r, In b (c_blocks c) -> In r (b_txs b) ->
    x_block r = b_number b /\ lookup_bi c (b_number b) (x_idx r) = Some (x_hash r).
Proof.
  intros Hc c. apply (bi_fin c _ (run_blocks_BiInv bs chain_init start Hc eq_refl
    ltac:(constructor; [intros b []|intros b r []|intros r []]))).
Qed.
