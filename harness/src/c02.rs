//! C02: the same call history in two OS processes (different SipHash seeds of every
//! std HashMap, different database directories, one of them committed + restarted half-way)
//! must produce identical observations at every block boundary; and a fixed corpus must
//! reproduce the digests pinned in /verif/golden for its protocol version.
use std::collections::BTreeMap;
use std::path::{Path, PathBuf};

use serde_json::{json, Value};

use crate::rng::Rng;
use crate::sim::{canon, gen_history, with_schedule, CommitSchedule, GenParams, Genesis, Op, Run};

fn boundary(op: &Op) -> bool { matches!(op, Op::Finalise { .. } | Op::Mine { .. } | Op::Initialise { .. } | Op::Commit | Op::Clear | Op::Reorg(_)) }

/// child: run the history, observe at every boundary; optionally commit + reopen after op `restart`
pub fn child(args: &[String]) -> Result<(), Box<dyn std::error::Error>> {
    let get = |n: &str| args.iter().position(|a| a == n).and_then(|i| args.get(i + 1).cloned());
    let hist: Vec<Op> = serde_json::from_str(&std::fs::read_to_string(get("--history").ok_or("--history")?)?)?;
    let restart: Option<usize> = get("--restart").and_then(|s| s.parse().ok());
    let requests: Option<Vec<Value>> = get("--requests").map(|f| serde_json::from_str(&std::fs::read_to_string(f).unwrap()).unwrap());
    let outp = PathBuf::from(get("--obs").ok_or("--obs")?);
    let mut run = Run::new();
    let mut obs: Vec<Value> = Vec::new();
    for (i, op) in hist.iter().enumerate() {
        let o = run.step(op).clone();
        if o.status.is_fatal() { obs.push(json!({"fatal": o.status.class()})); break; }
        // results of the indexer calls themselves are part of the observation
        let mut entry = json!({"op": i, "status": o.status.class(), "result": canon(&o.result)});
        if boundary(op) && run.tracker.at_boundary() && !run.tracker.desynced {
            if Some(i) == restart {
                // after a clearCaches (or a commit) of the common history a restart is state-neutral as it is;
                // anywhere else the restarted replica commits first
                if !matches!(op, Op::Clear | Op::Commit) { let _ = run.step(&Op::Commit); }
                let _ = run.step(&Op::Reopen);
            }
            if requests.is_none() { entry["observation"] = json!(run.observe()); }
        }
        obs.push(entry);
    }
    if let Some(reqs) = requests {
        let mut answers = Vec::new();
        for r in reqs {
            let a = run.inst.rpc(r[0].as_str().unwrap_or(""), r[1].clone());
            answers.push(match a { Ok(v) => json!({"ok": canon(&v)}), Err(e) => json!({"err": format!("{:?}", e)}) });
        }
        obs.push(json!({"answers": answers}));
    }
    std::fs::write(outp, serde_json::to_string(&obs)?)?;
    Ok(())
}

fn zero_mine_timestamp(v: &mut Value) {
    match v {
        Value::Object(m) => { for (k, x) in m.iter_mut() { if k == "mineTimestamp" { *x = json!("0x0"); } else { zero_mine_timestamp(x); } } }
        Value::Array(a) => for x in a { zero_mine_timestamp(x); },
        _ => {}
    }
}

fn run_child(hist_file: &Path, obs_file: &Path, restart: Option<usize>, requests: Option<&Path>) -> Option<Vec<Value>> {
    run_child_cfg(hist_file, obs_file, restart, requests, false)
}

/// answers that exist only on a replica that records traces
fn drop_trace_answers(v: &mut Value) {
    match v {
        Value::Object(m) => {
            let ks: Vec<String> = m.keys().filter(|k| k.to_lowercase().contains("trace")).cloned().collect();
            for k in ks { m.remove(&k); }
            for (_, x) in m.iter_mut() { drop_trace_answers(x); }
        }
        Value::Array(a) => for x in a { drop_trace_answers(x); },
        _ => {}
    }
}

fn run_child_cfg(hist_file: &Path, obs_file: &Path, restart: Option<usize>, requests: Option<&Path>, traces_off: bool) -> Option<Vec<Value>> {
    let exe = std::env::current_exe().ok()?;
    let mut c = std::process::Command::new(exe);
    if traces_off { c.env("HX_TRACES_OFF", "1"); } else { c.env_remove("HX_TRACES_OFF"); }
    c.args(["c02-child", "--history", hist_file.to_str()?, "--obs", obs_file.to_str()?]);
    if let Some(r) = restart { c.args(["--restart", &r.to_string()]); }
    if let Some(r) = requests { c.args(["--requests", r.to_str()?]); }
    let st = c.stdout(std::process::Stdio::null()).stderr(std::process::Stdio::null()).status().ok()?;
    if !st.success() { return None; }
    let mut v: Vec<Value> = serde_json::from_str(&std::fs::read_to_string(obs_file).ok()?).ok()?;
    for x in v.iter_mut() { zero_mine_timestamp(x); }
    Some(v)
}

fn first_diff(a: &Value, b: &Value, path: String) -> Option<String> {
    if a == b { return None; }
    match (a, b) {
        (Value::Object(x), Value::Object(y)) => {
            for (k, v) in x { match y.get(k) { Some(w) => if let Some(d) = first_diff(v, w, format!("{}/{}", path, k)) { return Some(d); }, None => return Some(format!("{}/{} missing in the second", path, k)) } }
            for k in y.keys() { if !x.contains_key(k) { return Some(format!("{}/{} missing in the first", path, k)); } }
            Some(path)
        }
        (Value::Array(x), Value::Array(y)) => {
            if x.len() != y.len() { return Some(format!("{} (lengths {} vs {})", path, x.len(), y.len())); }
            for (i, (v, w)) in x.iter().zip(y.iter()).enumerate() { if let Some(d) = first_diff(v, w, format!("{}[{}]", path, i)) { return Some(d); } }
            Some(path)
        }
        _ => Some(format!("{}: {} vs {}", path, a.to_string().chars().take(120).collect::<String>(), b.to_string().chars().take(120).collect::<String>())),
    }
}

pub fn run(out: &Path, seed: u64, thorough: bool) -> Result<(), Box<dyn std::error::Error>> {
    let mut rng = Rng::new(seed ^ 0xC02);
    let n = if thorough { 40 } else { 6 };
    let mut failures: Vec<Value> = Vec::new();
    let mut dist: BTreeMap<String, u64> = BTreeMap::new();
    let mut samples = Vec::new();
    let mut evaluations = 0u64;
    let mut boundaries = 0u64;
    // scripted histories: what lives only in memory between commits (the highest block ever recorded, the
    // cached height, the pool) must not make a restarted replica answer differently
    let z = crate::sim::Hx::zero32();
    let scripted: Vec<Vec<Op>> = vec![
        vec![Op::Initialise { hash: z.clone(), ts: 1_700_000_000, height: 0 }, Op::Mine { n: 21, ts: 1_700_000_600 }, Op::Commit, Op::Mine { n: 5, ts: 1_700_001_200 }, Op::Clear,
             Op::Reorg(12), Op::Mine { n: 1, ts: 1_700_001_800 }],
        vec![Op::Initialise { hash: z.clone(), ts: 1_700_000_000, height: 0 }, Op::Mine { n: 3, ts: 1_700_000_600 }, Op::Commit, Op::Mine { n: 11, ts: 1_700_001_200 }, Op::Clear,
             Op::Mine { n: 1, ts: 1_700_001_800 }, Op::Reorg(2), Op::Clear, Op::Mine { n: 1, ts: 1_700_002_400 }],
    ];
    for i in 0..(n + scripted.len() as u64) {
        let mut p = GenParams::small();
        p.blocks = 8 + rng.below(6);
        p.max_txs = 9;                       // large blocks and uncommitted multi-block ranges maximise order sensitivity
        p.genesis = if i % 2 == 0 { Genesis::Initialise } else { Genesis::Mine };
        p.p_reorg = 6; p.p_clear = if i % 2 == 1 { 10 } else { 0 }; p.p_reopen = 0; p.p_mine = 8;
        p.schedule = if i % 3 == 0 { CommitSchedule::Never } else { CommitSchedule::EveryK(5) };
        let mut h = if i < n { gen_history(&mut rng, &p) } else { scripted[(i - n) as usize].clone() };
        if i < n { h = with_schedule(&h, p.schedule, &mut rng); }
        let hf = out.join(format!("c02_hist_{}.json", i));
        std::fs::write(&hf, serde_json::to_string(&h)?)?;
        // restart point: a boundary in the middle
        let bidx: Vec<usize> = h.iter().enumerate().filter(|(_, o)| matches!(o, Op::Finalise { .. } | Op::Mine { .. })).map(|(k, _)| k).collect();
        // prefer a clearCaches of the history that follows uncommitted blocks (the restart then happens
        // where memory and disk may have drifted apart without any commit in between)
        let clears: Vec<usize> = h.iter().enumerate().filter(|(k, o)| matches!(o, Op::Clear) && *k > 0 && !matches!(h[*k - 1], Op::Commit)).map(|(k, _)| k).collect();
        let restart = if !clears.is_empty() { Some(clears[clears.len() / 2]) } else { bidx.get(bidx.len() / 2).cloned() };
        let a = run_child(&hf, &out.join(format!("c02_obs_{}_a.json", i)), None, None);
        let b = run_child(&hf, &out.join(format!("c02_obs_{}_b.json", i)), restart, None);
        evaluations += 1;
        match (a, b) {
            (Some(a), Some(b)) => {
                boundaries += a.iter().filter(|x| x.get("observation").is_some()).count() as u64;
                if let Some(d) = first_diff(&Value::Array(a.clone()), &Value::Array(b), String::new()) {
                    failures.push(json!({"what": format!("c02: two processes fed the same history differ at {}", d), "case": {"history_file": hf.to_str(), "restart_after_op": restart, "history": h}}));
                }
                for x in &a { if x.get("observation").is_some() { *dist.entry("boundaries_observed".into()).or_default() += 1; } }
                if samples.is_empty() { samples.push(json!({"history_ops": h.iter().map(|o| o.kind()).collect::<Vec<_>>(), "restart_after_op": restart, "queries_per_observation": a.iter().filter_map(|x| x.get("observation")).map(|o| o.as_object().map(|m| m.len()).unwrap_or(0)).max()})); }
            }
            _ => failures.push(json!({"what": "c02: a child process failed", "case": {"history_file": hf.to_str()}})),
        }
        // a replica with the same protocol version and network that does not record traces: every answer
        // except the trace answers themselves must be the same
        if i % 2 == 0 || i >= n {
            let a = run_child(&hf, &out.join(format!("c02_obs_{}_a.json", i)), None, None);
            let c = run_child_cfg(&hf, &out.join(format!("c02_obs_{}_c.json", i)), None, None, true);
            evaluations += 1;
            match (a, c) {
                (Some(a), Some(c)) => {
                    let (mut a, mut c) = (Value::Array(a), Value::Array(c));
                    drop_trace_answers(&mut a); drop_trace_answers(&mut c);
                    *dist.entry("trace_recording_pairs".into()).or_default() += 1;
                    if let Some(d) = first_diff(&a, &c, String::new()) {
                        failures.push(json!({"what": format!("c02: a replica that records traces and one that does not (same protocol version, same network, same history) differ outside the trace answers at {}", d), "case": {"history_file": hf.to_str(), "history": h}}));
                    }
                }
                _ => failures.push(json!({"what": "c02: a child process failed (trace-recording pair)", "case": {"history_file": hf.to_str()}})),
            }
        }
        for op in &h { *dist.entry(format!("op_{}", op.kind())).or_default() += 1; }
    }
    // pinned digests of the fixed corpus
    let golden_dir = Path::new(env!("CARGO_MANIFEST_DIR")).join("../golden");
    let (_, protocol) = brc20_prog::verif_hooks::versions();
    let mut golden_checked = 0u64;
    if let Ok(rd) = std::fs::read_dir(&golden_dir) {
        let mut files: Vec<PathBuf> = rd.filter_map(|e| e.ok().map(|e| e.path())).filter(|p| p.extension().map_or(false, |x| x == "json")).collect();
        files.sort();
        for f in files {
            let g: Value = serde_json::from_str(&std::fs::read_to_string(&f)?)?;
            if g["protocol_version"].as_u64() != Some(protocol as u64) { continue; }
            let hf = out.join(format!("c02_golden_{}_hist.json", golden_checked));
            let rf = out.join(format!("c02_golden_{}_req.json", golden_checked));
            std::fs::write(&hf, serde_json::to_string(&g["history"])?)?;
            std::fs::write(&rf, serde_json::to_string(&g["requests"])?)?;
            let obs = run_child(&hf, &out.join(format!("c02_golden_{}_obs.json", golden_checked)), None, Some(&rf));
            evaluations += 1;
            golden_checked += 1;
            match obs {
                Some(o) => {
                    let digest = sha256::digest(serde_json::to_string(&o)?);
                    if std::env::var("HX_PRINT_GOLDEN").is_ok() { println!("{} {}", f.display(), digest); }
                    if g["sha256"].as_str() != Some(digest.as_str()) {
                        failures.push(json!({"what": format!("c02: the pinned corpus {} no longer reproduces its digest for protocol version {} ({} instead of {})", f.file_name().unwrap().to_string_lossy(), protocol, digest, g["sha256"].as_str().unwrap_or("?")), "case": {"golden_file": f.to_str()}}));
                    }
                }
                None => failures.push(json!({"what": "c02: the pinned corpus could not be run", "case": {"golden_file": f.to_str()}})),
            }
        }
    }
    let meta = json!({
        "files": [], "evaluations": evaluations, "distinct_nontrivial": n,
        "rule": "generated histories with blocks of up to 9 transactions and uncommitted multi-block ranges, each run in two OS processes (independent SipHash seeds for every HashMap, different directories; the second commits and restarts half-way): the answer of every indexer call and the full observation (every read method over the universe) at every block boundary must be identical, mineTimestamp zeroed, arrays NOT sorted; for every second history a third process with EVM_RECORD_TRACES off: every answer except the trace answers themselves must equal the first process. Plus the pinned corpus of /verif/golden: a fixed history and request list whose canonical answers hash to the recorded sha256 for this protocol version.",
        "boundaries_compared": boundaries, "golden_corpora_checked": golden_checked, "distribution": dist,
        "samples": samples, "impl_failures": failures,
    });
    std::fs::write(out.join("c02_meta.json"), serde_json::to_string_pretty(&meta)?)?;
    Ok(())
}

/// `hx c02-make-golden --out FILE`: builds the fixed corpus (history + request list + digest)
pub fn make_golden(args: &[String]) -> Result<(), Box<dyn std::error::Error>> {
    let get = |n: &str| args.iter().position(|a| a == n).and_then(|i| args.get(i + 1).cloned());
    let file = PathBuf::from(get("--file").ok_or("--file")?);
    let mut rng = Rng::new(20260101);
    let mut p = GenParams::small();
    p.blocks = 12; p.max_txs = 8; p.genesis = Genesis::Initialise; p.p_reorg = 8; p.p_clear = 0; p.p_reopen = 0; p.p_mine = 10;
    let h = gen_history(&mut rng, &p);
    // run once to learn the universe, then freeze the request list
    let mut run = Run::new();
    run.run(&h);
    let reqs = crate::sim::observation_requests(&mut run);
    let tmp = tempfile::tempdir()?;
    let hf = tmp.path().join("h.json"); let rf = tmp.path().join("r.json");
    std::fs::write(&hf, serde_json::to_string(&h)?)?;
    std::fs::write(&rf, serde_json::to_string(&reqs)?)?;
    let o = run_child(&hf, &tmp.path().join("o.json"), None, Some(&rf)).ok_or("child failed")?;
    let digest = sha256::digest(serde_json::to_string(&o)?);
    let (_, protocol) = brc20_prog::verif_hooks::versions();
    std::fs::write(&file, serde_json::to_string(&json!({"protocol_version": protocol, "history": h, "requests": reqs, "sha256": digest}))?)?;
    println!("golden written: {} requests, sha256 {}", reqs.len(), digest);
    Ok(())
}
