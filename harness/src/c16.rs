pub fn run(_out: &std::path::Path, _seed: u64, _thorough: bool) -> Result<(), Box<dyn std::error::Error>> { Ok(()) }
