//! C16 — gas allowance follows inscription size; gas estimates are sufficient.
//!
//! Implementation-level checks (independent references, -> impl_failures):
//!  * every generated transaction at inscription lengths from 0 to 2^64-1: receipt gasUsed <=
//!    min(len * 12000, 2^64-1); a transaction that fails leaves the observable EVM state unchanged
//!    except, at most, its sender's nonce (before/after observation on the instance, and a twin
//!    instance that replaces every failed transaction by a no-op from the same sender);
//!  * eth_estimateGas E, then the same call as a transaction with ceil(E / 12000) bytes: succeeds
//!    with the output eth_call predicted; eth_estimateGasMany likewise for a batch in one block.
//! Coq cases (Model/Tie16.v): get_gas_limit / get_inscription_byte_len of the crate vs the model;
//! every estimate request: the recorded outcomes of the real runs as the model loop's oracle.
//! Environment cases (TieEnv.v) of everything executed, incl. a parked transaction with a
//! saturated allowance.
use std::collections::BTreeMap;
use std::path::Path;
use std::time::Instant;

use alloy::primitives::{Address, U256};
use brc20_prog::verif_hooks as vh;
use serde_json::{json, Value};

use crate::c17::{build_world, exec_cand, gen_cand, Cand, Sender, World};
use crate::coqfmt as cf;
use crate::envs::{self, call_outcome, Drv, NetCfg, Sample, Ti};
use crate::rng::Rng;
use crate::sim::{self, cd, Hx, RpcFail, PKSCRIPTS};

const GPB: u64 = 12_000;

fn rnd_hash(rng: &mut Rng) -> Hx {
    let mut v = Vec::with_capacity(32);
    for _ in 0..4 { v.extend_from_slice(&rng.next().to_be_bytes()); }
    Hx(v)
}
/// independent reference for the allowance
fn allowance(len: u64) -> u64 { ((len as u128) * (GPB as u128)).min(u64::MAX as u128) as u64 }
fn ceil_bytes(e: u64) -> u64 { ((e as u128 + GPB as u128 - 1) / GPB as u128) as u64 }

/// The EVM state the property talks about, over everything the run may touch.
fn state_obs(d: &mut Drv, w: &World, extra: &[Address]) -> BTreeMap<String, String> {
    let mut o = BTreeMap::new();
    let mut addrs: Vec<Address> = (0..4).map(|i| sim::pkscript_address(PKSCRIPTS[i])).collect();
    for i in 0..sim::SIGNERS { addrs.push(sim::signer_address(i)); }
    for t in &w.tools { addrs.push(*t); for n in 1..=3u64 { addrs.push(t.create(n)); } }
    for a in [sim::CONTROLLER, sim::INVALID, sim::INDEXER] { addrs.push(Hx::from_hex(a).to_address()); }
    addrs.extend_from_slice(extra);
    for a in &addrs {
        o.insert(format!("nonce({})", Hx::addr(*a).hex()), d.nonce(*a).to_string());
        o.insert(format!("code({})", Hx::addr(*a).hex()), d.code(*a).map(|c| c.hex()).unwrap_or("-".into()));
        // the contract-address -> inscription-id table is state too (a failed creation creates no contract)
        let (r, _) = d.rpc("brc20_getInscriptionIdByContractAddress", json!([Hx::addr(*a).hex0x()]));
        o.insert(format!("inscription_of({})", Hx::addr(*a).hex()), format!("{:?}", r.ok()));
    }
    for t in &w.tools { for k in [0u64, 1, 2, 3, 4, 5, sim::SLOT_CHILD] { o.insert(format!("storage({},{})", Hx::addr(*t).hex(), k), d.storage(*t, k).hex()); } }
    for i in 0..4 {
        let (r, _) = d.rpc("brc20_balance", json!([PKSCRIPTS[i], "ordi"]));
        o.insert(format!("balance({},ordi)", i), format!("{:?}", r.ok()));
    }
    o
}
fn diff(a: &BTreeMap<String, String>, b: &BTreeMap<String, String>) -> Vec<(String, String, String)> {
    let mut out = vec![];
    for (k, v) in a { let w = b.get(k).cloned().unwrap_or_default(); if &w != v { out.push((k.clone(), v.clone(), w)); } }
    for (k, w) in b { if !a.contains_key(k) { out.push((k.clone(), String::new(), w.clone())); } }
    out
}

fn runs_of(ss: &[Sample]) -> Vec<(u64, Option<bool>)> {
    ss.iter().map(|s| (s.gas_limit(), match s.class() { "success" => Some(true), "error" => None, _ => Some(false) })).collect()
}
fn coq_runs(runs: &[(u64, Option<bool>)]) -> String {
    envs::coq_list(&runs.iter().map(|(g, r)| format!("({}, {})", g, match r { Some(true) => "Some true", Some(false) => "Some false", None => "None" })).collect::<Vec<_>>())
}
fn estimate_answer(r: &envs::Rpc) -> Option<u64> { r.as_ref().ok().map(envs::hexu) }

pub fn run(out: &Path, seed: u64, thorough: bool) -> Result<(), Box<dyn std::error::Error>> {
    let t0 = Instant::now();
    let mut rng = Rng::new(seed ^ 0xC16);
    let mut fails: Vec<Value> = vec![];
    let mut g = envs::Cases::default();       // gcase terms
    let mut envc = envs::Cases::default();    // ecase terms
    let mut counters: BTreeMap<String, u64> = BTreeMap::new();
    let mut observations: Vec<Value> = vec![];
    let mut bump = |k: &str, c: &mut BTreeMap<String, u64>| { *c.entry(k.to_string()).or_insert(0) += 1; };

    // ---- (a) the two functions ----------------------------------------------------------------
    let edge = u64::MAX / GPB;
    let mut lens: Vec<u64> = vec![0, 1, 2, 31, 32, 33, 1000, u32::MAX as u64, edge - 1, edge, edge + 1, edge + 2, u64::MAX / 2, u64::MAX - 1, u64::MAX];
    for _ in 0..if thorough { 3000 } else { 400 } { lens.push(match rng.below(4) { 0 => rng.below(1 << 20), 1 => edge.wrapping_add(rng.below(2000)).wrapping_sub(1000), 2 => rng.next(), _ => rng.next() >> rng.below(64) }); }
    for len in &lens {
        let got = vh::get_gas_limit(*len);
        g.push("gas_limit", |id| format!("GLimit {} {} {}", id, len, got), json!({"len": len, "got": got}));
        if got != allowance(*len) { fails.push(json!({"what": "C16: get_gas_limit is not min(len * 12000, 2^64-1)", "case": {"len": len, "got": got}})); }
        let back = vh::get_inscription_byte_len(got);
        g.push("byte_len", |id| format!("GByteLen {} {} {}", id, got, back), json!({"gas": got, "got": back}));
        let b2 = vh::get_inscription_byte_len(*len);
        g.push("byte_len", |id| format!("GByteLen {} {} {}", id, len, b2), json!({"gas": len, "got": b2}));
    }

    // ---- (b)-(d) transactions on real instances ----------------------------------------------
    let worlds = if thorough { 9 } else { 6 };
    let steps = if thorough { 150 } else { 60 };
    for wi in 0..worlds {
        let cfg = match wi % 3 { 0 => NetCfg::regtest(), 1 => NetCfg::mainnet(0), _ => NetCfg::signet(0) };
        // the twin gets the same world from the same random choices
        let mut rng_a = rng.fork();
        let mut rng_b = rng_a.clone();
        let mut d = Drv::new(cfg.clone());
        let mut twin = Drv::new(cfg.clone());
        twin.record_cases = false;
        let Some(mut w) = build_world(&mut d, &mut rng_a, &mut fails) else { continue };
        let Some(_) = build_world(&mut twin, &mut rng_b, &mut fails) else { continue };
        let mut ts = 1_700_020_000u64;
        let mut extra: Vec<Address> = vec![];

        for step in 0..steps {
            let c = { let mut c = gen_cand(&mut rng, &w); if c.label == "spin" && rng.chance(2, 3) { c = gen_cand(&mut rng, &w); } c };
            let from = c.sender.address();
            let predicted = from.create(d.nonce(from));
            if c.to.is_none() { extra.push(predicted); }
            // ---- estimate, at the block boundary -------------------------------------------------
            let (er, ess) = d.estimate_gas(Some(from), c.to, &c.data);
            let e = estimate_answer(&er);
            let runs = runs_of(&ess);
            let cap = cfg.cap;
            let got = envs::coq_opt(e.map(|x| x.to_string()));
            let cr = coq_runs(&runs);
            g.push("estimate", |id| format!("GEstimate {} {} {} {}", id, cap, cr, got), json!({"cap": cap, "runs": runs.iter().map(|(a, b)| json!([a, b])).collect::<Vec<_>>(), "got": e, "label": c.label}));
            bump(if e.is_some() { "estimates_ok" } else { "estimates_err" }, &mut counters);
            if let Err(RpcFail::Panic(m)) = &er { fails.push(json!({"what": "C16: eth_estimateGas panicked", "case": {"panic": m, "label": c.label}})); }
            let (sr, _) = d.eth_call(Some(from), c.to, &c.data, None);
            let predicted_out = call_outcome(&sr);

            // ---- lengths ---------------------------------------------------------------------
            let need = e.map(ceil_bytes);
            let mut try_lens: Vec<(u64, &str)> = vec![];
            match need {
                Some(n) => {
                    // first the derived length itself, right after the estimate, nothing in between
                    try_lens.push((n, "need"));
                    match step % 4 {
                        0 => { try_lens.push((0, "zero")); try_lens.push((n / 2, "half")); }
                        1 => { try_lens.push((1, "one")); try_lens.push((n.saturating_sub(1), "need-1")); }
                        2 => { try_lens.push((n + 1, "need+1")); try_lens.push((edge + rng.below(3), "saturating")); }
                        _ => { try_lens.push((2, "two")); try_lens.push((if rng.chance(1, 2) { u64::MAX } else { rng.next() | (1 << 62) }, "huge")); }
                    }
                }
                None => { try_lens.push((rng.below(40), "failing-call-small")); try_lens.push((1000, "failing-call-1000")); }
            }
            for (len, why) in try_lens {
                // a spin with a huge allowance would burn 2^64 gas: never ends
                if c.label == "spin" && len > 3000 { continue; }
                if c.label.contains("spin") && len > 3000 { continue; }
                let before = state_obs(&mut d, &w, &extra);
                let an_before = d.nonce(from);
                ts += 600;
                let h = if rng.chance(1, 4) { Hx::zero32() } else { rnd_hash(&mut rng) };
                let txid = rnd_hash(&mut rng);
                let o = exec_cand(&mut d, &c, len, &txid, ts, &h);
                let _ = d.finalise(ts, &h);
                bump(&format!("tx_{}", why), &mut counters);
                let case = |d: &Drv| json!({"network": cfg.network, "sender": format!("{:?}", c.sender), "to": c.to.map(|a| Hx::addr(a).hex0x()), "data": Hx(c.data.clone()).hex0x(),
                    "label": c.label, "byte_len": len, "why": why, "estimate": e, "receipt": o.receipt,
                    "history": if d.log.len() <= 300 { json!(d.log) } else { json!(d.log[d.log.len() - 300..]) }});
                if !o.accepted { fails.push(json!({"what": "C16: transaction not accepted", "case": case(&d)})); twin_noop(&mut twin, None, ts, &h); continue; }
                // (1) receipt gas <= allowance; the TxEnv limit is the allowance
                if o.gas_used > allowance(len) { fails.push(json!({"what": "C16: gasUsed in the receipt exceeds 12000 gas per inscription byte", "case": case(&d)})); }
                if let Some(s) = &o.sample { if s.gas_limit() != allowance(len) { fails.push(json!({"what": "C16: the gas limit handed to the EVM is not min(len * 12000, 2^64-1)", "case": {"base": case(&d), "tx_gas_limit": s.gas_limit()}})); } }
                let ok = o.status == Some(true);
                let an_after = d.nonce(from);
                // (2) a failed transaction changes nothing but (at most) the sender's nonce
                if !ok {
                    bump("failed_txs", &mut counters);
                    let after = state_obs(&mut d, &w, &extra);
                    let key = format!("nonce({})", Hx::addr(from).hex());
                    let bad: Vec<_> = diff(&before, &after).into_iter().filter(|(k, a, b)| !(k == &key && b.parse::<u64>().ok() == a.parse::<u64>().ok().map(|x| x + 1))).collect();
                    if !bad.is_empty() { fails.push(json!({"what": "C16: a failed transaction changed state other than its sender's nonce", "case": {"base": case(&d), "diff": bad}})); }
                    if o.sample.as_ref().map(|s| s.class() == "halt" && s.result["reason"].as_str().map(|r| r.contains("OutOfGas")).unwrap_or(false)).unwrap_or(false) { bump("out_of_gas_halts", &mut counters); }
                    if o.sample.as_ref().map(|s| s.class() == "error").unwrap_or(false) { bump("refused_by_revm", &mut counters); }
                    // twin: a no-op from the same sender if the nonce moved, nothing otherwise
                    twin_noop(&mut twin, if an_after > an_before { Some(&c.sender) } else { None }, ts, &h);
                } else {
                    let (ts_b, h_b) = (ts, h.clone());
                    let ob = exec_cand(&mut twin, &c, len.max(need.unwrap_or(len)), &txid, ts_b, &h_b);
                    let _ = twin.finalise(ts_b, &h_b);
                    if ob.status != Some(true) { fails.push(json!({"what": "C16: twin instance diverged (setup)", "case": case(&d)})); }
                }
                // (3) the estimate is sufficient
                if let (Some(n), Some((true, pout))) = (need, &predicted_out) {
                    if len >= n && why == "need" {
                        if !ok { fails.push(json!({"what": "C16: transaction with inscription length ceil(estimate / 12000) did not succeed", "case": case(&d)})); }
                        else if o.to_output(&mut d) != *pout { fails.push(json!({"what": "C16: transaction with the estimated length succeeded with another output than eth_call predicted", "case": {"base": case(&d), "predicted": Hx(pout.clone()).hex0x()}})); }
                        else { bump("estimate_then_tx_ok", &mut counters); }
                    } else if len >= n && !ok && !c.label.contains("create-child") {
                        // more than enough gas: must still succeed (the state may have moved on since the estimate
                        // only for calls whose cost grows; none of the generated ones does)
                        fails.push(json!({"what": "C16: transaction above the estimated length failed", "case": case(&d)}));
                    }
                }
                if ok && c.label == "create-multitool" && w.tools.len() < 4 { if let Some(a) = o.created { w.tools.push(a); } }
            }

            // ---- now and then: a batch estimate, then the batch as one block ------------------------
            if step % 8 == 7 {
                let k = rng.range(2, 3) as usize;
                let mut cands: Vec<Cand> = vec![];
                let allow_failing = rng.chance(1, 4);
                while cands.len() < k {
                    let c = gen_cand(&mut rng, &w);
                    let failing = ["revert", "nested-revert", "controller-mint", "controller-transfer", "create-small", "create-garbage-or-empty"].contains(&c.label.as_str());
                    if !c.label.contains("spin") && (allow_failing || !failing) { cands.push(c); }
                }
                let calls: Vec<Ti> = cands.iter().map(|c| Ti { from: c.sender.address(), to: c.to, data: c.data.clone() }).collect();
                let objs: Vec<Value> = calls.iter().map(|c| json!({"from": Hx::addr(c.from).hex0x(), "to": c.to.map(|a| Hx::addr(a).hex0x()), "data": Hx(c.data.clone()).hex0x()})).collect();
                let (r, ss) = d.rpc("eth_estimateGasMany", json!([objs, Value::Null, Value::Null]));
                // group the samples into runs of the whole batch
                let mut runs: Vec<(Vec<u64>, Option<Vec<bool>>)> = vec![];
                let mut i = 0;
                while i < ss.len() {
                    let mut gs = vec![]; let mut sts = vec![]; let mut refused = false;
                    while i < ss.len() && gs.len() < k { let s = &ss[i]; i += 1; gs.push(s.gas_limit()); if s.class() == "error" { refused = true; break; } sts.push(s.ok()); }
                    runs.push((gs, if refused { None } else { Some(sts) }));
                }
                // a refused run stops early: the limits of the positions after it are not in the samples
                let complete = runs.iter().all(|(gs, _)| gs.len() == k);
                let got: Option<Vec<u64>> = r.as_ref().ok().and_then(|v| v.as_array().map(|a| a.iter().map(envs::hexu).collect()));
                if complete {
                    let cr = envs::coq_list(&runs.iter().map(|(gs, st)| format!("({}, {})", envs::coq_list(&gs.iter().map(|x| x.to_string()).collect::<Vec<_>>()),
                        match st { Some(v) => format!("Some {}", envs::coq_list(&v.iter().map(|b| b.to_string()).collect::<Vec<_>>())), None => "None".into() })).collect::<Vec<_>>());
                    let gt = envs::coq_opt(got.as_ref().map(|v| envs::coq_list(&v.iter().map(|x| x.to_string()).collect::<Vec<_>>())));
                    let cap = cfg.cap;
                    g.push("estimate_many", |id| format!("GEstimateMany {} {} {} {} {}", id, cap, k, cr, gt), json!({"calls": objs, "runs": runs.len(), "got": got}));
                }
                bump(if got.is_some() { "batch_estimates_ok" } else { "batch_estimates_err" }, &mut counters);
                if let Some(es) = got {
                    ts += 600;
                    let h = rnd_hash(&mut rng);
                    for (pos, (c, e)) in cands.iter().zip(es.iter()).enumerate() {
                        let txid = rnd_hash(&mut rng);
                        let o = exec_cand(&mut d, c, ceil_bytes(*e), &txid, ts, &h);
                        let ob = exec_cand(&mut twin, c, ceil_bytes(*e), &txid, ts, &h);
                        // The property speaks of eth_estimateGas: the FIRST call of a batch is in exactly that
                        // situation (state of the block boundary). Later calls are simulated on top of the
                        // journal of the earlier ones WITHOUT a transaction commit in between (revm prices a
                        // slot written by an earlier call of the batch as dirty: 100 instead of 2900 gas), so
                        // their estimates can be too low; that is recorded as an observation, not a violation.
                        if o.status != Some(true) {
                            if pos == 0 { fails.push(json!({"what": "C16: the first transaction of a batch, with the length derived from eth_estimateGasMany, did not succeed", "case": {"calls": objs, "estimates": es, "label": c.label, "receipt": o.receipt}})); }
                            else {
                                bump("batch_later_tx_estimate_too_low(observation)", &mut counters);
                                if observations.is_empty() { observations.push(json!({"what": "eth_estimateGasMany: the estimate for a later call of a batch was too low for the same call as a transaction after the earlier ones (calls of a batch share one journal; a slot written by an earlier call is priced as dirty)", "calls": objs, "estimates": es, "position": pos, "label": c.label, "gasUsed": o.receipt["gasUsed"], "status": o.receipt["status"]})); }
                            }
                        }
                        else { bump("batch_tx_ok", &mut counters); }
                        let _ = ob;
                        if o.status == Some(true) && c.label == "create-multitool" && w.tools.len() < 4 { if let Some(a) = o.created { w.tools.push(a); } }
                    }
                    let _ = d.finalise(ts, &h);
                    let _ = twin.finalise(ts, &h);
                }
            }
        }

        // ---- a parked transaction with a saturated allowance --------------------------------------
        {
            let si = 1usize;
            let sa = sim::signer_address(si);
            let n0 = d.nonce(sa);
            ts += 600;
            let h = rnd_hash(&mut rng);
            let huge = u64::MAX - rng.below(5);
            let _ = d.transact(si, n0 + 1, Some(w.tools[0]), &cd::sstore(U256::from(3), U256::from(9)), huge, &rnd_hash(&mut rng), ts, &h);
            let _ = d.finalise(ts, &h);
            ts += 600;
            let h = rnd_hash(&mut rng);
            let (r, ss) = d.transact(si, n0, Some(w.tools[0]), &cd::sstore(U256::from(4), U256::from(9)), 10, &rnd_hash(&mut rng), ts, &h);
            let _ = d.finalise(ts, &h);
            let want = (u64::MAX / GPB) * GPB;
            if ss.len() != 2 || ss[1].gas_limit() != want {
                fails.push(json!({"what": "C16: a parked transaction with a saturated allowance was not re-executed with floor(2^64-1 / 12000) * 12000 gas", "case": {"answer": format!("{:?}", r), "limits": ss.iter().map(|s| s.gas_limit()).collect::<Vec<_>>(), "want": want}}));
            } else { bump("parked_saturated_ok", &mut counters); }
            // the twin executes the same two writes
            let _ = twin.call(PKSCRIPTS[3], Some(w.tools[0]), Some(&cd::sstore(U256::from(4), U256::from(9))), 10, &Hx::zero32(), ts, &h);
            let _ = twin.call(PKSCRIPTS[3], Some(w.tools[0]), Some(&cd::sstore(U256::from(3), U256::from(9))), 10, &Hx::zero32(), ts, &h);
            let _ = twin.finalise(ts, &h);
        }

        // ---- several parked transactions with DIFFERENT inscription lengths, released by one call:
        //      each runs under the allowance of its own inscription ---------------------------------------
        {
            let si = 2usize;
            let sa = sim::signer_address(si);
            let n0 = d.nonce(sa);
            let nocode = Address::from_slice(&[0x77; 20]);
            let lens = [1000u64, 2, 700, 3];
            ts += 600;
            let h = rnd_hash(&mut rng);
            for (j, len) in lens.iter().enumerate() {
                let _ = d.transact(si, n0 + 1 + j as u64, Some(nocode), &[1, 2, 3], *len, &rnd_hash(&mut rng), ts, &h);
            }
            let _ = d.finalise(ts, &h);
            ts += 600;
            let h = rnd_hash(&mut rng);
            let (r, ss) = d.transact(si, n0, Some(nocode), &[1, 2, 3], 50, &rnd_hash(&mut rng), ts, &h);
            let _ = d.finalise(ts, &h);
            let got: Vec<u64> = ss.iter().map(|s| s.gas_limit()).collect();
            let want: Vec<u64> = std::iter::once(50u64).chain(lens.iter().copied()).map(allowance).collect();
            if got != want {
                fails.push(json!({"what": "C16: parked transactions released by one call did not each run under 12000 gas per byte of their OWN inscription length", "case": {"answer": format!("{:?}", r).chars().take(300).collect::<String>(), "inscription_lengths": [50, 1000, 2, 700, 3], "gas_limits_seen": got, "want": want, "history": if d.log.len() <= 60 { json!(d.log) } else { json!(d.log[d.log.len() - 60..]) }}}));
            } else { bump("parked_mixed_lengths_ok", &mut counters); }
            if let Ok(Value::Array(rs)) = &r {
                for (rc, w_) in rs.iter().zip(want.iter()) {
                    let gu = envs::hexu(&rc["gasUsed"]);
                    if gu > *w_ { fails.push(json!({"what": "C16: a released parked transaction used more gas than its own inscription allows", "case": {"gasUsed": gu, "allowance": w_, "receipt": rc}})); }
                }
            }
        }

        // ---- a crowded block: transactions the EVM refuses outright (inscription below the intrinsic cost)
        //      BEHIND transactions that used gas; every receipt stays within its own allowance and the
        //      cumulative figure is the running sum (same block on the twin, so the twins stay equal) -------
        {
            ts += 600;
            let h = rnd_hash(&mut rng);
            let nocode = Address::from_slice(&[0x77; 20]);
            let lens = [50u64, 0, 1, 50, 1, 2, 0];
            let txids: Vec<Hx> = lens.iter().map(|_| rnd_hash(&mut rng)).collect();
            for (which, inst) in [&mut d, &mut twin].into_iter().enumerate() {
                let mut sum = 0u64;
                let mut hashes: Vec<(String, u64)> = vec![];
                for (len, txid) in lens.iter().zip(txids.iter()) {
                    let (r, _) = inst.call(PKSCRIPTS[1], Some(nocode), Some(&[1, 2, 3]), *len, txid, ts, &h);
                    if which != 0 { continue; }
                    match &r {
                        Ok(rc) if rc.is_object() => {
                            let (gu, cu) = (envs::hexu(&rc["gasUsed"]), envs::hexu(&rc["cumulativeGasUsed"]));
                            sum += gu;
                            if gu > allowance(*len) { fails.push(json!({"what": "C16: gasUsed in the receipt of a transaction behind others in its block exceeds 12000 gas per inscription byte", "case": {"byte_len": len, "gasUsed": gu, "allowance": allowance(*len), "position_in_block": hashes.len(), "inscription_lengths_of_the_block": lens, "receipt": rc}})); }
                            if cu != sum { fails.push(json!({"what": "C16: cumulativeGasUsed is not the running sum of gasUsed over the block", "case": {"byte_len": len, "cumulativeGasUsed": cu, "running_sum": sum, "receipt": rc}})); }
                            if let Some(t) = rc["transactionHash"].as_str() { hashes.push((t.to_string(), *len)); }
                            bump("crowded_block_receipts", &mut counters);
                        }
                        other => fails.push(json!({"what": "C16: a call in a crowded block was not answered with a receipt", "case": {"byte_len": len, "answer": format!("{:?}", other).chars().take(200).collect::<String>()}})),
                    }
                }
                let _ = inst.finalise(ts, &h);
                // (a refused transaction leaves the nonce where it was, so the next one of the same sender gets the
                //  same hash - known finding F14 of C06/C08: only hashes that occur once are looked up again)
                let once: Vec<(String, u64)> = hashes.iter().filter(|(t, _)| hashes.iter().filter(|(u, _)| u == t).count() == 1).cloned().collect();
                for (t, len) in once {
                    if let (Ok(rc), _) = inst.rpc("eth_getTransactionReceipt", json!([t])) {
                        let gu = envs::hexu(&rc["gasUsed"]);
                        if gu > allowance(len) { fails.push(json!({"what": "C16: gasUsed in the stored receipt of a transaction behind others in its block exceeds 12000 gas per inscription byte", "case": {"byte_len": len, "gasUsed": gu, "receipt": rc}})); }
                    }
                }
            }
        }

        // ---- twin comparison: failed transactions == no-ops of their senders ---------------------------
        let sa = state_obs(&mut d, &w, &extra);
        let sb = state_obs(&mut twin, &w, &extra);
        // the signer of the parked pair executed two transactions on A, none on B; pk3 two on B
        let ignore = [format!("nonce({})", Hx::addr(sim::signer_address(1)).hex()), format!("nonce({})", Hx::addr(sim::signer_address(2)).hex()), format!("nonce({})", Hx::addr(sim::pkscript_address(PKSCRIPTS[3])).hex())];
        // (inscription ids are numbered by the driver and differ between the instance and its twin: that table is
        //  compared before / after each failing transaction on the instance itself, not across the twins)
        let dd: Vec<_> = diff(&sa, &sb).into_iter().filter(|(k, _, _)| !ignore.contains(k) && !k.starts_with("inscription_of(")).collect();
        bump("twin_comparisons", &mut counters);
        if !dd.is_empty() {
            fails.push(json!({"what": "C16: an instance that ran the failed transactions and a twin that ran no-ops instead ended in different EVM states", "case": {"network": cfg.network, "diff": dd.iter().take(6).collect::<Vec<_>>()}}));
        }

        // merge env cases
        let base = envc.terms.len();
        for (i, t) in d.cases.terms.iter().enumerate() {
            let mut parts = t.splitn(3, ' ');
            let (c, _old, rest) = (parts.next().unwrap_or(""), parts.next(), parts.next().unwrap_or(""));
            envc.terms.push(format!("{} {} {}", c, base + i, rest));
            let mut j = d.cases.jsonl[i].clone();
            j["id"] = json!(1_000_000 + base + i);
            envc.jsonl.push(j);
        }
        for (k, v) in &d.cases.by_kind { *envc.by_kind.entry(k.clone()).or_insert(0) += v; }
        for p in d.cases.problems.drain(..) { fails.push(p); }
    }

    // ---- (e) the loop at the edge of u64: EVM_CALL_GAS_LIMIT = u64::MAX and just below ---------------
    for cap in [u64::MAX, u64::MAX - 20_999, u64::MAX - 21_000, 1u64 << 63, 30_000, 21_000, 25_000] {
        let mut cfg = NetCfg::regtest();
        cfg.cap = cap;
        let mut d = Drv::new(cfg);
        d.record_cases = false;
        let _ = d.initialise(&Hx::zero32(), 1_700_000_000);
        let from = sim::pkscript_address(PKSCRIPTS[0]);
        let to = Address::from_slice(&[0x77; 20]);
        let (r, ss) = d.estimate_gas(Some(from), Some(to), &[1, 2, 3]);
        bump("edge_caps", &mut counters);
        match &r {
            Ok(v) => {
                let e = envs::hexu(v);
                // independent reference: the call needs 21000 + 3*16 gas; the answer must succeed and be within 12000 of it (or be the cap)
                let need = 21_048u64;
                let runs = runs_of(&ss);
                let confirmed = runs.last().map(|(g, ok)| *g == e && *ok == Some(true)).unwrap_or(false);
                if !(confirmed && e >= need && (e <= need + GPB + 21_000 || e == cap)) {
                    fails.push(json!({"what": "C16: eth_estimateGas returned an estimate that was not confirmed or is far from the need", "case": {"evm_call_gas_limit": cap, "estimate": e, "runs": runs.len()}}));
                }
                if ss.len() > 70 { fails.push(json!({"what": "C16: eth_estimateGas needed more than 64 bisection steps", "case": {"evm_call_gas_limit": cap, "runs": ss.len()}})); }
                if cap <= (1 << 62) {
                    let (cr, got) = (coq_runs(&runs), format!("(Some {})", e));
                    g.push("estimate", |id| format!("GEstimate {} {} {} {}", id, cap, cr, got), json!({"cap": cap, "runs": runs.len(), "got": e, "label": "edge-cap"}));
                }
            }
            Err(RpcFail::Panic(m)) => fails.push(json!({"what": "C16: eth_estimateGas overflows u64 when evm_call_gas_limit is within 21000 of u64::MAX (panic with overflow checks; the loop never ends without them)",
                "case": {"evm_call_gas_limit": cap, "panic": m, "call": {"from": Hx::addr(from).hex0x(), "to": Hx::addr(to).hex0x(), "data": "0x010203"}}})),
            Err(RpcFail::Hang) => fails.push(json!({"what": "C16: eth_estimateGas overflows u64 when evm_call_gas_limit is within 21000 of u64::MAX (panic with overflow checks; the loop never ends without them)",
                "case": {"evm_call_gas_limit": cap, "hang": true}})),
            Err(e) => {
                // a cap below the intrinsic gas cannot run the call at all: an error answer is right
                if cap >= 21_048 { fails.push(json!({"what": "C16: eth_estimateGas failed for a plain call", "case": {"evm_call_gas_limit": cap, "answer": format!("{:?}", e)}})); }
            }
        }
    }

    // env ids are offset so that both families can be told apart in the runner's output
    let env_terms: Vec<String> = envc.terms.iter().map(|t| {
        let mut parts = t.splitn(3, ' ');
        let (c, id, rest) = (parts.next().unwrap_or(""), parts.next().unwrap_or("0"), parts.next().unwrap_or(""));
        format!("{} {} {}", c, 1_000_000 + id.parse::<u64>().unwrap_or(0), rest)
    }).collect();
    let mut files = cf::write_shards(out, "c16_gas", "From Brc.Model Require Import Base Gas Tie16.\nFrom BrcGen Require Import Consts.", "gcase", "bad_gas_cases GAS_PER_BYTE ESTIMATE_ARITH_SAFE", &g.terms, (g.terms.len() / 400).max(1).min(8))?;
    // keep the environment part small: the other two checks cover it broadly
    let env_keep: Vec<String> = env_terms.into_iter().enumerate().filter(|(i, t)| t.contains("ODrained") || i % 4 == 0).map(|(_, t)| t).collect();
    files.extend(cf::write_shards(out, "c16_env", envs::TIE_IMPORTS, "ecase", envs::TIE_EVAL, &env_keep, (env_keep.len() / 20).max(1).min(8))?);
    let mut jl = String::new();
    for j in g.jsonl.iter().chain(envc.jsonl.iter()) { jl.push_str(&j.to_string()); jl.push('\n'); }
    std::fs::write(out.join("c16_cases.jsonl"), jl)?;
    fails.sort_by_key(|f| f.to_string().len());
    fails.truncate(30);
    let meta = json!({
        "files": files,
        "evaluations": g.terms.len() + env_keep.len(),
        "distinct_nontrivial": g.by_kind.get("estimate").copied().unwrap_or(0) + g.by_kind.get("estimate_many").copied().unwrap_or(0),
        "rule": "gas_limit/byte_len of the crate = Model/Gas.v; every eth_estimateGas(/Many) request replayed by the model's loop with the recorded outcomes of the real runs as oracle: same runs, same answer; receipts: gasUsed <= min(len*12000, 2^64-1); failed transactions change at most the sender's nonce (before/after + twin instance); transaction with ceil(E/12000) bytes succeeds with eth_call's output",
        "samples": g.jsonl.iter().filter(|j| j["kind"] == "estimate").take(2).cloned().collect::<Vec<_>>(),
        "out_of_scope_observations": observations,
        "impl_failures": fails,
        "gas_cases_by_kind": g.by_kind,
        "env_cases_by_kind": envc.by_kind,
        "counters": counters,
        "harness_seconds": t0.elapsed().as_secs_f64(),
    });
    std::fs::write(out.join("c16_meta.json"), serde_json::to_string_pretty(&meta)?)?;
    Ok(())
}

/// On the twin: a block with a no-op of `sender` (a call without code: succeeds, bumps the nonce), or an empty block.
fn twin_noop(twin: &mut Drv, sender: Option<&Sender>, ts: u64, h: &Hx) {
    if let Some(s) = sender {
        let to = Some(Address::from_slice(&[0x77; 20]));
        match s {
            Sender::Pk(i) => { let _ = twin.call(PKSCRIPTS[*i % 4], to, Some(&[]), 4, &Hx::zero32(), ts, h); }
            Sender::Signer(i) => { let n = twin.nonce(sim::signer_address(*i)); let _ = twin.transact(*i, n, to, &[], 4, &Hx::zero32(), ts, h); }
        }
    }
    let _ = twin.finalise(ts, h);
}

trait OutputOf { fn to_output(&self, d: &mut Drv) -> Vec<u8>; }
impl OutputOf for crate::c17::TxOutcome {
    /// what the transaction "returned": the runtime code for a successful creation, the trace output otherwise
    fn to_output(&self, d: &mut Drv) -> Vec<u8> {
        if self.receipt.get("to").map(|t| t.is_null()).unwrap_or(false) && self.status == Some(true) {
            if let Some(a) = self.created { return d.code(a).map(|c| c.0).unwrap_or_default(); }
        }
        self.output.clone().unwrap_or_default()
    }
}
