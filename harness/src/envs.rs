//! Shared driver for C16 / C17 / C19: one engine instance (sim::Inst) under a chosen network
//! configuration, the indexer calls and reads the three checks need, the EVM recorder of the hook
//! module (`evm_env` / `evm_result` notes) paired with the inputs each sample was produced from,
//! and the printing of those samples as cases of Model/TieEnv.v.
//!
//! Nothing here is a model: expectations live in the Coq model (cases) or in the callers'
//! independent references (impl_failures).
#![allow(dead_code)]
use std::collections::BTreeMap;
use std::time::{SystemTime, UNIX_EPOCH};

use alloy::primitives::{keccak256, Address, U256};
use brc20_prog::verif_hooks as vh;
use serde_json::{json, Value};

use crate::sim::{self, Ev, Hx, Inst, RpcFail};

pub const CHAIN_ID_MAINNET: u64 = 0x42_5243_3230;
pub const CHAIN_ID_TESTNETS: u64 = 0x4252_4332_3073;

#[derive(Clone, Debug)]
pub struct NetCfg {
    /// CONFIG.bitcoin_rpc_network
    pub network: &'static str,
    pub chain_id: u64,
    /// CONFIG.evm_call_gas_limit
    pub cap: u64,
    pub genesis_height: u64,
}
impl NetCfg {
    pub fn regtest() -> NetCfg { NetCfg { network: "regtest", chain_id: CHAIN_ID_TESTNETS, cap: sim::CALL_GAS_LIMIT, genesis_height: 0 } }
    pub fn signet(genesis_height: u64) -> NetCfg { NetCfg { network: "signet", chain_id: CHAIN_ID_TESTNETS, cap: sim::CALL_GAS_LIMIT, genesis_height } }
    pub fn mainnet(genesis_height: u64) -> NetCfg { NetCfg { network: "mainnet", chain_id: CHAIN_ID_MAINNET, cap: sim::CALL_GAS_LIMIT, genesis_height } }
    pub fn coq_net(&self) -> &'static str {
        match self.network { "bitcoin" | "mainnet" => "NetBitcoin", "signet" => "NetSignet", _ => "NetOther" }
    }
    pub fn coq(&self) -> String { format!("(mkConfig {} {} {})", self.chain_id, self.coq_net(), self.cap) }
    pub fn prague_at(&self, height: u64) -> bool {
        let (pm, ps, _, _) = vh::verif_fork_heights();
        match self.network { "bitcoin" | "mainnet" => height >= pm, "signet" => height >= ps, _ => true }
    }
}

/// Replaces the process-wide configuration (the instance must already exist: sim installs its own
/// configuration once, when the first instance is created).
pub fn apply_cfg(c: &NetCfg) {
    let d = vh::Brc20ProgConfig::from_env();
    vh::set_config(vh::Brc20ProgConfig {
        brc20_prog_rpc_server_url: "127.0.0.1:0".to_string(),
        brc20_prog_rpc_server_enable_auth: false,
        brc20_prog_rpc_server_user: None,
        brc20_prog_rpc_server_password: None,
        evm_record_traces: true,
        evm_call_gas_limit: c.cap,
        bitcoin_rpc_url: "http://127.0.0.1:9".to_string(),
        bitcoin_rpc_user: String::new(),
        bitcoin_rpc_password: String::new(),
        bitcoin_rpc_network: c.network.to_string(),
        chain_id: c.chain_id,
        fail_on_bitcoin_rpc_error: false,
        ..d
    });
    vh::set_env_recording(true);
}

pub fn now_secs() -> u64 { SystemTime::now().duration_since(UNIX_EPOCH).map(|d| d.as_secs()).unwrap_or(0) }

// ------------------------------------------------------------------------------------------
// numbers for Coq
// ------------------------------------------------------------------------------------------
pub fn n_hex(s: &str) -> String {
    let b = hex::decode(s.trim_start_matches("0x")).unwrap_or_default();
    n_bytes(&b)
}
pub fn n_bytes(b: &[u8]) -> String {
    if b.len() > 32 { return "0".into(); }
    U256::from_be_slice(b).to_string()
}
pub fn n_addr(a: Address) -> String { n_bytes(a.as_slice()) }
pub fn coq_bytes_id(data: &[u8]) -> String { format!("(mkBytes {} {})", data.len(), n_bytes(keccak256(data).as_slice())) }
pub fn coq_opt(o: Option<String>) -> String { match o { Some(s) => format!("(Some {})", s), None => "None".into() } }
pub fn coq_list(v: &[String]) -> String { format!("[{}]", v.join("; ")) }

// ------------------------------------------------------------------------------------------
// samples
// ------------------------------------------------------------------------------------------
#[derive(Clone, Debug)]
pub struct Sample { pub env: Value, pub result: Value }

impl Sample {
    pub fn site(&self) -> &str { self.env["site"].as_str().unwrap_or("") }
    pub fn gas_limit(&self) -> u64 { self.env["tx"]["gas_limit"].as_u64().unwrap_or(0) }
    pub fn class(&self) -> &str { self.result["class"].as_str().unwrap_or("") }
    pub fn ok(&self) -> bool { self.class() == "success" }
    pub fn gas_used(&self) -> u64 { self.result["gas_used"].as_u64().unwrap_or(0) }
    pub fn output_hex(&self) -> String { self.result["output"].as_str().unwrap_or("").to_string() }
    /// Fields of the hook dump the Coq records do not carry; they must have these fixed values.
    pub fn fixed_fields_ok(&self) -> Result<(), String> {
        let e = &self.env;
        if e["cfg"]["disable_nonce_check"] != json!(false) { return Err("disable_nonce_check is set".into()); }
        if e["cfg"]["tx_chain_id_check"] != json!(true) { return Err("tx_chain_id_check is off".into()); }
        if e["tx"]["tx_type"] != json!(0) { return Err(format!("tx_type {}", e["tx"]["tx_type"])); }
        let spec = e["cfg"]["spec"].as_str().unwrap_or("");
        if spec != "CANCUN" && spec != "PRAGUE" { return Err(format!("unexpected spec {}", spec)); }
        if e["prague_or_later"] != json!(spec == "PRAGUE") { return Err("spec ordering".into()); }
        Ok(())
    }
    /// `mkEnv ...` term of Model/Env.v for the recorded environment.
    pub fn coq_env(&self) -> String {
        let e = &self.env;
        let b = &e["block"];
        let s = |v: &Value| v.as_str().map(|x| x.to_string()).unwrap_or_else(|| v.to_string());
        let prev = match b["prevrandao"].as_str() { Some(h) => format!("(Some {})", n_hex(h)), None => "None".into() };
        let blob = match (b["blob_excess_gas"].as_u64(), b["blob_gasprice"].as_str()) {
            (Some(x), Some(p)) => format!("(Some ({}, {}))", x, p),
            _ => "None".into(),
        };
        let block = format!("(mkBlock {} {} {} {} {} {} {} {})", s(&b["number"]), n_hex(b["beneficiary"].as_str().unwrap_or("")),
            s(&b["timestamp"]), b["gas_limit"], b["basefee"], s(&b["difficulty"]), prev, blob);
        let c = &e["cfg"];
        let spec = if c["spec"].as_str() == Some("CANCUN") { "CANCUN" } else { "PRAGUE" };
        let cfg = format!("(mkCfg {} {} {})", c["chain_id"], spec, coq_opt(c["limit_contract_code_size"].as_u64().map(|x| x.to_string())));
        let t = &e["tx"];
        let kind = match t["kind"].as_str() { Some("create") => "KCreate".to_string(), Some(a) => format!("(KCall {})", n_hex(a)), None => "KCreate".into() };
        let tx = format!("(mkTx {} {} (mkBytes {} {}) {} {} {} {} {})", n_hex(t["caller"].as_str().unwrap_or("")), kind,
            t["data_len"], n_hex(t["data_keccak"].as_str().unwrap_or("")), t["nonce"], t["gas_limit"], s(&t["gas_price"]), s(&t["value"]),
            coq_opt(t["chain_id"].as_u64().map(|x| x.to_string())));
        format!("(mkEnv {} {} {} {} {})", block, cfg, tx, n_hex(e["op_return_tx_id"].as_str().unwrap_or("")),
            if e["txid_precompile_registered"] == json!(true) { "true" } else { "false" })
    }
}

/// Pairs every `evm_env` note with the `evm_result` note that follows it.
pub fn samples_of(events: &[Ev]) -> Vec<Sample> {
    let mut out: Vec<Sample> = Vec::new();
    for e in events {
        if let Ev::Note(s) = e {
            if let Some(j) = s.strip_prefix("evm_env ") {
                out.push(Sample { env: serde_json::from_str(j).unwrap_or(Value::Null), result: Value::Null });
            } else if let Some(j) = s.strip_prefix("evm_result ") {
                if let Some(l) = out.last_mut() { if l.result.is_null() { l.result = serde_json::from_str(j).unwrap_or(Value::Null); } }
            }
        }
    }
    out
}

// ------------------------------------------------------------------------------------------
// inputs as Coq terms (Model/Env.v) + the case list
// ------------------------------------------------------------------------------------------
#[derive(Clone, Debug)]
pub struct Ti { pub from: Address, pub to: Option<Address>, pub data: Vec<u8> }
impl Ti {
    /// eth_call / eth_estimateGas glue (both `from` and `to` given explicitly or not)
    pub fn coq_ethcall(from: Option<Address>, to: Option<Address>, data: &[u8]) -> String {
        format!("(ethcall_ti INVALID_ADDRESS {} {} {})", coq_opt(from.map(n_addr)), coq_opt(to.map(n_addr)), coq_bytes_id(data))
    }
}

#[derive(Clone, Debug, Default)]
pub struct Cases {
    pub terms: Vec<String>,
    pub jsonl: Vec<Value>,
    pub by_kind: BTreeMap<String, u64>,
    pub problems: Vec<Value>,
}
impl Cases {
    pub fn push(&mut self, kind: &str, term_of: impl FnOnce(usize) -> String, desc: Value) {
        let id = self.terms.len();
        self.terms.push(term_of(id));
        let mut d = desc;
        d["id"] = json!(id);
        d["kind"] = json!(kind);
        self.jsonl.push(d);
        *self.by_kind.entry(kind.to_string()).or_insert(0) += 1;
    }
    pub fn problem(&mut self, what: &str, case: Value) { self.problems.push(json!({"what": what, "case": case})); }
}

// ------------------------------------------------------------------------------------------
// the driver
// ------------------------------------------------------------------------------------------
#[derive(Clone, Debug)]
pub struct Parked { pub signer: usize, pub nonce: u64, pub to: Option<Address>, pub data: Vec<u8>, pub len: u64, pub txid: Hx, pub parked_at: u64 }

pub struct Drv {
    pub inst: Inst,
    pub cfg: NetCfg,
    /// the height of the block under construction (harness bookkeeping, from accepted calls only)
    pub next: u64,
    pub waiting: u64,
    pub open_ts: u64,
    pub open_hash: Hx,
    /// resolved hashes of the finalised blocks
    pub hashes: BTreeMap<u64, Hx>,
    pub pool: Vec<Parked>,
    pub insc: u64,
    pub cases: Cases,
    /// every rpc sent (method, params, answer class), for replays
    pub log: Vec<Value>,
    pub record_cases: bool,
    /// (next, hashes, pool) as of the last accepted commit (what clearCaches goes back to)
    pub committed: Option<(u64, BTreeMap<u64, Hx>, Vec<Parked>)>,
}

pub type Rpc = Result<Value, RpcFail>;

pub fn hexu(v: &Value) -> u64 { v.as_str().and_then(|s| u64::from_str_radix(s.trim_start_matches("0x"), 16).ok()).unwrap_or(0) }

impl Drv {
    pub fn new(cfg: NetCfg) -> Drv {
        let inst = Inst::temp();
        apply_cfg(&cfg);
        let next = cfg.genesis_height;
        Drv { inst, cfg, next, waiting: 0, open_ts: 0, open_hash: Hx::zero32(), hashes: BTreeMap::new(), pool: vec![], insc: 0,
              cases: Cases::default(), log: vec![], record_cases: true, committed: None }
    }

    pub fn rpc(&mut self, method: &str, params: Value) -> (Rpc, Vec<Sample>) {
        // the configuration is process-wide: make sure it is this driver's
        apply_cfg(&self.cfg);
        let r = self.inst.rpc(method, params.clone());
        let ev = self.inst.events();
        let samples = samples_of(&ev);
        let class = match &r { Ok(_) => "ok".to_string(), Err(RpcFail::Err { message, .. }) => format!("err: {}", message.chars().take(120).collect::<String>()),
                               Err(RpcFail::Panic(m)) => format!("PANIC: {}", m), Err(RpcFail::Hang) => "HANG".into() };
        if self.log.len() < 4000 { self.log.push(json!({"method": method, "params": params, "answer": class})); }
        for s in &samples { if let Err(e) = s.fixed_fields_ok() { self.cases.problem(&format!("EVM environment: {}", e), json!({"method": method, "env": s.env})); } }
        (r, samples)
    }

    pub fn nonce(&mut self, a: Address) -> u64 {
        let (r, _) = self.rpc("eth_getTransactionCount", json!([Hx::addr(a).hex0x(), "latest"]));
        r.map(|v| hexu(&v)).unwrap_or(0)
    }
    pub fn storage(&mut self, a: Address, slot: u64) -> Hx {
        let (r, _) = self.rpc("eth_getStorageAt", json!([Hx::addr(a).hex0x(), Hx::n32(slot).hex0x()]));
        r.ok().and_then(|v| v.as_str().map(Hx::from_hex)).unwrap_or_default()
    }
    pub fn code(&mut self, a: Address) -> Option<Hx> {
        let (r, _) = self.rpc("eth_getCode", json!([Hx::addr(a).hex0x()]));
        r.ok().and_then(|v| v.as_str().map(Hx::from_hex))
    }
    pub fn block_number(&mut self) -> u64 { let (r, _) = self.rpc("eth_blockNumber", json!([])); r.map(|v| hexu(&v)).unwrap_or(0) }
    pub fn trace_output(&mut self, tx_hash: &str) -> Option<Hx> {
        let (r, _) = self.rpc("debug_traceTransaction", json!([tx_hash]));
        r.ok().and_then(|v| v.get("output").and_then(|o| o.as_str()).map(Hx::from_hex))
    }
    pub fn next_insc(&mut self) -> String { self.insc += 1; format!("{:064x}i{}", self.insc, 0) }

    fn resolve(&self, h: &Hx) -> Hx { sim::resolve_hash(self.next, h) }
    fn opened(&mut self, ts: u64, hash: &Hx, produced: u64) {
        if produced > 0 {
            if self.waiting == 0 { self.open_ts = ts; self.open_hash = hash.clone(); }
            self.waiting += produced;
        }
    }
    /// hash / timestamp to use for the next transaction of the block under construction
    pub fn block_fields(&self, ts: u64, hash: &Hx) -> (u64, Hx) { if self.waiting > 0 { (self.open_ts, self.open_hash.clone()) } else { (ts, hash.clone()) } }

    fn tx_case(&mut self, kind: &str, op: String, hash: &Hx, ts: u64, acct_nonce: u64, s: &Sample, desc: Value) {
        if !self.record_cases { return; }
        // independent reference (no model): an inscribed transaction runs with the Bitcoin txid of
        // the inscription that carried it (for a parked transaction: of its latest parking)
        if let (Some(want), Some(got)) = (desc["txid"].as_str(), s.env["op_return_tx_id"].as_str()) {
            if want.trim_start_matches("0x").to_lowercase() != got.trim_start_matches("0x").to_lowercase() {
                self.cases.problems.push(json!({"what": format!("C19: a {} transaction ran with current txid 0x{} but the inscription that carried it has txid {}", kind, got, want),
                    "case": {"network": self.cfg.network, "inputs": desc, "env": s.env, "history": self.log.clone()}}));
            }
        }
        let cf = self.cfg.coq();
        let number = self.next;
        let h = n_bytes(&hash.0);
        let env = s.coq_env();
        self.cases.push(kind, |id| format!("ETx {} {} {} {} {} {} {} {}", id, cf, op, number, h, ts, acct_nonce, env),
            json!({"site": s.site(), "inputs": desc, "number": number, "hash": hash.hex0x(), "ts": ts, "acct_nonce": acct_nonce, "env": s.env}));
    }

    // ---- indexer calls -------------------------------------------------------------------
    pub fn initialise(&mut self, hash: &Hx, ts: u64) -> Rpc {
        let h = self.cfg.genesis_height;
        let (r, ss) = self.rpc("brc20_initialise", json!([hash.hex0x(), ts, h]));
        // the Bitcoin RPC probe fails after genesis was created
        let created = match &r { Ok(_) => true, Err(RpcFail::Err { message, .. }) => message.starts_with("Bitcoin RPC status check failed"), _ => false };
        if created {
            if let Some(s) = ss.first() {
                let dl = s.env["tx"]["data_len"].as_u64().unwrap_or(0);
                let dk = n_hex(s.env["tx"]["data_keccak"].as_str().unwrap_or(""));
                // the deployment bytecode is an asset of the crate: its identity is taken from the sample
                self.tx_case("genesis", format!("(OGenesis (mkBytes {} {}))", dl, dk), hash, ts, 0, s, json!({"op": "initialise"}));
            }
            self.hashes.insert(h, sim::resolve_hash(h, hash));
            self.next = h + 1;
        }
        r
    }
    pub fn mine(&mut self, n: u64, ts: u64) -> Rpc {
        let (r, _) = self.rpc("brc20_mine", json!([n, ts]));
        if r.is_ok() { for _ in 0..n { self.hashes.insert(self.next, sim::generated_hash(self.next)); self.next += 1; } }
        r
    }
    pub fn finalise(&mut self, ts: u64, hash: &Hx) -> Rpc {
        let (ts, hash) = self.block_fields(ts, hash);
        let (r, _) = self.rpc("brc20_finaliseBlock", json!([ts, hash.hex0x(), self.waiting]));
        if r.is_ok() {
            self.hashes.insert(self.next, self.resolve(&hash));
            let n = self.next;
            self.pool.retain(|p| p.parked_at + 10 > n);
            self.next += 1;
            self.waiting = 0;
        }
        r
    }
    pub fn commit(&mut self) -> Rpc {
        let r = self.rpc("brc20_commitToDatabase", json!([])).0;
        if r.is_ok() { self.committed = Some((self.next, self.hashes.clone(), self.pool.clone())); }
        r
    }
    /// brc20_clearCaches: everything since the last commit is dropped (only used after a commit)
    pub fn clear(&mut self) -> Rpc {
        let r = self.rpc("brc20_clearCaches", json!([])).0;
        if r.is_ok() {
            if let Some((n, h, p)) = self.committed.clone() { self.next = n; self.hashes = h; self.pool = p; }
            self.waiting = 0;
        }
        r
    }
    pub fn reorg(&mut self, n: u64) -> Rpc {
        let (r, _) = self.rpc("brc20_reorg", json!([n]));
        if r.is_ok() && n + 1 < self.next {
            self.hashes.retain(|k, _| *k <= n);
            self.pool.retain(|p| p.parked_at <= n);
            self.next = n + 1;
            self.waiting = 0;
        }
        r
    }

    /// brc20_deploy; returns (answer, samples)
    pub fn deploy(&mut self, pk: &str, data: &[u8], len: u64, txid: &Hx, ts: u64, hash: &Hx) -> (Rpc, Vec<Sample>) {
        let (ts, hash) = self.block_fields(ts, hash);
        let from = sim::pkscript_address(pk);
        let an = self.nonce(from);
        let id = self.next_insc();
        let (r, ss) = self.rpc("brc20_deploy", json!([pk, Hx(data.to_vec()).hex0x(), Value::Null, ts, hash.hex0x(), self.waiting, id, len, txid.hex0x()]));
        if let Some(s) = ss.first() {
            let op = format!("(OInscr (deploy_ti INVALID_ADDRESS {} {}) {} {})", n_addr(from), coq_bytes_id(data), len, n_bytes(&txid.0));
            self.tx_case("deploy", op, &hash, ts, an, s, json!({"op": "deploy", "from": Hx::addr(from).hex0x(), "data_len": data.len(), "len": len, "txid": txid.hex0x()}));
        }
        if r.is_ok() { self.opened(ts, &hash, 1); }
        (r, ss)
    }
    /// brc20_call by address (`has_data == false` sends neither data parameter)
    pub fn call(&mut self, pk: &str, to: Option<Address>, data: Option<&[u8]>, len: u64, txid: &Hx, ts: u64, hash: &Hx) -> (Rpc, Vec<Sample>) {
        let (ts, hash) = self.block_fields(ts, hash);
        let from = sim::pkscript_address(pk);
        let an = self.nonce(from);
        let id = self.next_insc();
        let d = data.map(|d| json!(Hx(d.to_vec()).hex0x())).unwrap_or(Value::Null);
        let a = to.map(|a| json!(Hx::addr(a).hex0x())).unwrap_or(Value::Null);
        let (r, ss) = self.rpc("brc20_call", json!([pk, a, Value::Null, d, Value::Null, ts, hash.hex0x(), self.waiting, id, len, txid.hex0x()]));
        if let Some(s) = ss.first() {
            let op = format!("(OInscr (call_ti INVALID_ADDRESS {} {} {} {}) {} {})", n_addr(from), if data.is_some() { "true" } else { "false" },
                coq_opt(to.map(n_addr)), coq_bytes_id(data.unwrap_or(&[])), len, n_bytes(&txid.0));
            self.tx_case("call", op, &hash, ts, an, s, json!({"op": "call", "from": Hx::addr(from).hex0x(), "to": to.map(|a| Hx::addr(a).hex0x()), "data": data.map(|d| Hx(d.to_vec()).hex0x()), "len": len, "txid": txid.hex0x()}));
        }
        if r.is_ok() { self.opened(ts, &hash, 1); }
        (r, ss)
    }
    /// brc20_transact with a transaction signed by signer `si`; the harness's own pool bookkeeping
    /// says which parked transactions the drain loop is expected to execute
    pub fn transact(&mut self, si: usize, nonce: u64, to: Option<Address>, data: &[u8], len: u64, txid: &Hx, ts: u64, hash: &Hx) -> (Rpc, Vec<Sample>) {
        let (ts, hash) = self.block_fields(ts, hash);
        let from = sim::signer_address(si);
        let an = self.nonce(from);
        let raw = sim::sign_legacy(si, nonce, to, data.to_vec(), self.cfg.chain_id);
        let id = self.next_insc();
        let (r, ss) = self.rpc("brc20_transact", json!([Hx(raw).hex0x(), Value::Null, ts, hash.hex0x(), self.waiting, id, len, txid.hex0x()]));
        let desc = json!({"op": "transact", "signer": si, "nonce": nonce, "to": to.map(|a| Hx::addr(a).hex0x()), "data": Hx(data.to_vec()).hex0x(), "len": len, "txid": txid.hex0x()});
        if nonce == an {
            if let Some(s) = ss.first() {
                let op = format!("(OSigned {} {} {} {} {} {})", n_addr(from), nonce, coq_opt(to.map(n_addr)), coq_bytes_id(data), len, n_bytes(&txid.0));
                self.tx_case("signed", op, &hash, ts, an, s, desc.clone());
            }
            // drained: consecutive nonces found in the pool, still fresh
            let mut n = an + 1;
            let mut k = 1usize;
            loop {
                let Some(pos) = self.pool.iter().position(|p| p.signer == si && p.nonce == n) else { break };
                let p = self.pool.remove(pos);
                if p.parked_at + 10 > self.next {
                    match ss.get(k) {
                        Some(s) => {
                            let ti = format!("(mkTi {} (raw_kind {}) {} (Some {}))", n_addr(from), coq_opt(p.to.map(n_addr)), coq_bytes_id(&p.data), p.nonce);
                            let op = format!("(ODrained (park GAS_PER_BYTE {} {} {} {}))", ti, p.nonce, p.len, n_bytes(&p.txid.0));
                            self.tx_case("drained", op, &hash, ts, an, s, json!({"op": "drained", "signer": si, "nonce": p.nonce, "len": p.len, "txid": p.txid.hex0x(), "parked_at": p.parked_at}));
                        }
                        None => self.cases.problem("C19: a parked transaction that was due did not execute", json!({"trigger": desc, "nonce": p.nonce})),
                    }
                    k += 1;
                }
                n += 1;
            }
            if ss.len() > k { self.cases.problem("C19: more executions than the submitted transaction and the parked ones that were due", json!({"trigger": desc, "executions": ss.len(), "expected": k})); }
            if r.is_ok() { self.opened(ts, &hash, ss.len() as u64); }
        } else {
            if !ss.is_empty() { self.cases.problem("C19: a transaction whose nonce is not the account's executed", json!({"trigger": desc})); }
            if r.is_ok() && nonce > an && nonce < an + 10 {
                self.pool.retain(|p| !(p.signer == si && p.nonce == nonce));
                self.pool.push(Parked { signer: si, nonce, to, data: data.to_vec(), len, txid: txid.clone(), parked_at: self.next });
            }
        }
        (r, ss)
    }
    pub fn deposit(&mut self, pk: &str, ticker: &str, amount: u64, ts: u64, hash: &Hx, withdraw: bool) -> (Rpc, Vec<Sample>) {
        let (ts, hash) = self.block_fields(ts, hash);
        let indexer = Hx::from_hex(sim::INDEXER).to_address();
        let an = self.nonce(indexer);
        let id = self.next_insc();
        let m = if withdraw { "brc20_withdraw" } else { "brc20_deposit" };
        let (r, ss) = self.rpc(m, json!([pk, ticker, format!("0x{:x}", amount), ts, hash.hex0x(), self.waiting, id]));
        if let Some(s) = ss.first() {
            let dl = s.env["tx"]["data_len"].as_u64().unwrap_or(0);
            let dk = n_hex(s.env["tx"]["data_keccak"].as_str().unwrap_or(""));
            // the calldata is ABI encoding done by the crate: its identity is taken from the sample
            self.tx_case(if withdraw { "withdraw" } else { "deposit" }, format!("(OIndexer (mkBytes {} {}))", dl, dk), &hash, ts, an, s, json!({"op": m, "pk": pk, "ticker": ticker, "amount": amount}));
        }
        if r.is_ok() { self.opened(ts, &hash, 1); }
        (r, ss)
    }

    // ---- reads ---------------------------------------------------------------------------
    fn call_obj(from: Option<Address>, to: Option<Address>, data: &[u8]) -> Value {
        json!({"from": from.map(|a| Hx::addr(a).hex0x()), "to": to.map(|a| Hx::addr(a).hex0x()), "data": Hx(data.to_vec()).hex0x()})
    }
    fn read_case(&mut self, kind: &str, from: Option<Address>, to: Option<Address>, data: &[u8], height: Option<u64>, lo: u64, hi: u64, gas: Option<u64>, an: u64, s: &Sample) {
        if !self.record_cases { return; }
        let cf = self.cfg.coq();
        let ti = Ti::coq_ethcall(from, to, data);
        let next = self.next;
        let env = s.coq_env();
        let h = coq_opt(height.map(|x| x.to_string()));
        let g = coq_opt(gas.map(|x| x.to_string()));
        self.cases.push(kind, |id| format!("ERead {} {} {} {} {} {} {} {} {} {}", id, cf, ti, h, next, lo, hi, g, an, env),
            json!({"site": s.site(), "from": from.map(|a| Hx::addr(a).hex0x()), "to": to.map(|a| Hx::addr(a).hex0x()), "data_len": data.len(), "height": height, "next": next, "gas": gas, "acct_nonce": an, "env": s.env}));
    }
    /// eth_call; `block`: the block parameter as sent, with the height it denotes
    pub fn eth_call(&mut self, from: Option<Address>, to: Option<Address>, data: &[u8], block: Option<(String, u64)>) -> (Rpc, Vec<Sample>) {
        let an = self.nonce(from.unwrap_or(Hx::from_hex(sim::INVALID).to_address()));
        let lo = now_secs();
        let (r, ss) = self.rpc("eth_call", json!([Self::call_obj(from, to, data), block.as_ref().map(|b| b.0.clone())]));
        let hi = now_secs();
        if let Some(s) = ss.first() { self.read_case("eth_call", from, to, data, block.map(|b| b.1), lo, hi, None, an, s); }
        (r, ss)
    }
    /// eth_estimateGas: the first run carries no gas limit, the others the limit the loop chose
    /// (the loop itself is checked by the C16 cases; here each recorded limit is an input)
    pub fn estimate_gas(&mut self, from: Option<Address>, to: Option<Address>, data: &[u8]) -> (Rpc, Vec<Sample>) {
        let an = self.nonce(from.unwrap_or(Hx::from_hex(sim::INVALID).to_address()));
        let lo = now_secs();
        let (r, ss) = self.rpc("eth_estimateGas", json!([Self::call_obj(from, to, data), Value::Null]));
        let hi = now_secs();
        for (i, s) in ss.iter().enumerate() {
            if i == 0 { self.read_case("estimate_first", from, to, data, None, lo, hi, None, an, s); }
            else if i < 4 { self.read_case("estimate_step", from, to, data, None, lo, hi, Some(s.gas_limit()), an, s); }
        }
        (r, ss)
    }
    /// eth_callMany
    pub fn eth_call_many(&mut self, calls: &[Ti], txids: Option<&[Hx]>, block: Option<(String, u64)>) -> (Rpc, Vec<Sample>) {
        let mut accts: Vec<(Address, u64)> = vec![];
        for c in calls { if !accts.iter().any(|x| x.0 == c.from) { let n = self.nonce(c.from); accts.push((c.from, n)); } }
        let pd = match txids {
            Some(ids) => json!({"opReturnTxIds": ids.iter().map(|h| h.hex0x()).collect::<Vec<_>>(), "bitcoinTxHexes": {}}),
            None => Value::Null,
        };
        let objs: Vec<Value> = calls.iter().map(|c| Self::call_obj(Some(c.from), c.to, &c.data)).collect();
        let lo = now_secs();
        let (r, ss) = self.rpc("eth_callMany", json!([objs, block.as_ref().map(|b| b.0.clone()), pd]));
        let hi = now_secs();
        if self.record_cases && !ss.is_empty() {
            let cf = self.cfg.coq();
            let tis = coq_list(&calls.iter().map(|c| Ti::coq_ethcall(Some(c.from), c.to, &c.data)).collect::<Vec<_>>());
            let h = coq_opt(block.as_ref().map(|b| b.1.to_string()));
            let next = self.next;
            let tx = coq_opt(txids.map(|ids| coq_list(&ids.iter().map(|h| n_bytes(&h.0)).collect::<Vec<_>>())));
            let ac = coq_list(&accts.iter().map(|(a, n)| format!("({}, {})", n_addr(*a), n)).collect::<Vec<_>>());
            let envs = coq_list(&ss.iter().map(|s| s.coq_env()).collect::<Vec<_>>());
            self.cases.push("eth_callMany", |id| format!("EMulti {} {} {} {} {} {} {} {} None {} {}", id, cf, tis, h, next, lo, hi, tx, ac, envs),
                json!({"calls": objs, "txids": txids.map(|ids| ids.iter().map(|h| h.hex0x()).collect::<Vec<_>>()), "height": block.map(|b| b.1), "next": next,
                       "accts": accts.iter().map(|(a, n)| json!([Hx::addr(*a).hex0x(), n])).collect::<Vec<_>>(), "envs": ss.iter().map(|s| s.env.clone()).collect::<Vec<_>>()}));
        }
        (r, ss)
    }
}

/// The answer of eth_call / eth_callMany as (success, return data): an error answer "Execution
/// reverted: <ExecutionResult debug>" carries the revert data inside the debug text.
pub fn call_outcome(r: &Rpc) -> Option<(bool, Vec<u8>)> {
    match r {
        Ok(v) => v.as_str().map(|s| (true, hex::decode(s.trim_start_matches("0x")).unwrap_or_default())),
        Err(RpcFail::Err { message, .. }) if message.contains("reverted") => {
            // Revert { gas_used: .., output: 0x.. }  |  Halt { reason: .., gas_used: .. }
            let out = message.find("output: 0x").map(|i| {
                let rest = &message[i + 10..];
                let end = rest.find(|c: char| !c.is_ascii_hexdigit()).unwrap_or(rest.len());
                hex::decode(&rest[..end]).unwrap_or_default()
            }).unwrap_or_default();
            Some((false, out))
        }
        _ => None,
    }
}

pub const TIE_IMPORTS: &str = "From Brc.Model Require Import Base Table Engine Gas Env TieEnv.\nFrom BrcGen Require Import Consts.";
pub const TIE_EVAL: &str = "bad_env_cases GAS_PER_BYTE PRAGUE_ACTIVATION_HEIGHT_MAINNET PRAGUE_ACTIVATION_HEIGHT_SIGNET INDEXER_ADDRESS CONTROLLER_ADDRESS";
