//! C17 — eth_call predicts what the same transaction will do.
//!
//! On random chain states: at a block boundary ask eth_call(sender, target, data), then execute
//! the same sender / target / data as the next transaction (brc20_call / brc20_deploy, or a
//! signed brc20_transact carrying the account nonce) and compare the simulation's success flag
//! and return data with the receipt status and the debug_traceTransaction output; for creations
//! the simulation's return data with eth_getCode of the deployed address; child addresses
//! (CREATE inside, nonce-derived top-level addresses) through eth_callMany.
//! Programs in scope do not read timestamp / randomness / remaining gas / current txid.
//!
//! Coq cases: the environment samples of both sides (TieEnv: model = recorded) and one EPair case
//! per pair (recorded simulation env = recorded transaction env under the mask).
use std::path::Path;
use std::time::Instant;

use alloy::primitives::{Address, U256};
use serde_json::{json, Value};

use crate::coqfmt as cf;
use crate::envs::{self, call_outcome, Drv, NetCfg, Sample, Ti};
use crate::rng::Rng;
use crate::sim::{self, cd, Hx, PKSCRIPTS};

fn rnd_hash(rng: &mut Rng) -> Hx {
    let mut v = Vec::with_capacity(32);
    for _ in 0..4 { v.extend_from_slice(&rng.next().to_be_bytes()); }
    Hx(v)
}

#[derive(Clone, Debug)]
pub enum Sender { Pk(usize), Signer(usize) }
impl Sender {
    pub fn address(&self) -> Address { match self { Sender::Pk(i) => sim::pkscript_address(PKSCRIPTS[*i % 4]), Sender::Signer(i) => sim::signer_address(*i) } }
}

#[derive(Clone, Debug)]
pub struct Cand { pub sender: Sender, pub to: Option<Address>, pub data: Vec<u8>, pub label: String }

pub struct World { pub tools: Vec<Address>, pub funded: bool, /// (refunder, forwarder) gas-shape contracts
    pub shapes: Option<(Address, Address)> }

/// Deterministic world: genesis, two multi-tools, some storage, a funded pkscript.
pub fn build_world(d: &mut Drv, rng: &mut Rng, fails: &mut Vec<Value>) -> Option<World> {
    let t0 = 1_700_000_000u64;
    let _ = d.initialise(&Hx::zero32(), t0);
    if d.next != d.cfg.genesis_height + 1 { fails.push(json!({"what": "setup: genesis not created", "case": {"network": d.cfg.network}})); return None; }
    let h = rnd_hash(rng);
    let mut tools = vec![];
    for i in 0..2 {
        let (r, _) = d.deploy(PKSCRIPTS[i], &sim::multitool_init(), 400, &rnd_hash(rng), t0 + 600, &h);
        match r.ok().and_then(|v| v.get("contractAddress").and_then(|a| a.as_str()).map(|s| Hx::from_hex(s).to_address())) {
            Some(a) if a != Address::ZERO => tools.push(a),
            _ => { fails.push(json!({"what": "setup: multi-tool deployment failed", "case": {"history": d.log.clone()}})); return None; }
        }
    }
    let (r, _) = d.deposit(PKSCRIPTS[0], "ordi", 1_000_000, t0 + 600, &h, false);
    let funded = r.map(|v| v.get("status").and_then(|s| s.as_str()) == Some("0x1")).unwrap_or(false);
    let _ = d.call(PKSCRIPTS[1], Some(tools[0]), Some(&cd::sstore(U256::from(1), U256::from(77))), 50, &rnd_hash(rng), t0 + 600, &h);
    // gas-shape contracts: refunder (32 slots set to 5), burner, forwarder
    let addr_of = |r: envs::Rpc| r.ok().and_then(|v| v.get("contractAddress").and_then(|a| a.as_str()).map(|s| Hx::from_hex(s).to_address())).filter(|a| *a != Address::ZERO);
    let refunder = addr_of(d.deploy(PKSCRIPTS[2], &sim::init_returning(&sim::refunder_runtime()), 400, &rnd_hash(rng), t0 + 600, &h).0);
    let burner = addr_of(d.deploy(PKSCRIPTS[2], &sim::init_returning(&sim::burner_runtime()), 400, &rnd_hash(rng), t0 + 600, &h).0);
    let forwarder = burner.and_then(|b| addr_of(d.deploy(PKSCRIPTS[2], &sim::init_returning(&sim::forwarder_runtime(b)), 400, &rnd_hash(rng), t0 + 600, &h).0));
    if let Some(r) = refunder { let _ = d.call(PKSCRIPTS[2], Some(r), Some(&U256::from(5).to_be_bytes::<32>()), 100, &rnd_hash(rng), t0 + 600, &h); }
    let shapes = match (refunder, forwarder) { (Some(r), Some(f)) => Some((r, f)), _ => { fails.push(json!({"what": "setup: gas-shape contract deployment failed", "case": {"history": d.log.clone()}})); None } };
    let _ = d.finalise(t0 + 600, &h);
    Some(World { tools, funded, shapes })
}

/// A call that does not read timestamp, randomness, remaining gas (beyond forwarding) or the txid.
pub fn gen_cand(rng: &mut Rng, w: &World) -> Cand {
    let sender = if rng.chance(1, 3) { Sender::Signer(rng.below(sim::SIGNERS as u64) as usize) } else { Sender::Pk(rng.below(4) as usize) };
    let tool = *rng.pick(&w.tools);
    let other = w.tools[(w.tools.iter().position(|t| *t == tool).unwrap_or(0) + 1) % w.tools.len()];
    let small = |rng: &mut Rng| U256::from(rng.below(6));
    let inner = |rng: &mut Rng| -> (Vec<u8>, &'static str) {
        match rng.below(6) {
            0 => (cd::sstore(small(rng), U256::from(rng.next())), "sstore"),
            1 => { let n = rng.below(5) as usize; let ts: Vec<U256> = (0..n).map(|_| U256::from(rng.below(4))).collect(); (cd::log(&ts, U256::from(rng.next())), "log") }
            2 => (cd::revert(), "revert"),
            3 => (cd::create(), "create-child"),
            4 => (cd::sload(small(rng)), "sload"),
            _ => (cd::sload(U256::from(sim::SLOT_CHILD)), "sload-child"),
        }
    };
    let (to, data, label): (Option<Address>, Vec<u8>, String) = match rng.below(if w.shapes.is_some() { 21 } else { 18 }) {
        // a CALL whose target is the all-zero address (an account without code: succeeds with empty output;
        // a missing `to` would be a creation, a zero `to` is not), with data that behaves differently as init code
        17 if w.shapes.is_none() => (Some(Address::ZERO), match rng.below(3) { 0 => vec![0xfe], 1 => sim::init_reverting(), _ => sim::child_init() }, "call-zero-address".into()),
        20 => (Some(Address::ZERO), match rng.below(3) { 0 => vec![0xfe], 1 => sim::init_reverting(), _ => sim::child_init() }, "call-zero-address".into()),
        // a creation whose runtime code is a block-environment word the property does not exclude:
        // GASLIMIT (0x45), NUMBER (0x43), COINBASE (0x41), CHAINID (0x46), BASEFEE (0x48)
        16 => (None, vec![*rng.pick(&[0x45u8, 0x43, 0x41, 0x46, 0x48]), 0x5f, 0x52, 0x60, 0x20, 0x5f, 0xf3], "create-env-word".into()),
        17 => (w.shapes.map(|s| s.0), U256::from(rng.range(1, 9)).to_be_bytes::<32>().to_vec(), "refund-set".into()),
        18 => (w.shapes.map(|s| s.0), vec![0u8; 32], "refund-clear".into()),
        19 => (w.shapes.map(|s| s.1), vec![], "forward-burn".into()),
        0..=5 => { let (d, l) = inner(rng); (Some(tool), d, l.to_string()) }
        6 | 7 => { let (d, l) = inner(rng); (Some(tool), cd::call(other, &d), format!("nested-{}", l)) }
        8 => (Some(tool), cd::spin(), "spin".into()),
        9 => (Some(Hx::from_hex(sim::CONTROLLER).to_address()), sim::controller_transfer("ordi", sim::pkscript_address(PKSCRIPTS[2]), U256::from(rng.range(1, 50))), "controller-transfer".into()),
        10 => (Some(Hx::from_hex(sim::CONTROLLER).to_address()), sim::controller_mint("ordi", sim::pkscript_address(PKSCRIPTS[2]), U256::from(5)), "controller-mint".into()),
        11 => (None, sim::multitool_init(), "create-multitool".into()),
        12 => (None, if rng.chance(1, 2) { sim::child_init() } else { sim::init_reverting() }, "create-small".into()),
        13 => (None, if rng.chance(1, 2) { sim::init_garbage() } else { vec![] }, "create-garbage-or-empty".into()),
        14 => (Some(if rng.chance(1, 2) { Hx::from_hex(sim::INVALID).to_address() } else { Address::from_slice(&[0x77; 20]) }), vec![1, 2, 3], "call-no-code".into()),
        _ => (Some(Address::from_slice(&{ let mut a = [0u8; 20]; a[19] = 2; a })), vec![0xab; 40], "call-sha256-precompile".into()),
    };
    // a SIGNED transaction whose `to` field is the zero address is read as a contract creation by the engine
    // (TxInfo::from_raw_transaction, an explicit rule of the glue, like brc20_deploy with empty data being a call
    // to the invalid address): it does not have "the same target" as an eth_call to the zero address, so this
    // candidate is only sent as an inscription call
    let sender = if to == Some(Address::ZERO) { Sender::Pk(rng.below(4) as usize) } else { sender };
    Cand { sender, to, data, label }
}

pub struct TxOutcome { pub accepted: bool, pub status: Option<bool>, pub output: Option<Vec<u8>>, pub created: Option<Address>, pub receipt: Value, pub sample: Option<Sample>, pub gas_used: u64 }

/// Executes the candidate as the next transaction (own block unless one is open) and collects
/// receipt status, trace output and created address.
pub fn exec_cand(d: &mut Drv, c: &Cand, len: u64, txid: &Hx, ts: u64, hash: &Hx) -> TxOutcome {
    let (r, ss) = match &c.sender {
        Sender::Pk(i) => {
            if c.to.is_none() { d.deploy(PKSCRIPTS[*i % 4], &c.data, len, txid, ts, hash) }
            else { let (r, ss) = d.call(PKSCRIPTS[*i % 4], c.to, Some(&c.data), len, txid, ts, hash); (r, ss) }
        }
        Sender::Signer(i) => { let n = d.nonce(sim::signer_address(*i)); d.transact(*i, n, c.to, &c.data, len, txid, ts, hash) }
    };
    let receipt = match &r { Ok(Value::Array(a)) => a.first().cloned().unwrap_or(Value::Null), Ok(v) => v.clone(), Err(_) => Value::Null };
    if receipt.is_null() { return TxOutcome { accepted: false, status: None, output: None, created: None, receipt, sample: ss.into_iter().next(), gas_used: 0 }; }
    let status = receipt.get("status").and_then(|s| s.as_str()).map(|s| s == "0x1");
    let created = receipt.get("contractAddress").and_then(|a| a.as_str()).map(|s| Hx::from_hex(s).to_address());
    let txh = receipt.get("transactionHash").and_then(|h| h.as_str()).unwrap_or("").to_string();
    let output = d.trace_output(&txh).map(|h| h.0);
    let gas_used = envs::hexu(&receipt["gasUsed"]);
    TxOutcome { accepted: true, status, output, created, receipt, sample: ss.into_iter().next(), gas_used }
}

pub fn run(out: &Path, seed: u64, thorough: bool) -> Result<(), Box<dyn std::error::Error>> {
    let t0 = Instant::now();
    let mut rng = Rng::new(seed ^ 0xC17);
    let mut fails: Vec<Value> = vec![];
    let mut all = envs::Cases::default();
    let mut dist: std::collections::BTreeMap<String, u64> = Default::default();
    let mut pairs = 0u64;
    let mut agree_fail = 0u64;
    let mut agree_ok = 0u64;
    let mut glue_divergent = 0u64;
    let worlds = if thorough { 12 } else { 6 };
    let steps = if thorough { 400 } else { 110 };
    // ---- the very first boundary: an empty database (nothing finalised, no genesis yet) ----------
    // the simulation and the first transaction of block 0 must agree; only a creation can run code
    // there. The init code returns the block number / the hash of "block -1" as runtime code.
    for variant in 0..2u64 {
        let cfg = NetCfg::regtest();
        let mut d = Drv::new(cfg.clone());
        let init: Vec<u8> = if variant == 0 {
            { let mut a = sim::Asm::new(); a.op(sim::opc::NUMBER).op(sim::opc::PUSH0).op(sim::opc::MSTORE).pushn(32).op(sim::opc::PUSH0).op(sim::opc::RETURN); a.finish() }
        } else {
            { let mut a = sim::Asm::new(); a.pushn(1).op(sim::opc::NUMBER).op(sim::opc::ADD).op(sim::opc::PUSH0).op(sim::opc::MSTORE).pushn(32).op(sim::opc::PUSH0).op(sim::opc::RETURN); a.finish() }
        };
        let from = sim::pkscript_address(PKSCRIPTS[0]);
        let (sr, ssim) = d.eth_call(Some(from), None, &init, None);
        let sim_out = call_outcome(&sr).unwrap_or((false, vec![]));
        let h = rnd_hash(&mut rng);
        let (r, ss) = d.deploy(PKSCRIPTS[0], &init, 1000, &rnd_hash(&mut rng), 1_700_000_000, &h);
        pairs += 1;
        *dist.entry("empty-chain:create-number".into()).or_insert(0) += 1;
        let created = r.as_ref().ok().and_then(|v| v.get("contractAddress").and_then(|a| a.as_str()).map(|s| Hx::from_hex(s).to_address()));
        let tx_ok = r.as_ref().ok().map(|v| v.get("status").and_then(|s| s.as_str()) == Some("0x1")).unwrap_or(false);
        let code = created.and_then(|a| d.code(a)).map(|c| c.0).unwrap_or_default();
        if r.is_err() { fails.push(json!({"what": "C17: the first transaction on an empty database was not accepted", "case": {"answer": format!("{:?}", r), "history": d.log.clone()}})); }
        else if tx_ok != sim_out.0 || (tx_ok && code != sim_out.1) {
            fails.push(json!({"what": "C17: on an empty database eth_call of a creation and the same deployment as the first transaction differ", "case": {"init": Hx(init.clone()).hex0x(), "sim_ok": sim_out.0, "sim": Hx(sim_out.1.clone()).hex0x(), "tx_ok": tx_ok, "code": Hx(code).hex0x(), "history": d.log.clone()}}));
        } else { agree_ok += 1; }
        if let (Some(a), Some(b)) = (ssim.first(), ss.first()) {
            let (ea, eb) = (a.coq_env(), b.coq_env());
            d.cases.push("pair", |id| format!("EPair {} {} {}", id, ea, eb), json!({"sim_env": a.env, "tx_env": b.env, "label": "empty-chain"}));
        }
        let base = all.terms.len();
        for (i, t) in d.cases.terms.iter().enumerate() {
            let mut parts = t.splitn(3, ' ');
            let (c, _old, rest) = (parts.next().unwrap_or(""), parts.next(), parts.next().unwrap_or(""));
            all.terms.push(format!("{} {} {}", c, base + i, rest));
            let mut j = d.cases.jsonl[i].clone();
            j["id"] = json!(base + i);
            j["network"] = json!(cfg.network);
            all.jsonl.push(j);
        }
        for p in d.cases.problems.drain(..) { fails.push(p); }
    }
    for wi in 0..worlds {
        let cfg = match wi % 3 { 0 => NetCfg::regtest(), 1 => NetCfg::signet(0), _ => NetCfg::mainnet(0) };
        let mut d = Drv::new(cfg.clone());
        let Some(mut w) = build_world(&mut d, &mut rng, &mut fails) else { continue };
        let mut ts = 1_700_010_000u64;
        for _ in 0..steps {
            // perturb the chain state
            match rng.below(10) {
                0 => { ts += 600; let _ = d.mine(rng.range(1, 3), ts); }
                1 => { let _ = d.commit(); }
                2 if d.next > cfg.genesis_height + 4 => { let _ = d.reorg(d.next - 2); w.tools.retain(|_| true); }
                _ => {}
            }
            // tools deployed above a reorg target are gone: keep those that still have code
            let mut alive = vec![];
            for t in w.tools.clone() { if d.code(t).map(|c| !c.0.is_empty()).unwrap_or(false) { alive.push(t); } }
            if alive.len() < 2 {
                ts += 600;
                let h = rnd_hash(&mut rng);
                for i in 0..2 { let (r, _) = d.deploy(PKSCRIPTS[i], &sim::multitool_init(), 400, &rnd_hash(&mut rng), ts, &h);
                    if let Some(a) = r.ok().and_then(|v| v.get("contractAddress").and_then(|a| a.as_str()).map(|s| Hx::from_hex(s).to_address())) { alive.push(a); } }
                let _ = d.finalise(ts, &h);
            }
            w.tools = alive;
            if w.tools.len() < 2 { break; }

            let c = gen_cand(&mut rng, &w);
            let from = c.sender.address();
            *dist.entry(format!("{}{}", if matches!(c.sender, Sender::Signer(_)) { "signed:" } else { "inscription:" }, c.label)).or_insert(0) += 1;
            // ---- the simulation, at the block boundary --------------------------------------
            let (sr, ssim) = d.eth_call(Some(from), c.to, &c.data, None);
            let sim_out = match call_outcome(&sr) { Some(x) => x, None => (false, vec![]) };
            // child / nonce-derived addresses as the simulation sees them
            let mut sim_child: Option<Hx> = None;
            if c.label == "create-child" {
                let calls = vec![Ti { from, to: c.to, data: c.data.clone() }, Ti { from, to: c.to, data: cd::sload(U256::from(sim::SLOT_CHILD)) }];
                let (r, _) = d.eth_call_many(&calls, None, None);
                sim_child = r.ok().and_then(|v| v.get(1).and_then(|x| x.as_str()).map(Hx::from_hex));
            }
            let mut sim_sees_created: Option<bool> = None;
            let acct_nonce = d.nonce(from);
            let predicted = from.create(acct_nonce);
            if c.label == "create-multitool" {
                let calls = vec![Ti { from, to: None, data: c.data.clone() }, Ti { from, to: Some(predicted), data: cd::sload(U256::from(0)) }];
                let (r, _) = d.eth_call_many(&calls, None, None);
                sim_sees_created = r.ok().and_then(|v| v.get(1).and_then(|x| x.as_str()).map(|s| s.trim_start_matches("0x").len() == 64));
            }
            // ---- the transaction, next ---------------------------------------------------------
            ts += 600;
            let h = if rng.chance(1, 3) { Hx::zero32() } else { rnd_hash(&mut rng) };
            let txid = rnd_hash(&mut rng);
            let o = exec_cand(&mut d, &c, 1000, &txid, ts, &h);
            pairs += 1;
            let case = |d: &Drv| json!({"network": cfg.network, "sender": format!("{:?}", c.sender), "from": Hx::addr(from).hex0x(), "to": c.to.map(|a| Hx::addr(a).hex0x()),
                "data": Hx(c.data.clone()).hex0x(), "label": c.label, "height": d.next, "eth_call": format!("{:?}", sr).chars().take(400).collect::<String>(), "history_len": d.log.len(),
                "history": if d.log.len() <= 400 { json!(d.log) } else { json!(d.log[d.log.len() - 400..]) }});
            if !o.accepted { fails.push(json!({"what": "C17: the transaction following the simulation was not accepted", "case": case(&d)})); let _ = d.finalise(ts, &h); continue; }
            let tx_ok = o.status.unwrap_or(false);
            if tx_ok != sim_out.0 {
                fails.push(json!({"what": format!("C17: eth_call predicted {} but the same transaction {}", if sim_out.0 { "success" } else { "failure" }, if tx_ok { "succeeded" } else { "failed" }), "case": case(&d)}));
            } else if tx_ok { agree_ok += 1 } else { agree_fail += 1 }
            // return data
            if c.to.is_none() && tx_ok {
                let code = o.created.and_then(|a| d.code(a)).map(|c| c.0).unwrap_or_default();
                if code != sim_out.1 { fails.push(json!({"what": "C17: simulated creation returned other bytes than the runtime code the deployment installed", "case": {"base": case(&d), "sim": Hx(sim_out.1.clone()).hex0x(), "code": Hx(code).hex0x()}})); }
                // brc20_deploy with empty data is a call to the invalid address, not a creation (rpc glue, Env.deploy_ti)
                let is_creation = !(matches!(c.sender, Sender::Pk(_)) && c.data.is_empty());
                if is_creation && o.created != Some(predicted) { fails.push(json!({"what": "C17: deployed address is not the nonce-derived address of the sender", "case": {"base": case(&d), "created": format!("{:?}", o.created), "predicted": format!("{:?}", predicted)}})); }
                if let Some(seen) = sim_sees_created { if !seen { fails.push(json!({"what": "C17: a simulated batch does not see the created contract at the nonce-derived address", "case": case(&d)})); } }
            } else if sim_out.0 == tx_ok {
                let out = o.output.clone().unwrap_or_default();
                if out != sim_out.1 { fails.push(json!({"what": "C17: return data of eth_call differs from the output of the same transaction", "case": {"base": case(&d), "sim": Hx(sim_out.1.clone()).hex0x(), "tx": Hx(out).hex0x()}})); }
            }
            if let (Some(sc), true) = (&sim_child, tx_ok) {
                let real = d.storage(c.to.unwrap_or(Address::ZERO), sim::SLOT_CHILD);
                if &real != sc { fails.push(json!({"what": "C17: child address created inside the simulated call differs from the one the transaction created", "case": {"base": case(&d), "sim": sc.hex0x(), "tx": real.hex0x()}})); }
            }
            // recorded environments of the pair
            // (brc20_deploy with empty data is by design a call to the invalid address while eth_call without
            //  `to` is a creation: not the same TxInfo, see C17_empty_deploy_is_a_call; flag and data are still compared above)
            let same_txinfo = !(matches!(c.sender, Sender::Pk(_)) && c.to.is_none() && c.data.is_empty());
            if !same_txinfo { glue_divergent += 1; }
            if let (Some(a), Some(b), true) = (ssim.first(), o.sample.as_ref(), same_txinfo) {
                let (ea, eb) = (a.coq_env(), b.coq_env());
                d.cases.push("pair", |id| format!("EPair {} {} {}", id, ea, eb), json!({"sim_env": a.env, "tx_env": b.env, "label": c.label}));
            }
            let _ = d.finalise(ts, &h);
            if c.label == "create-multitool" && tx_ok && w.tools.len() < 4 { if let Some(a) = o.created { w.tools.push(a); } }
        }
        // merge cases
        let base = all.terms.len();
        for (i, t) in d.cases.terms.iter().enumerate() {
            let mut parts = t.splitn(3, ' ');
            let (c, _old, rest) = (parts.next().unwrap_or(""), parts.next(), parts.next().unwrap_or(""));
            all.terms.push(format!("{} {} {}", c, base + i, rest));
            let mut j = d.cases.jsonl[i].clone();
            j["id"] = json!(base + i);
            j["network"] = json!(cfg.network);
            all.jsonl.push(j);
        }
        for (k, v) in &d.cases.by_kind { *all.by_kind.entry(format!("{}/{}", cfg.network, k)).or_insert(0) += v; }
        for p in d.cases.problems.drain(..) { fails.push(p); }
    }
    let shards = (all.terms.len() / 20).max(1).min(16);
    let files = cf::write_shards(out, "c17_env", envs::TIE_IMPORTS, "ecase", envs::TIE_EVAL, &all.terms, shards)?;
    let mut jl = String::new();
    for j in &all.jsonl { jl.push_str(&j.to_string()); jl.push('\n'); }
    std::fs::write(out.join("c17_cases.jsonl"), jl)?;
    fails.sort_by_key(|f| f.to_string().len());
    fails.truncate(30);
    let meta = json!({
        "files": files,
        "evaluations": all.terms.len() as u64 + pairs,
        "distinct_nontrivial": pairs,
        "rule": "for every generated (sender, target, data) on a random chain state: eth_call at the block boundary, then the same as the next transaction; success flag = receipt status, return data = debug_traceTransaction output (creation: = eth_getCode of the deployed address), child and nonce-derived addresses equal; Coq: every recorded environment equals Model/Env.v's, and the two recorded environments of a pair are equal under env_mask",
        "samples": all.jsonl.iter().filter(|j| j["kind"] == "pair").take(2).cloned().collect::<Vec<_>>(),
        "impl_failures": fails,
        "pairs": pairs, "pairs_both_succeeded": agree_ok, "pairs_both_failed": agree_fail, "empty_deploy_pairs_without_env_pair": glue_divergent,
        "candidates": dist,
        "env_cases_by_network_and_kind": all.by_kind,
        "harness_seconds": t0.elapsed().as_secs_f64(),
    });
    std::fs::write(out.join("c17_meta.json"), serde_json::to_string_pretty(&meta)?)?;
    Ok(())
}
