//! Implementation-level property searches on top of `sim` (no model involved).
use std::path::Path;

use crate::rng::Rng;
use crate::sim::*;

pub fn main(cmd: &str, args: &[String], out: &Path, seed: u64, thorough: bool) -> Result<(), Box<dyn std::error::Error>> {
    let _ = (args, out, thorough);
    match cmd {
        "simprobe" => probe(seed),
        _ => Err("not yet".into()),
    }
}

fn probe(seed: u64) -> Result<(), Box<dyn std::error::Error>> {
    let t0 = std::time::Instant::now();
    let mut run = Run::new();
    println!("open: {:?}", t0.elapsed());
    let mut rng = Rng::new(seed);
    let h = gen_history(&mut rng, &GenParams::small());
    println!("history: {} ops", h.len());
    let t1 = std::time::Instant::now();
    run.run(&h);
    println!("run: {:?}, calls {}", t1.elapsed(), run.inst.calls);
    for (op, o) in &run.log {
        let r = serde_json::to_string(&o.result).unwrap();
        println!("{:<10} {:<50} {}", op.kind(), o.status.class(), &r[..r.len().min(100)]);
    }
    let t2 = std::time::Instant::now();
    let c0 = run.inst.calls;
    let obs = run.observe();
    println!("observe: {} keys, {:?}, calls {}", obs.len(), t2.elapsed(), run.inst.calls - c0);
    println!("height {:?} max_ever {:?}", run.tracker.height(), run.tracker.max_ever);
    Ok(())
}
