//! Implementation-level property searches on top of `sim` (no model involved): they look for a
//! concrete history on which the real code violates C01 / C03 / C05 / C06 / C10.
//!
//! `hx simcheck --out DIR --seed S --tier quick|thorough [--only c01,c03,...]` runs every selected
//! search in a few worker processes (the store event recorder and the configuration of the crate
//! are process-wide, so parallelism is by process) and writes `DIR/simcheck_<prop>.json`.
use std::collections::{BTreeMap, BTreeSet};
use std::path::Path;
use std::time::{Duration, Instant};

use alloy::consensus::{Block, Header, ReceiptWithBloom, TxEnvelope};
use alloy::primitives::{Bloom, Log, B256};
use alloy_rlp::Decodable;
use serde::Serialize;
use serde_json::{json, Value};

use crate::rng::Rng;
use crate::sim::*;

const PROPS: [&str; 5] = ["c01", "c03", "c05", "c06", "c10"];

fn shards_of(prop: &str) -> u64 { match prop { "c01" => 5, "c03" => 3, "c10" => 3, _ => 2 } }

fn arg(args: &[String], name: &str) -> Option<String> {
    args.iter().position(|a| a == name).and_then(|i| args.get(i + 1).cloned())
}

pub fn main(cmd: &str, args: &[String], out: &Path, seed: u64, thorough: bool) -> Result<(), Box<dyn std::error::Error>> {
    match cmd {
        "simprobe" => probe(args, seed),
        "simreplay" => replay(args),
        "simcheck-worker" => {
            let prop = arg(args, "--prop").ok_or("--prop")?;
            let shard: u64 = arg(args, "--shard").and_then(|s| s.parse().ok()).unwrap_or(0);
            worker(&prop, shard, out, seed, thorough)
        }
        "simcheck" => {
            let only: Vec<String> = arg(args, "--only").map(|s| s.split(',').map(|x| x.trim().to_lowercase()).collect()).unwrap_or_else(|| PROPS.iter().map(|s| s.to_string()).collect());
            for p in &only { if !PROPS.contains(&p.as_str()) { return Err(format!("unknown property {}", p).into()); } }
            parent(&only, out, seed, thorough)
        }
        _ => Err("unknown command".into()),
    }
}

// ------------------------------------------------------------------------------------------
// findings, distribution
// ------------------------------------------------------------------------------------------

#[derive(Clone, Debug, Serialize)]
pub struct Finding {
    /// stable label used to group equal failures
    pub signature: String,
    pub what: String,
    pub first_difference: Value,
    /// check-specific hint for re-evaluation while shrinking (c01: reorg depth)
    #[serde(skip)]
    pub focus: Option<i64>,
}
fn finding(sig: impl Into<String>, what: impl Into<String>, fd: Value) -> Finding {
    Finding { signature: sig.into(), what: what.into(), first_difference: fd, focus: None }
}

fn short(v: &Value) -> Value {
    let s = v.to_string();
    if s.len() > 400 { json!(format!("{}...({} chars)", &s[..400], s.len())) } else { v.clone() }
}

/// coarse family of a read method: failures are grouped by the set of families that differ
fn family(method: &str) -> &'static str {
    match method {
        "debug_traceTransaction" | "debug_getBlockTraceString" | "debug_getBlockTraceHash" => "traces",
        "eth_blockNumber" | "eth_getBlockByNumber" | "eth_getBlockByHash" | "eth_getBlockTransactionCountByNumber" | "eth_getBlockTransactionCountByHash"
        | "debug_getRawHeader" | "debug_getRawBlock" | "debug_getRawReceipts" => "blocks",
        "eth_getTransactionByHash" | "eth_getTransactionReceipt" | "eth_getTransactionByBlockNumberAndIndex" | "eth_getTransactionByBlockHashAndIndex"
        | "brc20_getTxReceiptByInscriptionId" | "brc20_getInscriptionIdByTxHash" | "eth_getLogs" => "transactions",
        "txpool_content" | "txpool_contentFrom" => "pool",
        _ => "state",
    }
}

fn diff_finding_one(prefix: &str, what: &str, d: &[(String, Value, Value)], names: (&str, &str)) -> Finding {
    let methods: BTreeSet<&str> = d.iter().map(|x| obs_method(&x.0)).collect();
    let fams: BTreeSet<&str> = methods.iter().map(|m| family(m)).collect();
    let sig = format!("{}:{}", prefix, fams.iter().cloned().collect::<Vec<_>>().join("+"));
    let (k, a, b) = &d[0];
    let mut fd = serde_json::Map::new();
    fd.insert("query".into(), json!(k));
    fd.insert(names.0.into(), short(a));
    fd.insert(names.1.into(), short(b));
    fd.insert("differing_queries".into(), json!(d.len()));
    fd.insert("differing_methods".into(), json!(methods));
    if let Some(x) = d.iter().find(|x| x.0 == "eth_blockNumber") { fd.insert("eth_blockNumber".into(), json!([x.1, x.2])); }
    fd.insert("more".into(), json!(d.iter().skip(1).take(6).map(|x| x.0.clone()).collect::<Vec<_>>()));
    finding(sig, format!("{} ({} queries differ; methods: {})", what, d.len(), methods.iter().cloned().collect::<Vec<_>>().join(", ")), Value::Object(fd))
}

fn is_trace_method(k: &str) -> bool { matches!(obs_method(k), "debug_traceTransaction" | "debug_getBlockTraceString" | "debug_getBlockTraceHash") }

/// One finding for the differing trace queries (traces are stored apart from everything else) and
/// one for all other differing queries, so that neither hides the other. The first is returned.
fn diff_finding(prefix: &str, what: &str, d: &[(String, Value, Value)], names: (&str, &str)) -> Finding {
    let rest: Vec<(String, Value, Value)> = d.iter().filter(|x| !is_trace_method(&x.0)).cloned().collect();
    if rest.is_empty() || rest.len() == d.len() { return diff_finding_one(prefix, what, d, names); }
    let traces: Vec<(String, Value, Value)> = d.iter().filter(|x| is_trace_method(&x.0)).cloned().collect();
    let mut f = diff_finding_one(prefix, what, &rest, names);
    f.first_difference["also_differing_trace_queries"] = json!(traces.len());
    f
}

#[derive(Default, Serialize, Clone)]
pub struct Dist {
    pub histories: u64,
    pub ops: u64,
    pub op_kinds: BTreeMap<String, u64>,
    pub block_sizes: BTreeMap<String, u64>,
    pub reorg_depths: BTreeMap<String, u64>,
    pub error_kinds: BTreeMap<String, u64>,
    pub injected_kinds: BTreeMap<String, u64>,
    pub rpc_calls: u64,
}
fn bump(m: &mut BTreeMap<String, u64>, k: impl Into<String>) { *m.entry(k.into()).or_insert(0) += 1; }
impl Dist {
    fn absorb(&mut self, run: &Run) {
        self.histories += 1;
        self.rpc_calls += run.inst.calls;
        let mut t = Tracker::default();
        for (i, (op, out)) in run.log.iter().enumerate() {
            self.ops += 1;
            bump(&mut self.op_kinds, op.kind());
            match &out.status {
                Status::Rejected(m) => bump(&mut self.error_kinds, err_class(m)),
                Status::Panic(m) => bump(&mut self.error_kinds, format!("PANIC {}", err_class(m))),
                Status::Hang => bump(&mut self.error_kinds, "HANG"),
                Status::Ok => {}
            }
            if let Op::Reorg(n) = op {
                let h = t.height().unwrap_or(0) as i64;
                bump(&mut self.reorg_depths, format!("{:+} {}", h - *n as i64, if out.status.is_ok() { "accepted" } else { "refused" }));
            }
            if let (Op::Finalise { .. }, true) = (op, out.status.is_ok()) { bump(&mut self.block_sizes, format!("{:02}", t.waiting())); }
            if let (Op::Mine { n, .. }, true) = (op, out.status.is_ok()) { *self.block_sizes.entry("00 (mined)".into()).or_insert(0) += n; }
            t.on(i, op, out);
        }
    }
    fn merge(&mut self, o: &Value) {
        let add = |m: &mut BTreeMap<String, u64>, v: Option<&Value>| {
            if let Some(Value::Object(x)) = v { for (k, n) in x { *m.entry(k.clone()).or_insert(0) += n.as_u64().unwrap_or(0); } }
        };
        self.histories += o["histories"].as_u64().unwrap_or(0);
        self.ops += o["ops"].as_u64().unwrap_or(0);
        self.rpc_calls += o["rpc_calls"].as_u64().unwrap_or(0);
        add(&mut self.op_kinds, o.get("op_kinds"));
        add(&mut self.block_sizes, o.get("block_sizes"));
        add(&mut self.reorg_depths, o.get("reorg_depths"));
        add(&mut self.error_kinds, o.get("error_kinds"));
        add(&mut self.injected_kinds, o.get("injected_kinds"));
    }
}

// ------------------------------------------------------------------------------------------
// C01: twin reorg
// ------------------------------------------------------------------------------------------

/// Two extra blocks both twins are extended with.
fn extension(tag: u64) -> Vec<Op> {
    let ts = 1_800_000_000 + tag;
    let tail = |insc: &str, bl: u64| Tail { ts, hash: Hx::zero32(), tx_idx: Idx::Auto, insc_id: insc.to_string(), byte_len: bl, op_return_tx_id: Hx::n32(0xabc) };
    let ts2 = ts + 600;
    let tail2 = |insc: &str| Tail { ts: ts2, hash: Hx::zero32(), tx_idx: Idx::Auto, insc_id: insc.to_string(), byte_len: 2000, op_return_tx_id: Hx::n32(0xdef) };
    vec![
        Op::Deploy { from_pkscript: PKSCRIPTS[1].into(), data: Hx(multitool_init()), enc: Enc::Hex, tail: tail("ext_dep_i0", 2000) },
        Op::Call { from_pkscript: PKSCRIPTS[0].into(), to: To::ByInscription("ext_dep_i0".into()), data: Hx(cd::context()), enc: Enc::Base64, tail: tail("ext_ctx_i0", 2000) },
        Op::Deposit { to_pkscript: PKSCRIPTS[2].into(), ticker: "OrDi".into(), amount: "0x11".into(), ts, hash: Hx::zero32(), tx_idx: Idx::Auto, insc_id: "ext_dpst_i0".into() },
        Op::Transact { raw_tx: Hx(sign_legacy(2, 0, None, multitool_init(), CHAIN_ID)), enc: Enc::Hex, tail: tail("ext_sgn0_i0", 2000) },
        Op::Transact { raw_tx: Hx(sign_legacy(2, 1, None, multitool_init(), CHAIN_ID)), enc: Enc::Hex, tail: tail("ext_sgn1_i0", 2000) },
        Op::Finalise { ts, hash: Hx::zero32(), tx_count: Idx::Auto },
        Op::Call { from_pkscript: PKSCRIPTS[3].into(), to: To::ByInscription("ext_dep_i0".into()), data: Hx(cd::log(&[alloy::primitives::U256::from(70)], alloy::primitives::U256::from(1))), enc: Enc::Hex, tail: tail2("ext_log_i0") },
        Op::Withdraw { from_pkscript: PKSCRIPTS[2].into(), ticker: "ordi".into(), amount: "0x1".into(), ts: ts2, hash: Hx::zero32(), tx_idx: Idx::Auto, insc_id: "ext_wdrw_i0".into() },
        Op::Finalise { ts: ts2, hash: Hx::zero32(), tx_count: Idx::Auto },
    ]
}

fn fatal_finding(prefix: &str, run: &Run) -> Option<Finding> {
    let (op, out) = run.log.last()?;
    if !out.status.is_fatal() { return None; }
    let msg = match &out.status { Status::Panic(m) => m.clone(), _ => "no answer within the watchdog time".into() };
    Some(finding(format!("{}:fatal:{}:{}", prefix, op.kind(), err_class(&msg)),
        format!("{} answered {} ({})", op.kind(), if matches!(out.status, Status::Hang) { "Hang" } else { "Panic" }, msg),
        json!({"op_index": run.log.len() - 1, "op": op, "panic": msg})))
}

/// Can the engine still take its write lock after what just happened? (eth_call takes it and
/// changes nothing; a poisoned lock makes it panic.)
fn liveness(run: &mut Run) -> String {
    if !run.tracker.at_boundary() { return "not probed (a block is open; executing reads would wait)".into(); }
    let r = run.inst.rpc("eth_call", json!([{"to": format!("0x{}", CONTROLLER), "data": "0x"}, null]));
    let _ = run.inst.events();
    match r {
        Ok(_) => "alive".into(),
        Err(RpcFail::Err { message, .. }) => format!("alive (eth_call answered: {})", err_class(&message)),
        Err(RpcFail::Panic(m)) => format!("DEAD: every later request that takes the write lock panics ({})", err_class(&m)),
        Err(RpcFail::Hang) => "DEAD: later requests hang".into(),
    }
}

/// `only_depths`: evaluate just the reorg targets `height - d` (`i64::MAX` = target 0); used while shrinking.
pub fn c01_eval(h: &[Op], only_depths: Option<&[i64]>, with_ext: bool, dist: Option<&mut Dist>) -> Vec<Finding> {
    let mut fs = Vec::new();
    let mut a0 = Run::new();
    let clean = a0.run(h);
    if let Some(d) = dist { d.absorb(&a0); }
    if !clean { fs.extend(fatal_finding("c01", &a0)); return fs; }
    let Some(height) = a0.tracker.height() else { return fs };
    let hist = a0.history();
    let log0 = a0.log.clone();
    let base_tracker = a0.tracker.clone();
    let mut u = a0.universe.clone();
    u.max_height = u.max_height.max(height + 2);
    let obs0 = a0.observe_with(&u);
    let lo = height.saturating_sub(12);
    let targets: Vec<u64> = match only_depths {
        Some(ds) => { let mut t: Vec<u64> = ds.iter().filter_map(|d| if *d == i64::MAX { Some(0) } else { let n = height as i64 - d; if n < 0 { None } else { Some(n as u64) } }).collect(); t.sort(); t.dedup(); t }
        None => (lo..=height + 1).collect(),
    };
    // a call that was answered with an error although it changed the store leaves the engine in a
    // state the answers do not describe (C05's subject); what a reorg does from there is not judged here
    if a0.log.iter().any(|(op, out)| out.status.is_rejected() && !Tracker::effective(op, out) && out.events.iter().any(is_mutation)) {
        return fs;
    }

    // the fresh twin, fed block by block; observation after every block in range
    let mut b = Run::new();
    let mut fed = 0usize;
    let mut obs_b: BTreeMap<u64, BTreeMap<String, Value>> = BTreeMap::new();
    let need_b: Vec<u64> = targets.iter().copied().filter(|n| *n < height && base_tracker.must_reject(&Op::Reorg(*n)).is_none()).collect();
    if let (Some(first), Some(last)) = (need_b.first().copied(), need_b.last().copied()) {
        for n in first..=last {
            let eff = base_tracker.effective_history(&log0, Some(n));
            if !b.run(&eff[fed.min(eff.len())..]) { fs.extend(fatal_finding("c01:twin", &b)); return fs; }
            fed = eff.len();
            if let Some(bad) = b.log.iter().position(|x| !Tracker::effective(&x.0, &x.1)) {
                fs.push(finding("c01:twin_refuses", "a call accepted by the instance is refused by a fresh instance fed the same accepted calls",
                    json!({"op": b.log[bad].0, "status_fresh": b.log[bad].1.status, "fresh_history_index": bad})));
                return fs;
            }
            if need_b.contains(&n) { obs_b.insert(n, b.observe_with(&u)); }
        }
    }

    // the history may contain reorgs of its own: compare the instance as it is with a fresh instance fed
    // its effective history; what differs already is reported once and left out of the sweep below
    let mut masked: BTreeSet<String> = BTreeSet::new();
    if hist.iter().any(|o| matches!(o, Op::Reorg(_))) {
        let eff = base_tracker.effective_history(&log0, None);
        if b.run(&eff[fed.min(eff.len())..]) {
            let ob = b.observe_with(&u);
            let d = diff_obs(&obs0, &ob);
            if !d.is_empty() {
                masked = d.iter().map(|x| x.0.clone()).collect();
                let tr: Vec<_> = d.iter().filter(|x| is_trace_method(&x.0)).cloned().collect();
                let rest: Vec<_> = d.iter().filter(|x| !is_trace_method(&x.0)).cloned().collect();
                for part in [tr, rest] {
                    if !part.is_empty() {
                        let mut f = diff_finding_one("c01:history_twin", "the history contains accepted reorgs; at its end the instance differs from a fresh instance fed only the calls that built the surviving blocks", &part, ("instance", "fresh"));
                        f.focus = Some(-1);
                        fs.push(f);
                    }
                }
                // state, blocks or transactions already differ from the twin: whatever a further reorg shows is
                // derivative. Stale trace rows alone cannot influence anything later (they are only ever read
                // back): those queries are left out and the sweep goes on.
                if d.iter().any(|x| !is_trace_method(&x.0)) { return fs; }
            }
        } else { fs.extend(fatal_finding("c01:twin", &b)); return fs; }
    }
    let unmasked = |d: Vec<(String, Value, Value)>| -> Vec<(String, Value, Value)> { d.into_iter().filter(|x| !masked.contains(&x.0)).collect() };

    // refused targets and the no-op target are chained on the first instance: each must change nothing
    let mut chained_ok = true;
    for n in targets.iter().copied() {
        let depth = height as i64 - n as i64;
        let expect = base_tracker.must_reject(&Op::Reorg(n));
        let chain_here = expect.is_some() || n == height;
        let mut fresh;
        let a: &mut Run = if chain_here && chained_ok { &mut a0 } else {
            fresh = Run::new();
            if !fresh.run(&hist) { fs.push(finding("c01:nondeterministic_replay", "replaying the same history panicked the second time", json!({}))); continue; }
            &mut fresh
        };
        let before = a.log.len();
        let status = a.step(&Op::Reorg(n)).status.clone();
        let mut f: Option<Finding> = None;
        match (&expect, &status) {
            (_, Status::Panic(_)) | (_, Status::Hang) => {
                let msg = match &status { Status::Panic(m) => m.clone(), _ => "hang".into() };
                let live = liveness(a);
                f = Some(finding(format!("c01:reorg_fatal:{}:{}", if expect.is_some() { "should_refuse" } else { "in_window" }, err_class(&msg)),
                    format!("brc20_reorg({}) at height {} (depth {}, highest block ever finalised {:?}) panicked: {}; engine afterwards: {}{}", n, height, depth, base_tracker.max_ever, msg, live,
                        expect.map(|r| format!("; the call should have been refused: {}", r)).unwrap_or_default()),
                    json!({"reorg_to": n, "height": height, "max_ever": base_tracker.max_ever, "panic": msg, "engine_after": live, "events_before_panic": a.log[before].1.events.len()})));
                if chain_here { chained_ok = false; }
            }
            (Some(r), Status::Ok) => {
                f = Some(finding(format!("c01:accepted_should_refuse:{}", r), format!("brc20_reorg({}) at height {} (highest ever {:?}) was accepted but must be refused: {}", n, height, base_tracker.max_ever, r),
                    json!({"reorg_to": n, "height": height, "max_ever": base_tracker.max_ever})));
                if chain_here { chained_ok = false; }
            }
            (None, Status::Rejected(m)) => {
                f = Some(finding(format!("c01:in_window_refused:{}", err_class(m)), format!("brc20_reorg({}) at height {} (highest ever {:?}) is inside the window but was refused: {}", n, height, base_tracker.max_ever, m),
                    json!({"reorg_to": n, "height": height, "max_ever": base_tracker.max_ever, "message": m})));
            }
            (Some(_), Status::Rejected(_)) => {
                let o = a.observe_with(&u);
                let d = diff_obs(&obs0, &o);
                if !d.is_empty() { f = Some(diff_finding("c01:refused_changed_state", &format!("refused brc20_reorg({}) at height {} changed what reads answer", n, height), &d, ("before", "after"))); chained_ok = false; }
                a.log.truncate(before);
            }
            (None, Status::Ok) if n == height => {
                let o = a.observe_with(&u);
                let d = diff_obs(&obs0, &o);
                if !d.is_empty() { f = Some(diff_finding("c01:noop_changed_state", &format!("brc20_reorg({}) to the current height changed what reads answer", n), &d, ("before", "after"))); chained_ok = false; }
                a.log.truncate(before);
            }
            (None, Status::Ok) => {
                let o = a.observe_with(&u);
                if let Some(ob) = obs_b.get(&n) {
                    let d = unmasked(diff_obs(&o, ob));
                    if !d.is_empty() {
                        let what = format!("after brc20_reorg({}) at height {} (depth {}) the instance differs from a fresh instance fed only blocks <= {}", n, height, depth, n);
                        let tr: Vec<_> = d.iter().filter(|x| is_trace_method(&x.0)).cloned().collect();
                        let rest: Vec<_> = d.iter().filter(|x| !is_trace_method(&x.0)).cloned().collect();
                        if !tr.is_empty() && !rest.is_empty() { let mut t = diff_finding_one("c01:twin", &what, &tr, ("reorged", "fresh")); t.focus = Some(depth); fs.push(t); }
                        f = Some(diff_finding("c01:twin", &what, &d, ("reorged", "fresh")));
                    } else if with_ext && (depth == 1 || depth as u64 == W.min(height) || depth == 4) {
                        // extend both with the same two blocks
                        let mut bn = Run::new();
                        let eff = base_tracker.effective_history(&log0, Some(n));
                        let ext = extension(n);
                        if bn.run(&eff) && bn.run(&ext) {
                            let ok_a = a.run(&ext);
                            if !ok_a { f = fatal_finding("c01:ext", a); }
                            else {
                                let sa: Vec<String> = a.log[a.log.len() - ext.len()..].iter().map(|x| x.1.status.class()).collect();
                                let sb: Vec<String> = bn.log[bn.log.len() - ext.len()..].iter().map(|x| x.1.status.class()).collect();
                                let mut uu = u.clone();
                                uu.merge(&a.universe);
                                uu.merge(&bn.universe);
                                let (oa, ob2) = (a.observe_with(&uu), bn.observe_with(&uu));
                                let d = unmasked(diff_obs(&oa, &ob2));
                                if sa != sb {
                                    f = Some(finding("c01:twin_ext_status", format!("after brc20_reorg({}) the two extra blocks are answered differently than on the fresh instance", n), json!({"reorged": sa, "fresh": sb})));
                                } else if !d.is_empty() {
                                    f = Some(diff_finding("c01:twin_ext", &format!("equal right after brc20_reorg({}), different after both were extended with the same two blocks", n), &d, ("reorged", "fresh")));
                                }
                            }
                        }
                    }
                }
            }
        }
        if let Some(mut x) = f { x.focus = Some(depth); fs.push(x); }
    }
    fs
}

// ------------------------------------------------------------------------------------------
// C03: commit schedules
// ------------------------------------------------------------------------------------------

fn closes_block(op: &Op) -> bool { matches!(op, Op::Finalise { .. } | Op::Mine { .. } | Op::Initialise { .. } | Op::Reorg(_)) }

/// `h` must not contain Commit / Clear / Reopen.
pub fn c03_eval(h: &[Op], seed: u64, dist: Option<&mut Dist>) -> Vec<Finding> {
    let mut fs = Vec::new();
    let mut rng = Rng::new(seed);
    // variant 5 never commits during the history and commits exactly once in the end game
    let scheds = [CommitSchedule::Never, CommitSchedule::Every, CommitSchedule::EveryK(3), CommitSchedule::Random, CommitSchedule::EveryK(2), CommitSchedule::Never];
    // variant 4 also reopens / clears right after some of its commits (nothing may be lost)
    let mut runs: Vec<Run> = scheds.iter().map(|_| Run::new()).collect();
    let mut k = 0u64;
    let mut alive = true;
    let mut variant_hist: Vec<Vec<Op>> = vec![vec![]; scheds.len()];
    for (pos, op) in h.iter().enumerate() {
        let mut statuses = Vec::new();
        for (v, r) in runs.iter_mut().enumerate() {
            let s = r.step(op).status.clone();
            variant_hist[v].push(op.clone());
            if s.is_fatal() { alive = false; }
            statuses.push(s.class());
        }
        if statuses.iter().any(|s| *s != statuses[0]) {
            fs.push(finding("c03:status", format!("{} is answered differently under different commit schedules", op.kind()),
                json!({"op_index": pos, "op": op, "statuses": scheds.iter().map(|s| format!("{:?}", s)).zip(statuses.iter()).collect::<Vec<_>>()})));
            break;
        }
        if !alive { fs.extend(fatal_finding("c03", &runs[0])); break; }
        if runs[0].tracker.desynced { alive = false; break; }
        if closes_block(op) && runs[0].tracker.at_boundary() && Tracker::effective(op, &runs[0].log.last().unwrap().1) {
            k += 1;
            let coin = rng.chance(1, 3);
            let after = rng.below(3);
            for (v, r) in runs.iter_mut().enumerate() {
                let commit = match scheds[v] { CommitSchedule::Never => false, CommitSchedule::Every => true, CommitSchedule::EveryK(n) => k % n == 0, CommitSchedule::Random => coin };
                if commit {
                    let s = r.step(&Op::Commit).status.clone();
                    variant_hist[v].push(Op::Commit);
                    if !s.is_ok() { fs.push(finding("c03:commit_refused", "commit at a block boundary was not accepted", json!({"status": s, "variant": format!("{:?}", scheds[v])}))); }
                    if v == 4 && after > 0 {
                        let o = if after == 1 { Op::Reopen } else { Op::Clear };
                        let s = r.step(&o).status.clone();
                        variant_hist[v].push(o);
                        if s.is_fatal() { alive = false; }
                    }
                }
            }
            if !alive { fs.extend(fatal_finding("c03", &runs[4])); break; }
            let u = runs[0].universe.clone();
            let o0 = runs[0].observe_with(&u);
            for v in 1..runs.len() {
                let ov = runs[v].observe_with(&u);
                let d = diff_obs(&o0, &ov);
                if !d.is_empty() {
                    let label = if v == 4 { "EveryK(2)+Reopen/Clear after commit" } else { "" };
                    let mut f = diff_finding(&format!("c03:schedule{}", if v == 4 { ":reopen" } else { "" }),
                        &format!("at the boundary after op {} (height {:?}) reads differ between schedule Never and {:?} {}", pos, runs[0].tracker.height(), scheds[v], label), &d, ("never", "other"));
                    f.first_difference["other_history"] = json!(variant_hist[v]);
                    fs.push(f);
                    return finish_c03(fs, runs, dist);
                }
            }
        }
    }
    // End game: "for any later sequence of operations" includes the deepest reorg the window
    // admits, issued right after a commit. The history is padded to a height above the window,
    // some variants commit exactly now (a commit at height B+W-1 for the keys of block B = the
    // edge of the history-retention rule), all variants reorg to the same target (half of the
    // time the deepest admissible one), and one more block is added on top.
    if fs.is_empty() && alive && runs[0].tracker.at_boundary() && !runs[0].tracker.desynced {
        if let Some(h0) = runs[0].tracker.height() {
            let w = brc20_prog::verif_hooks::MAX_REORG_HISTORY_SIZE;
            let mut tail: Vec<Op> = Vec::new();
            if h0 < w + 1 { tail.push(Op::Mine { n: w + 1 - h0, ts: 1_760_000_000 }); }
            let top = h0.max(w + 1);
            let max_ever = runs[0].tracker.max_ever.unwrap_or(top).max(top);
            let deepest = max_ever.saturating_sub(w);
            if deepest < top {
                let target = if rng.chance(1, 2) { deepest } else { deepest + rng.below(top - deepest) };
                let mut ok = true;
                'v: for (v, r) in runs.iter_mut().enumerate() {
                    for op in &tail { if r.step(op).status.is_fatal() { ok = false; break 'v; } variant_hist[v].push(op.clone()); }
                    // Never stays uncommitted; Every / EveryK(3) / Random / the second Never commit now; EveryK(2) keeps its own rhythm
                    if v == 1 || v == 2 || v == 3 || v == 5 { let _ = r.step(&Op::Commit); variant_hist[v].push(Op::Commit); }
                    for op in [Op::Reorg(target), Op::Mine { n: 1, ts: 1_760_000_100 }] {
                        if r.step(&op).status.is_fatal() { ok = false; break 'v; }
                        variant_hist[v].push(op);
                    }
                }
                if !ok { fs.extend(fatal_finding("c03", &runs[0])); return finish_c03(fs, runs, dist); }
                let st: Vec<String> = runs.iter().map(|r| r.log.iter().rev().take(2).map(|(_, o)| o.status.class()).collect::<Vec<_>>().join("/")).collect();
                if st.iter().any(|x| *x != st[0]) {
                    fs.push(finding("c03:endgame_status", format!("after a final commit, reorg({}) and one more block are answered differently under different commit schedules", target),
                        json!({"statuses": scheds.iter().map(|s| format!("{:?}", s)).zip(st.iter()).collect::<Vec<_>>(), "target": target, "histories": variant_hist})));
                    return finish_c03(fs, runs, dist);
                }
                let mut u = runs[0].universe.clone();
                for r in runs.iter().skip(1) { u.merge(&r.universe); }
                let o0 = runs[0].observe_with(&u);
                for v in 1..runs.len() {
                    let ov = runs[v].observe_with(&u);
                    let d = diff_obs(&o0, &ov);
                    if !d.is_empty() {
                        let mut f = diff_finding("c03:endgame", &format!("after the history, a commit at height {} (schedule {:?}), reorg({}) and one more block, reads differ from the run that never committed", top, scheds[v], target), &d, ("never", "other"));
                        f.first_difference["other_history"] = json!(variant_hist[v]);
                        f.first_difference["never_history"] = json!(variant_hist[0]);
                        fs.push(f);
                        return finish_c03(fs, runs, dist);
                    }
                }
            }
        }
    }
    if fs.is_empty() && alive && runs[0].tracker.at_boundary() {
        // commit + reopen at the end changes nothing
        let u = runs[0].universe.clone();
        let before = runs[0].observe_with(&u);
        let c = runs[0].step(&Op::Commit).status.clone();
        let r = runs[0].step(&Op::Reopen).status.clone();
        if c.is_ok() && r.is_ok() {
            let after = runs[0].observe_with(&u);
            let d = diff_obs(&before, &after);
            if !d.is_empty() { fs.push(diff_finding("c03:commit_reopen", "commit followed by reopen changed what reads answer", &d, ("before", "after"))); }
        } else if c.is_fatal() || r.is_fatal() { fs.extend(fatal_finding("c03", &runs[0])); }
    }
    finish_c03(fs, runs, dist)
}
fn finish_c03(fs: Vec<Finding>, runs: Vec<Run>, dist: Option<&mut Dist>) -> Vec<Finding> {
    if let Some(d) = dist { for r in &runs { d.absorb(r); } }
    fs
}

/// Clear / Reopen without commit: the instance must equal a fresh run of the committed prefix,
/// and keep doing so while both continue with the rest of the history (up to the first Reorg).
/// A scripted history that ends with Clear / Reopen: the instance must equal a fresh run of what its
/// commits (and accepted reorgs) made durable, also after one more block on both.
pub fn c03_script_eval(h: &[Op], dist: Option<&mut Dist>) -> Vec<Finding> {
    let mut fs = Vec::new();
    let mut l = Run::new();
    if !l.run(h) { fs.extend(fatal_finding("c03", &l)); return fs; }
    // (a refused call that wrote to the store marks the tracker "desynced": for a scripted history what
    //  must be durable is known from the accepted commits and reorgs alone, so the comparison is still made)
    let eff = l.tracker.effective_history(&l.log, None);
    let mut p = Run::new();
    if !p.run(&eff) { fs.extend(fatal_finding("c03:prefix", &p)); return fs; }
    let mut u = l.universe.clone();
    u.merge(&p.universe);
    let d = diff_obs(&l.observe_with(&u), &p.observe_with(&u));
    if !d.is_empty() {
        fs.push(diff_finding("c03:script_loss", "after the scripted history (ending with clearCaches / restart) the instance differs from a fresh run of what was made durable", &d, ("lost", "prefix")));
    } else {
        let more = Op::Mine { n: 1, ts: 1_770_000_000 };
        let (a, b) = (l.step(&more).status.class(), p.step(&more).status.class());
        let d = diff_obs(&l.observe_with(&u), &p.observe_with(&u));
        if a != b || !d.is_empty() {
            let mut f = diff_finding("c03:script_loss_later", "equal right after the scripted history, different after one more block on both", &d, ("lost", "prefix"));
            f.first_difference["statuses"] = json!([a, b]);
            fs.push(f);
        }
    }
    if let Some(f) = fs.last_mut() { f.first_difference["history_as_run"] = json!(l.history()); }
    if let Some(d) = dist { d.absorb(&l); d.absorb(&p); }
    fs
}

pub fn c03_loss_eval(h: &[Op], seed: u64, dist: Option<&mut Dist>) -> Vec<Finding> {
    let mut fs = Vec::new();
    let mut rng = Rng::new(seed ^ 0x10551055);
    let sched = if rng.chance(1, 2) { CommitSchedule::Random } else { CommitSchedule::EveryK(3) };
    // reorgs make orphaned-block leftovers durable (a C01 matter); this check is about commit points only
    let h: Vec<Op> = h.iter().filter(|o| !matches!(o, Op::Reorg(_))).cloned().collect();
    let hs = with_schedule(&h, sched, &mut rng.fork());
    let boundaries: Vec<usize> = hs.iter().enumerate().filter(|(_, o)| matches!(o, Op::Finalise { .. } | Op::Mine { .. }) || o.is_tx()).map(|(i, _)| i + 1).collect();
    if boundaries.is_empty() { return fs; }
    let cut = *rng.pick(&boundaries);
    let lose = if rng.chance(1, 2) { Op::Clear } else { Op::Reopen };
    let mut l = Run::new();
    if !l.run(&hs[..cut]) { fs.extend(fatal_finding("c03", &l)); return fs; }
    // a rejected call that changed the store (C05's subject) leaves a state the answers do not describe
    if l.tracker.desynced { return fs; }
    let mid_block = !l.tracker.at_boundary();
    if l.step(&lose).status.is_fatal() { fs.extend(fatal_finding("c03", &l)); return fs; }
    let eff = l.tracker.effective_history(&l.log, None);
    let mut p = Run::new();
    if !p.run(&eff) { fs.extend(fatal_finding("c03:prefix", &p)); return fs; }
    let rest: Vec<Op> = hs[cut..].iter().take_while(|o| !matches!(o, Op::Reorg(_))).filter(|o| !matches!(o, Op::Commit)).cloned().collect();
    // after the loss the rest of the history continues the open block it was cut in only if that block is gone entirely
    let rest: Vec<Op> = if mid_block { let skip = rest.iter().position(|o| matches!(o, Op::Finalise { .. })).map(|i| i + 1).unwrap_or(rest.len()); rest[skip..].to_vec() } else { rest };
    let mut u = l.universe.clone();
    u.merge(&p.universe);
    let (ol, op_) = (l.observe_with(&u), p.observe_with(&u));
    let d = diff_obs(&ol, &op_);
    if !d.is_empty() {
        fs.push(diff_finding("c03:loss", &format!("after {} without commit (cut at op {}, {}) the instance differs from a fresh run of the committed prefix", lose.kind(), cut, if mid_block { "mid-block" } else { "at a boundary" }), &d, ("lost", "prefix")));
    } else {
        let (a, b) = (l.run(&rest), p.run(&rest));
        if !a { fs.extend(fatal_finding("c03", &l)); } else if !b { fs.extend(fatal_finding("c03:prefix", &p)); } else {
            let sl: Vec<String> = l.log[l.log.len() - rest.len()..].iter().map(|x| x.1.status.class()).collect();
            let sp: Vec<String> = p.log[p.log.len() - rest.len()..].iter().map(|x| x.1.status.class()).collect();
            if let Some(i) = (0..rest.len()).find(|i| sl[*i] != sp[*i]) {
                fs.push(finding("c03:loss_status", format!("after {} without commit a later {} is answered differently than on a fresh run of the committed prefix", lose.kind(), rest[i].kind()), json!({"op": rest[i], "lost": sl[i], "prefix": sp[i]})));
            } else {
                let mut u2 = l.universe.clone();
                u2.merge(&p.universe);
                let d = diff_obs(&l.observe_with(&u2), &p.observe_with(&u2));
                if !d.is_empty() { fs.push(diff_finding("c03:loss_later", &format!("equal right after {} without commit, different after both continued with the same calls", lose.kind()), &d, ("lost", "prefix"))); }
            }
        }
    }
    if let Some(f) = fs.last_mut() { f.first_difference["history_as_run"] = json!(l.history()); }
    if let Some(d) = dist { d.absorb(&l); d.absorb(&p); }
    fs
}

// ------------------------------------------------------------------------------------------
// C05: rejected calls
// ------------------------------------------------------------------------------------------

pub fn c05_eval(hm: &[Op], injected: &[Injected], dist: Option<&mut Dist>) -> Vec<Finding> {
    let mut fs = Vec::new();
    let mut r1 = Run::new();
    let kind_at: BTreeMap<usize, &str> = injected.iter().map(|i| (i.pos, i.kind)).collect();
    let mut keep: Vec<usize> = Vec::new();
    for (i, op) in hm.iter().enumerate() {
        let resolved = r1.resolve(op);
        let expect = r1.tracker.must_reject(&resolved);
        let out = r1.step(op).clone();
        let label = kind_at.get(&i).copied().unwrap_or("generated");
        if out.status.is_fatal() {
            if let Some(mut f) = fatal_finding("c05", &r1) { f.what = format!("{} [call kind: {}]", f.what, label); fs.push(f); }
            break;
        }
        if let (Some(r), Status::Ok) = (expect, &out.status) {
            fs.push(finding(format!("c05:accepted:{}", r), format!("protocol violation accepted: {} ({}, {})", r, op.kind(), label), json!({"op_index": i, "op": resolved, "result": short(&out.result)})));
        }
        if let Status::Rejected(m) = &out.status {
            let muts: Vec<String> = out.events.iter().filter(|e| is_mutation(e)).map(ev_string).collect();
            // C05 puts one case out of scope: brc20_initialise reporting an unreachable Bitcoin node
            // after it has created the genesis block is an environment error
            let out_of_scope = matches!(op, Op::Initialise { .. }) && m.starts_with("Bitcoin RPC status check failed");
            if !muts.is_empty() && !out_of_scope {
                fs.push(finding(format!("c05:rejected_mutates:{}:{}", op.kind(), err_class(m)),
                    format!("{} was answered with the error \"{}\" after it had changed the store ({} mutation events)", op.kind(), m, muts.len()),
                    json!({"op_index": i, "op": resolved, "message": m, "mutation_events": muts.len(), "first_events": muts.iter().take(8).collect::<Vec<_>>()})));
            }
        }
        if !out.status.is_rejected() || Tracker::effective(&resolved, &out) { keep.push(i); }
        // from here on the answers no longer describe the engine (a block is open that no receipt told of):
        // what follows would only be consequences; the erasure comparison below shows the effect itself
        if r1.tracker.desynced { break; }
    }
    if r1.tracker.fatal { if let Some(d) = dist { d.absorb(&r1); for i in injected { bump(&mut d.injected_kinds, i.kind); } } return fs; }
    // the same history without the rejected calls (with the indexes the first run used)
    let h2: Vec<Op> = keep.iter().map(|i| r1.log[*i].0.clone()).collect();
    let s1: Vec<String> = keep.iter().map(|i| r1.log[*i].1.status.class()).collect();
    let mut r2 = Run::new();
    let ok2 = r2.run(&h2);
    if !ok2 { fs.extend(fatal_finding("c05:erased", &r2)); }
    else {
        let s2 = r2.statuses();
        if let Some(i) = (0..h2.len()).find(|i| s1[*i] != s2[*i]) {
            fs.push(finding(format!("c05:erase_status:{}", h2[i].kind()), format!("with the rejected calls removed, {} is answered {} instead of {}", h2[i].kind(), s2[i], s1[i]),
                json!({"op": h2[i], "with_rejected_calls": s1[i], "without": s2[i], "index_in_erased_history": i})));
        } else {
            let mut u = r1.universe.clone();
            u.merge(&r2.universe);
            let d = diff_obs(&r1.observe_with(&u), &r2.observe_with(&u));
            if !d.is_empty() { fs.push(diff_finding("c05:erase", "the run with rejected calls and the run without them answer reads differently", &d, ("with_rejected_calls", "without"))); }
        }
    }
    if let Some(d) = dist { d.absorb(&r1); d.absorb(&r2); for i in injected { bump(&mut d.injected_kinds, i.kind); } }
    fs
}

// ------------------------------------------------------------------------------------------
// C06: coherence, recomputed independently
// ------------------------------------------------------------------------------------------

fn hu(v: &Value, k: &str) -> Option<u64> { v.get(k)?.as_str().and_then(|s| u64::from_str_radix(s.trim_start_matches("0x"), 16).ok()) }
fn hs<'a>(v: &'a Value, k: &str) -> &'a str { v.get(k).and_then(|x| x.as_str()).unwrap_or("") }
fn unhex(s: &str) -> Vec<u8> { hex::decode(s.trim_start_matches("0x")).unwrap_or_default() }

fn sha256_bytes(b: &[u8]) -> [u8; 32] {
    let h = sha256::digest(b);
    let v = hex::decode(h).unwrap_or_default();
    let mut o = [0u8; 32];
    o.copy_from_slice(&v);
    o
}
/// rs_merkle's tree with the Sha256 algorithm: leaves are used as they are, pairs are hashed as
/// sha256(left ++ right), an unpaired node moves up unchanged; no leaves = 32 zero bytes.
pub fn merkle_root(leaves: &[[u8; 32]]) -> [u8; 32] {
    if leaves.is_empty() { return [0u8; 32]; }
    let mut level: Vec<[u8; 32]> = leaves.to_vec();
    while level.len() > 1 {
        level = level.chunks(2).map(|c| if c.len() == 2 { let mut x = c[0].to_vec(); x.extend_from_slice(&c[1]); sha256_bytes(&x) } else { c[0] }).collect();
    }
    level[0]
}
fn log_of(l: &Value) -> Option<Log> {
    let topics: Vec<B256> = l.get("topics")?.as_array()?.iter().map(|t| B256::from_slice(&unhex(t.as_str().unwrap_or("")))).collect();
    Log::new(alloy::primitives::Address::from_slice(&unhex(hs(l, "address"))), topics, unhex(hs(l, "data")).into())
}
fn bloom_of(logs: &[Value]) -> String {
    let mut b = Bloom::default();
    for l in logs { if let Some(x) = log_of(l) { b.accrue_log(&x); } }
    format!("0x{}", hex::encode(b.as_slice()))
}

pub fn coherence(run: &mut Run) -> Vec<Finding> {
    let mut fs: Vec<Finding> = Vec::new();
    let mut bad = |sig: &str, what: String, fd: Value| { if fs.len() < 12 && !fs.iter().any(|f: &Finding| f.signature == format!("c06:{}", sig)) { fs.push(finding(format!("c06:{}", sig), what, fd)); } };
    let blocks = run.tracker.blocks.clone();
    let inst = &mut run.inst;
    let q = |inst: &mut Inst, m: &str, p: Value| -> Value { match inst.rpc(m, p) { Ok(v) => canon(&v), Err(RpcFail::Err { message, .. }) => json!({"error": message}), Err(RpcFail::Panic(m)) => json!({"PANIC": m}), Err(RpcFail::Hang) => json!({"HANG": true}) } };
    let top = blocks.len() as u64;
    let bn = q(inst, "eth_blockNumber", json!([]));
    if !blocks.is_empty() && bn != json!(format!("0x{:x}", top - 1)) { bad("height", format!("eth_blockNumber answers {} after {} blocks were finalised", bn, top), json!({"eth_blockNumber": bn, "expected": top - 1})); }
    let beyond = q(inst, "eth_getBlockByNumber", json!([format!("0x{:x}", top), false]));
    if beyond.get("error").is_none() { bad("beyond", format!("a block is served at height {} which was never finalised", top), short(&beyond)); }
    // a transaction hash handed out twice (records are keyed by hash: the later one replaces the earlier).
    // Reported once; blocks holding such a hash are left out of the per-transaction checks below so
    // that other causes stay visible.
    let mut where_: BTreeMap<String, Vec<(u64, usize, Value)>> = BTreeMap::new();
    for (i, b) in blocks.iter().enumerate() {
        if b.how == "init" { continue; }
        for (j, r) in b.receipts.iter().enumerate() { where_.entry(hs(&r.1, "transactionHash").to_string()).or_default().push((i as u64, j, r.1.clone())); }
    }
    let mut tainted: BTreeSet<u64> = BTreeSet::new();
    for (h, places) in &where_ {
        if places.len() > 1 {
            for p in places { tainted.insert(p.0); }
            let first = &places[0].2;
            bad("tx_hash_reused", format!("transaction hash {} was returned for {} accepted calls, at (block, index) {:?}; the first of them has status {} and gasUsed {} (nonce of the sender not consumed)", h, places.len(),
                places.iter().map(|p| (p.0, p.1)).collect::<Vec<_>>(), hs(first, "status"), hs(first, "gasUsed")),
                json!({"hash": h, "places": places.iter().map(|p| json!([p.0, p.1])).collect::<Vec<_>>(), "first_receipt": short(first), "second_receipt": short(&places[1].2)}));
        }
    }
    for (i, b) in blocks.iter().enumerate() {
        let i = i as u64;
        if tainted.contains(&i) { continue; }
        let num = format!("0x{:x}", i);
        let blk = q(inst, "eth_getBlockByNumber", json!([num, false]));
        if blk.get("hash").is_none() { bad("missing_block", format!("block {} is not served", i), json!({"answer": short(&blk)})); continue; }
        if hu(&blk, "number") != Some(i) { bad("number", format!("block served at height {} says number {:?}", i, blk.get("number")), json!({})); }
        if hs(&blk, "hash") != b.hash.hex0x() { bad("hash", format!("block {} has hash {} but was finalised with {}", i, hs(&blk, "hash"), b.hash.hex0x()), json!({})); }
        let parent = if i == 0 { Hx::zero32().hex0x() } else { blocks[i as usize - 1].hash.hex0x() };
        if hs(&blk, "parentHash") != parent { bad("parent", format!("block {} has parentHash {} but block {} has hash {}", i, hs(&blk, "parentHash"), i.saturating_sub(1), parent), json!({})); }
        if hu(&blk, "timestamp") != Some(b.ts) { bad("timestamp", format!("block {} has timestamp {:?}, finalised with {}", i, blk.get("timestamp"), b.ts), json!({})); }
        let by_hash = q(inst, "eth_getBlockByHash", json!([b.hash.hex0x(), false]));
        if by_hash != blk { bad("hash_number_inverse", format!("eth_getBlockByHash(hash of block {}) differs from eth_getBlockByNumber({})", i, i), json!({"by_number": short(&blk), "by_hash": short(&by_hash)})); }
        let list: Vec<String> = blk.get("transactions").and_then(|t| t.as_array()).map(|a| a.iter().map(|x| x.as_str().unwrap_or("").to_string()).collect()).unwrap_or_default();
        let expected: Vec<String> = b.receipts.iter().map(|r| hs(&r.1, "transactionHash").to_string()).collect();
        if b.how != "init" && list != expected {
            bad("block_tx_list", format!("block {} lists {} transactions, the accepted calls returned {} receipts; lists differ", i, list.len(), expected.len()), json!({"block": i, "block_lists": list, "receipts_returned": expected}));
        }
        let mut seen = BTreeSet::new();
        for t in &list { if !seen.insert(t.clone()) { bad("duplicate_tx_hash", format!("block {} contains transaction hash {} twice", i, t), json!({"block": i, "transactions": list})); } }
        let cnt_n = q(inst, "eth_getBlockTransactionCountByNumber", json!([num]));
        let cnt_h = q(inst, "eth_getBlockTransactionCountByHash", json!([b.hash.hex0x()]));
        let want = json!(format!("0x{:x}", list.len()));
        if cnt_n != want || cnt_h != want { bad("tx_count", format!("block {} lists {} transactions but the count by number is {} and by hash {}", i, list.len(), cnt_n, cnt_h), json!({})); }
        let full = q(inst, "eth_getBlockByNumber", json!([num, true]));
        let full_txs: Vec<Value> = full.get("transactions").and_then(|t| t.as_array()).cloned().unwrap_or_default();
        if full_txs.len() != list.len() { bad("full_block_len", format!("full block {} carries {} transactions, the hash list {}", i, full_txs.len(), list.len()), json!({})); }
        let (mut gas_sum, mut log_idx) = (0u64, 0u64);
        let mut all_logs: Vec<Value> = Vec::new();
        let mut receipts: Vec<Value> = Vec::new();
        for (j, txh) in list.iter().enumerate() {
            let j64 = j as u64;
            let tx = q(inst, "eth_getTransactionByHash", json!([txh]));
            let rc = q(inst, "eth_getTransactionReceipt", json!([txh]));
            receipts.push(rc.clone());
            if hu(&tx, "blockNumber") != Some(i) || hu(&tx, "transactionIndex") != Some(j64) || hs(&tx, "blockHash") != b.hash.hex0x() || hs(&tx, "hash") != txh {
                bad("tx_position", format!("block {} lists {} at index {}, but eth_getTransactionByHash places it at block {:?} index {:?}", i, txh, j, tx.get("blockNumber"), tx.get("transactionIndex")), json!({"block": i, "index": j, "tx": short(&tx)}));
            }
            if hu(&rc, "blockNumber") != Some(i) || hu(&rc, "transactionIndex") != Some(j64) || hs(&rc, "blockHash") != b.hash.hex0x() || hs(&rc, "transactionHash") != txh {
                bad("receipt_position", format!("block {} lists {} at index {}, but its receipt says block {:?} index {:?}", i, txh, j, rc.get("blockNumber"), rc.get("transactionIndex")), json!({"block": i, "index": j, "receipt": short(&rc)}));
            }
            let by_ni = q(inst, "eth_getTransactionByBlockNumberAndIndex", json!([i, j64]));
            let by_hi = q(inst, "eth_getTransactionByBlockHashAndIndex", json!([b.hash.hex0x(), j64]));
            if hs(&by_ni, "hash") != txh || hs(&by_hi, "hash") != txh { bad("tx_by_index", format!("transaction ({}, {}) is {} by hash list but {} / {} by (number,index) / (hash,index)", i, j, txh, hs(&by_ni, "hash"), hs(&by_hi, "hash")), json!({})); }
            if full_txs.get(j) != Some(&tx) { bad("full_block_tx", format!("transaction {} of full block {} differs from eth_getTransactionByHash", j, i), json!({"in_block": full_txs.get(j).map(short), "by_hash": short(&tx)})); }
            if b.how != "init" {
                if let Some((insc, returned)) = b.receipts.get(j) {
                    if hs(returned, "transactionHash") == txh && canon(returned) != rc {
                        bad("receipt_returned_vs_served", format!("the receipt returned by the call for {} differs from the receipt served by hash", txh), json!({"returned": short(&canon(returned)), "served": short(&rc)}));
                    }
                    if !insc.is_empty() && hs(returned, "transactionHash") == txh {
                        let by_insc = q(inst, "brc20_getTxReceiptByInscriptionId", json!([insc]));
                        if by_insc != rc { bad("receipt_by_inscription", format!("receipt by inscription id {} differs from the receipt of its transaction {}", insc, txh), json!({"by_inscription": short(&by_insc), "by_hash": short(&rc)})); }
                        let id = q(inst, "brc20_getInscriptionIdByTxHash", json!([txh]));
                        if id != json!(insc) { bad("inscription_of_tx", format!("transaction {} came from inscription {} but brc20_getInscriptionIdByTxHash answers {}", txh, insc, id), json!({})); }
                        if let Some(c) = rc.get("contractAddress").and_then(|c| c.as_str()) {
                            let id2 = q(inst, "brc20_getInscriptionIdByContractAddress", json!([c]));
                            if id2 != json!(insc) { bad("contract_inscription", format!("contract {} was created by inscription {} but brc20_getInscriptionIdByContractAddress answers {}", c, insc, id2), json!({})); }
                        }
                    }
                }
            }
            let logs: Vec<Value> = rc.get("logs").and_then(|l| l.as_array()).cloned().unwrap_or_default();
            for l in &logs {
                if hu(l, "logIndex") != Some(log_idx) || hu(l, "transactionIndex") != Some(j64) || hs(l, "transactionHash") != txh || hs(l, "blockHash") != b.hash.hex0x() || hu(l, "blockNumber") != Some(i) {
                    bad("log_position", format!("log of transaction ({}, {}) should have logIndex {} and point at its transaction; it says {}", i, j, log_idx, short(l)), json!({"expected_log_index": log_idx, "log": short(l)}));
                }
                log_idx += 1;
            }
            gas_sum = gas_sum.checked_add(hu(&rc, "gasUsed").unwrap_or(0)).unwrap_or(gas_sum);
            if hu(&rc, "cumulativeGasUsed") != Some(gas_sum) { bad("cumulative_gas", format!("cumulativeGasUsed of transaction ({}, {}) is {:?}, the running sum of gasUsed is {}", i, j, rc.get("cumulativeGasUsed"), gas_sum), json!({})); }
            if hs(&rc, "logsBloom") != bloom_of(&logs) { bad("receipt_bloom", format!("logsBloom of receipt ({}, {}) is not the bloom of its logs", i, j), json!({})); }
            all_logs.extend(logs);
        }
        if hu(&blk, "gasUsed") != Some(gas_sum) { bad("block_gas", format!("block {} says gasUsed {:?}, its receipts sum to {}", i, blk.get("gasUsed"), gas_sum), json!({"block": i})); }
        if hs(&blk, "logsBloom") != bloom_of(&all_logs) { bad("block_bloom", format!("logsBloom of block {} is not the bloom of its logs", i), json!({"block": i})); }
        let leaves: Vec<[u8; 32]> = list.iter().map(|t| { let mut a = [0u8; 32]; let v = unhex(t); if v.len() == 32 { a.copy_from_slice(&v); } a }).collect();
        let root = format!("0x{}", hex::encode(merkle_root(&leaves)));
        if hs(&blk, "transactionsRoot") != root { bad("tx_root", format!("transactionsRoot of block {} is {}, sha256 merkle root of its hashes is {}", i, hs(&blk, "transactionsRoot"), root), json!({"block": i})); }
        let served_logs = q(inst, "eth_getLogs", json!([{"fromBlock": num, "toBlock": num}]));
        if served_logs != Value::Array(all_logs.clone()) { bad("get_logs", format!("eth_getLogs over block {} is not the concatenation of its receipts' logs in order", i), json!({"served": short(&served_logs), "from_receipts": short(&Value::Array(all_logs.clone()))})); }
        // raw forms
        let raw_block = q(inst, "debug_getRawBlock", json!([num]));
        let raw_header = q(inst, "debug_getRawHeader", json!([num]));
        let raw_receipts = q(inst, "debug_getRawReceipts", json!([num]));
        match raw_block.as_str().map(unhex) {
            None => bad("raw_block_missing", format!("debug_getRawBlock({}) answers {}", i, short(&raw_block)), json!({})),
            Some(bytes) => match Block::<TxEnvelope>::decode(&mut bytes.as_slice()) {
                Err(e) => bad("raw_block_decode", format!("raw block {} does not decode: {}", i, e), json!({})),
                Ok(rb) => {
                    let h = &rb.header;
                    let same = h.number == i && format!("0x{}", hex::encode(h.parent_hash)) == parent && format!("0x{}", hex::encode(h.transactions_root)) == hs(&blk, "transactionsRoot")
                        && format!("0x{}", hex::encode(h.logs_bloom.as_slice())) == hs(&blk, "logsBloom") && Some(h.gas_used) == hu(&blk, "gasUsed") && h.timestamp == b.ts;
                    if !same { bad("raw_header_fields", format!("header inside raw block {} does not carry the block's number/parent/root/bloom/gas/timestamp", i), json!({"number": h.number, "gas_used": h.gas_used, "timestamp": h.timestamp})); }
                    if let Some(hb) = raw_header.as_str().map(unhex) {
                        match Header::decode(&mut hb.as_slice()) { Ok(hd) if hd == *h => {}, _ => bad("raw_header", format!("debug_getRawHeader({}) is not the header of debug_getRawBlock({})", i, i), json!({})) }
                    } else { bad("raw_header_missing", format!("debug_getRawHeader({}) answers {}", i, short(&raw_header)), json!({})); }
                    let n_raw = rb.body.transactions.len();
                    if n_raw != list.len() { bad("raw_block_tx_count", format!("raw block {} carries {} transactions, the block lists {}", i, n_raw, list.len()), json!({})); }
                    for (j, t) in rb.body.transactions.iter().enumerate() {
                        let Some(tx) = full_txs.get(j) else { break };
                        let TxEnvelope::Legacy(sg) = t else { bad("raw_block_tx", format!("transaction {} inside raw block {} is not a legacy transaction", j, i), json!({})); continue };
                        let lt = sg.tx();
                        let to_ok = match (lt.to, tx.get("to").and_then(|x| x.as_str())) {
                            (alloy::primitives::TxKind::Call(a), Some(s)) => format!("0x{}", hex::encode(a)) == s,
                            (alloy::primitives::TxKind::Create, None) => true,
                            (alloy::primitives::TxKind::Create, Some(s)) => unhex(s).iter().all(|b| *b == 0),
                            _ => false,
                        };
                        if Some(lt.nonce) != hu(tx, "nonce") || format!("0x{}", hex::encode(&lt.input)) != hs(tx, "input") || !to_ok || Some(lt.gas_limit) != hu(tx, "gas") {
                            bad("raw_block_tx", format!("transaction {} inside raw block {} differs from the transaction the block lists at that index", j, i), json!({"listed": short(tx), "raw_nonce": lt.nonce, "raw_input_len": lt.input.len()}));
                        }
                    }
                }
            },
        }
        match raw_receipts.as_array() {
            None => bad("raw_receipts_missing", format!("debug_getRawReceipts({}) answers {}", i, short(&raw_receipts)), json!({})),
            Some(rr) => {
                if rr.len() != receipts.len() { bad("raw_receipts_count", format!("{} raw receipts for block {} with {} transactions", rr.len(), i, receipts.len()), json!({})); }
                for (j, r) in rr.iter().enumerate() {
                    let Some(rc) = receipts.get(j) else { break };
                    let bytes = unhex(r.as_str().unwrap_or(""));
                    match ReceiptWithBloom::<alloy::consensus::Receipt>::decode(&mut bytes.as_slice()) {
                        Err(e) => bad("raw_receipt_decode", format!("raw receipt ({}, {}) does not decode: {}", i, j, e), json!({})),
                        Ok(d) => {
                            let logs: Vec<Value> = rc.get("logs").and_then(|l| l.as_array()).cloned().unwrap_or_default();
                            let logs_same = d.receipt.logs.len() == logs.len() && d.receipt.logs.iter().zip(logs.iter()).all(|(x, y)| log_of(y).map(|l| l == *x).unwrap_or(false));
                            let status = hu(rc, "status").unwrap_or(0) != 0;
                            if d.receipt.status.coerce_status() != status || Some(d.receipt.cumulative_gas_used) != hu(rc, "cumulativeGasUsed") || !logs_same || format!("0x{}", hex::encode(d.logs_bloom.as_slice())) != hs(rc, "logsBloom") {
                                bad("raw_receipt", format!("raw receipt ({}, {}) differs from the receipt served by hash", i, j), json!({"served": short(rc)}));
                            }
                        }
                    }
                }
            }
        }
    }
    // contract address <-> inscription id, from the address side
    let addrs: Vec<Hx> = run.universe.addresses.iter().cloned().collect();
    for a in addrs {
        let id = q(inst, "brc20_getInscriptionIdByContractAddress", json!([a.hex0x()]));
        if let Some(s) = id.as_str() {
            if s == "BRC20_CONTROLLER_INIT" && run.tracker.blocks.first().map(|b| b.how) != Some("init") { continue; }
            let rc = q(inst, "brc20_getTxReceiptByInscriptionId", json!([s]));
            if rc.get("contractAddress").and_then(|c| c.as_str()) != Some(a.hex0x().as_str()) {
                bad("inscription_contract", format!("address {} is registered as created by inscription {}, whose receipt names contract {:?} (status {:?})", a.hex0x(), s, rc.get("contractAddress"), rc.get("status")), json!({"address": a.hex0x(), "inscription": s, "receipt": short(&rc)}));
            }
        }
    }
    fs
}

pub fn c06_eval(h: &[Op], dist: Option<&mut Dist>) -> Vec<Finding> {
    let mut fs: Vec<Finding> = Vec::new();
    let mut run = Run::new();
    for (pos, op) in h.iter().enumerate() {
        let st = run.step(op).status.clone();
        if st.is_fatal() { fs.extend(fatal_finding("c06", &run)); break; }
        if run.tracker.desynced { break; }
        let closes = matches!(op, Op::Finalise { .. } | Op::Mine { .. } | Op::Initialise { .. } | Op::Reorg(_) | Op::Clear | Op::Reopen);
        if closes && run.tracker.at_boundary() && Tracker::effective(op, &run.log[pos].1) {
            for mut f in coherence(&mut run) {
                if !fs.iter().any(|x| x.signature == f.signature) {
                    f.what = format!("{} (checked after op {} = {}, height {:?})", f.what, pos, op.kind(), run.tracker.height());
                    fs.push(f);
                }
            }
            if !fs.is_empty() { break; }
        }
    }
    if let Some(d) = dist { d.absorb(&run); }
    fs
}

// ------------------------------------------------------------------------------------------
// C10: read erasure
// ------------------------------------------------------------------------------------------

pub fn c10_eval(h: &[Op], seed: u64, dist: Option<&mut Dist>) -> Vec<Finding> {
    let mut fs: Vec<Finding> = Vec::new();
    let mut rng = Rng::new(seed ^ 0xc10c10);
    let mut r1 = Run::new();
    let mut nonread_status: Vec<String> = Vec::new();
    // a rejected call that changed the store is C05's subject; the comparison stops in front of it
    let mut desync_at: Option<usize> = None;
    let mut waited_once = false;
    'outer: for op in h {
        let st = r1.step(op).status.clone();
        nonread_status.push(st.class());
        if st.is_fatal() { fs.extend(fatal_finding("c10", &r1)); break; }
        if r1.tracker.desynced { desync_at = Some(r1.log.iter().filter(|x| !x.0.is_read()).count()); break; }
        let boundary = r1.tracker.at_boundary();
        let k = if boundary { 3 } else { 1 };
        let reads = gen_reads(&mut rng, &r1.universe, r1.tracker.height(), 6);
        let mut done = 0;
        for rd in reads {
            // calls that execute code wait (5 s) for the open block to be finalised: only plain queries mid-block
            // (one evaluation in eight lets ONE such call through: it must give up without touching the open block)
            if !boundary && !matches!(rd, Op::Query { .. } | Op::GetLogs { .. }) {
                if seed % 8 == 0 && !waited_once && matches!(rd, Op::EthCall { .. } | Op::EstimateGas { .. } | Op::Balance { .. }) { waited_once = true; } else { continue; }
            }
            if done >= k { break; }
            done += 1;
            let out = r1.step(&rd).clone();
            let muts: Vec<String> = out.events.iter().filter(|e| is_mutation(e)).map(ev_string).collect();
            if !muts.is_empty() {
                fs.push(finding(format!("c10:read_mutates:{}", rd.kind()), format!("the read request {} produced {} store mutation events", rd.kind(), muts.len()), json!({"op": rd, "first_events": muts.iter().take(8).collect::<Vec<_>>()})));
            }
            if out.status.is_fatal() {
                let mut f = fatal_finding("c10:read", &r1).unwrap();
                let live = liveness(&mut r1);
                f.what = format!("{}; engine afterwards: {}", f.what, live);
                if !fs.iter().any(|x| x.signature == f.signature) { fs.push(f); }
                if live.starts_with("DEAD") { break 'outer; }
                // a panicking read that leaves the engine usable: go on
                r1.tracker.fatal = false;
                r1.inst.poisoned = false;
            }
        }
    }
    if !r1.tracker.fatal && desync_at.is_none() {
        let mut r2 = Run::new();
        if !r2.run(h) { fs.extend(fatal_finding("c10:plain", &r2)); }
        else {
            let s2 = r2.statuses();
            if let Some(i) = (0..h.len().min(nonread_status.len())).find(|i| nonread_status.get(*i) != s2.get(*i)) {
                fs.push(finding(format!("c10:status:{}", h[i].kind()), format!("with reads interleaved {} is answered {:?}, without them {:?}", h[i].kind(), nonread_status.get(i), s2.get(i)), json!({"op": h[i], "op_index_without_reads": i})));
            } else {
                let mut u = r1.universe.clone();
                u.merge(&r2.universe);
                let d = diff_obs(&r1.observe_with(&u), &r2.observe_with(&u));
                if !d.is_empty() { fs.push(diff_finding("c10:erase", "the run with reads interleaved and the run without them answer reads differently", &d, ("with_reads", "without"))); }
            }
        }
    }
    let interleaved = r1.history();
    for f in fs.iter_mut() { f.first_difference["history_with_reads"] = json!(interleaved); }
    if let Some(d) = dist { d.absorb(&r1); }
    fs
}


// ------------------------------------------------------------------------------------------
// directed histories (run first by shard 0 of the property they belong to)
// ------------------------------------------------------------------------------------------

const TS0: u64 = 1_700_000_000;
fn t_tail(ts: u64, insc: &str, byte_len: u64) -> Tail {
    Tail { ts, hash: Hx::zero32(), tx_idx: Idx::Auto, insc_id: insc.to_string(), byte_len, op_return_tx_id: Hx::n32(0x7777) }
}
fn t_init() -> Op { Op::Initialise { hash: Hx::zero32(), ts: TS0, height: 0 } }
fn t_fin(ts: u64) -> Op { Op::Finalise { ts, hash: Hx::zero32(), tx_count: Idx::Auto } }
fn t_signed(s: usize, nonce: u64, data: Vec<u8>, ts: u64, insc: &str, byte_len: u64) -> Op {
    Op::Transact { raw_tx: Hx(sign_legacy(s, nonce, Some(alloy::primitives::Address::from_slice(&[0x66; 20])), data, CHAIN_ID)), enc: Enc::Hex, tail: t_tail(ts, insc, byte_len) }
}
fn t_deploy(ts: u64, insc: &str) -> Op { Op::Deploy { from_pkscript: PKSCRIPTS[0].into(), data: Hx(multitool_init()), enc: Enc::Hex, tail: t_tail(ts, insc, 2000) } }

/// (name, property, history). For c01 the reorg itself is added by the sweep.
pub fn corpus() -> Vec<(&'static str, &'static str, Vec<Op>)> {
    let u = alloy::primitives::U256::from;
    vec![
        // a transaction in block 2, then the sweep reorgs to 1: its trace is still served
        ("trace_survives_reorg", "c01", vec![t_init(), Op::Mine { n: 1, ts: TS0 + 1 }, t_deploy(TS0 + 2, "d1i0"), t_fin(TS0 + 2)]),
        // a storage slot that goes 7 -> 9 -> 7 in three consecutive blocks (a value flipping back): the sweep reorgs to
        // every block, also to the one in which the middle value was current
        ("slot_flips_back", "c01", {
            let set = |k: u64, v: u64, ts: u64| vec![Op::Call { from_pkscript: PKSCRIPTS[1].into(), to: To::ByInscription("fbtooli0".into()), data: Hx(cd::sstore(u(0), u(v))), enc: Enc::Hex, tail: t_tail(ts, &format!("fb{}i0", k), 2000) }, t_fin(ts)];
            let mut h = vec![t_init(), t_deploy(TS0 + 1, "fbtooli0"), t_fin(TS0 + 1)];
            h.extend(set(1, 7, TS0 + 2)); h.extend(set(2, 9, TS0 + 3)); h.extend(set(3, 7, TS0 + 4)); h.extend(set(4, 9, TS0 + 5)); h.extend(set(5, 7, TS0 + 6));
            h
        }),
        // genesis by brc20_initialise on an empty database, one more block: the sweep reorgs to 0
        ("genesis_state_lost", "c01", vec![t_init(), Op::Mine { n: 1, ts: TS0 + 1 }]),
        // 30 blocks, back to 20, one block: the sweep tries reorg(11) (= height - 10)
        ("max_block_overwritten", "c01", vec![t_init(), Op::Mine { n: 30, ts: TS0 + 1 }, Op::Reorg(20), Op::Mine { n: 1, ts: TS0 + 2 }]),
        // the same with a key written in every block (the indexer account, by a deposit): reorg(11) is accepted and
        // runs into "Reorg too deep" half-way through the tables
        ("max_block_overwritten_panics", "c01", {
            let dep = |i: u64| vec![Op::Deposit { to_pkscript: PKSCRIPTS[0].into(), ticker: "ordi".into(), amount: "0x1".into(), ts: TS0 + i, hash: Hx::zero32(), tx_idx: Idx::Auto, insc_id: format!("d{}i0", i) }, t_fin(TS0 + i)];
            let mut h = vec![t_init()];
            for i in 1..=30 { h.extend(dep(i)); }
            h.push(Op::Reorg(20));
            h.extend(dep(31));
            h
        }),
        // nonce 1 parked while block 5 is built, 9 empty blocks, a replacement for nonce 1 parked in open block 15
        ("parked_rewrite_at_window_edge", "c01", vec![t_init(), Op::Mine { n: 4, ts: TS0 + 1 }, t_signed(0, 1, vec![1], TS0 + 5, "p1i0", 2000), t_fin(TS0 + 5),
            Op::Mine { n: 9, ts: TS0 + 6 }, t_signed(0, 1, vec![2], TS0 + 15, "p1bi0", 2000)]),
        // park nonce 1 in block 1, nonce 2 in block 5, deliver nonce 0 in block 11
        ("drain_past_expired", "c05", vec![t_init(), t_signed(1, 1, vec![1], TS0 + 1, "n1i0", 2000), t_fin(TS0 + 1), Op::Mine { n: 3, ts: TS0 + 2 },
            t_signed(1, 2, vec![2], TS0 + 5, "n2i0", 2000), t_fin(TS0 + 5), Op::Mine { n: 5, ts: TS0 + 6 },
            t_signed(1, 0, vec![0], TS0 + 11, "n0i0", 2000), t_fin(TS0 + 11)]),
        ("mine_zero_on_empty_database", "c05", vec![Op::Mine { n: 0, ts: TS0 }]),
        // block 1 was finalised with the hash brc20_mine will generate for height 5 (24 zero bytes + height + 1):
        // brc20_mine(8) cannot mine that block - it must refuse BEFORE mining blocks 2..4
        ("mine_meets_its_own_generated_hash", "c05", vec![t_init(), Op::Finalise { ts: TS0 + 1, hash: Hx::n32(6), tx_count: Idx::Auto }, Op::Mine { n: 8, ts: TS0 + 2 }, Op::Mine { n: 1, ts: TS0 + 3 }]),
        ("initialise_answers_error", "c05", vec![t_init(), Op::Mine { n: 1, ts: TS0 + 1 }]),
        // brc20_initialise for a height that does not exist yet, on a database that has a chain
        ("initialise_other_height", "c05", vec![t_init(), Op::Mine { n: 2, ts: TS0 + 1 }, Op::Initialise { hash: Hx::n32(0xabcdef), ts: TS0 + 3, height: 7 }, Op::Mine { n: 1, ts: TS0 + 4 }]),
        // the indexer account has been used (a deposit in block 0, no genesis yet): a later brc20_initialise for the
        // next height must be refused BEFORE the controller deployment runs (its address depends on that nonce)
        ("late_initialise_after_indexer_tx", "c05", vec![
            Op::Deposit { to_pkscript: PKSCRIPTS[0].into(), ticker: "ordi".into(), amount: "0x1".into(), ts: TS0 + 1, hash: Hx::zero32(), tx_idx: Idx::Auto, insc_id: "predepi0".into() }, t_fin(TS0 + 1),
            Op::Initialise { hash: Hx::n32(0xfeed), ts: TS0 + 2, height: 1 }, Op::Mine { n: 1, ts: TS0 + 3 },
            Op::Withdraw { from_pkscript: PKSCRIPTS[0].into(), ticker: "ordi".into(), amount: "0x1".into(), ts: TS0 + 4, hash: Hx::zero32(), tx_idx: Idx::Auto, insc_id: "prewiti0".into() }, t_fin(TS0 + 4),
            Op::Initialise { hash: Hx::zero32(), ts: TS0 + 5, height: 3 }, Op::Mine { n: 1, ts: TS0 + 6 }]),
        // genesis by brc20_initialise on a chain that was started by brc20_mine (indexer account unused): accepted
        ("late_initialise_on_mined_chain", "c05", vec![Op::Mine { n: 2, ts: TS0 + 1 }, Op::Initialise { hash: Hx::n32(0xbeef), ts: TS0 + 2, height: 2 }, Op::Mine { n: 1, ts: TS0 + 3 },
            Op::Initialise { hash: Hx::n32(0xbeef), ts: TS0 + 2, height: 2 }, Op::Initialise { hash: Hx::n32(0xdead), ts: TS0 + 2, height: 2 }]),
        // a reorg the engine's own check lets through (height - target <= 10) but the store refuses (the highest
        // block ever finalised is more than 10 above the target): refused calls leave nothing behind, also not on
        // disk - what clearCaches / a restart shows afterwards is the same as without the call
        ("store_refused_reorg_then_clear", "c05", vec![t_init(), Op::Mine { n: 20, ts: TS0 + 1 }, Op::Commit, Op::Reorg(12), Op::Mine { n: 2, ts: TS0 + 2 },
            Op::Reorg(5), Op::Clear, Op::Mine { n: 1, ts: TS0 + 3 }]),
        ("store_refused_reorg_then_commit_reopen", "c05", vec![t_init(), Op::Mine { n: 20, ts: TS0 + 1 }, Op::Reorg(12), Op::Mine { n: 2, ts: TS0 + 2 },
            Op::Reorg(5), Op::Reorg(3), Op::Mine { n: 1, ts: TS0 + 3 }, Op::Commit, Op::Reopen]),
        // a block opened by nothing but a RE-inscription of a waiting transaction is still an open block: commit,
        // mine and reorg are refused until it is finalised
        ("reparked_tx_opens_a_block", "c05", vec![t_init(), t_signed(3, 1, vec![7], TS0 + 1, "rp1i0", 2000), t_fin(TS0 + 1),
            t_signed(3, 1, vec![7], TS0 + 2, "rp1bi0", 2000), Op::Commit, Op::Mine { n: 1, ts: TS0 + 2 }, Op::Reorg(0), t_fin(TS0 + 2),
            t_signed(3, 0, vec![9], TS0 + 3, "rp0i0", 2000), t_fin(TS0 + 3)]),
        // clearCaches / restart = exactly the last commit, also after a reorg that only the store refused
        ("refused_reorg_then_clear", "c03", vec![t_init(), Op::Mine { n: 3, ts: TS0 + 1 }, Op::Commit, Op::Mine { n: 11, ts: TS0 + 2 }, Op::Clear, Op::Mine { n: 1, ts: TS0 + 3 },
            Op::Reorg(2), Op::Clear]),
        ("refused_reorg_then_restart", "c03", vec![t_init(), Op::Mine { n: 20, ts: TS0 + 1 }, Op::Commit, Op::Reorg(12), Op::Mine { n: 2, ts: TS0 + 2 }, Op::Reorg(5), Op::Reopen]),
        ("uncommitted_blocks_then_restart", "c03", vec![t_init(), Op::Mine { n: 4, ts: TS0 + 1 }, Op::Commit, t_deploy(TS0 + 2, "lostdi0"), t_fin(TS0 + 2), Op::Mine { n: 2, ts: TS0 + 3 }, Op::Reopen]),
        // allowance of one byte = 12000 gas < 21000: recorded, nonce not consumed; the same transaction again
        ("below_intrinsic_gas_twice", "c06", vec![t_init(), t_signed(2, 0, vec![1, 2, 3], TS0 + 1, "lowi0", 1), t_signed(2, 0, vec![1, 2, 3], TS0 + 1, "againi0", 2000), t_fin(TS0 + 1)]),
        ("below_intrinsic_gas_inscription", "c06", vec![t_init(),
            Op::Call { from_pkscript: PKSCRIPTS[1].into(), to: To::ByAddress(Hx::from_hex(CONTROLLER)), data: Hx(cd::sload(u(1))), enc: Enc::Hex, tail: t_tail(TS0 + 1, "c1i0", 1) }, t_fin(TS0 + 1),
            Op::Call { from_pkscript: PKSCRIPTS[1].into(), to: To::ByAddress(Hx::from_hex(CONTROLLER)), data: Hx(cd::sload(u(1))), enc: Enc::Hex, tail: t_tail(TS0 + 2, "c2i0", 2000) }, t_fin(TS0 + 2)]),
        // a block abandoned by clearCaches after a transaction ran in it: the next (empty) block starts from zero
        ("clear_mid_block_then_empty_block", "c06", vec![t_init(), Op::Mine { n: 1, ts: TS0 + 1 }, Op::Commit, t_deploy(TS0 + 2, "gasi0"), Op::Clear, Op::Mine { n: 1, ts: TS0 + 3 },
            t_deploy(TS0 + 4, "gas2i0"), t_deploy(TS0 + 4, "gas3i0"), Op::Clear, t_deploy(TS0 + 5, "gas4i0"), t_fin(TS0 + 5)]),
        // a deployment whose init code reverts
        ("reverted_deploy", "c06", vec![t_init(), Op::Deploy { from_pkscript: PKSCRIPTS[0].into(), data: Hx(init_reverting()), enc: Enc::Hex, tail: t_tail(TS0 + 1, "revi0", 2000) }, t_fin(TS0 + 1)]),
    ]
}

// ------------------------------------------------------------------------------------------
// shrinking
// ------------------------------------------------------------------------------------------

/// Tries to make `h` smaller while `eval` keeps reporting a finding with signature `sig`.
fn shrink(h: &[Op], sig: &str, budget: usize, deadline: Instant, eval: &mut dyn FnMut(&[Op]) -> Vec<Finding>) -> (Vec<Op>, Option<Finding>, usize) {
    let mut cur: Vec<Op> = h.to_vec();
    let mut best: Option<Finding> = None;
    let mut used = 0usize;
    let mut attempt = |cand: &[Op], used: &mut usize| -> Option<Finding> {
        if *used >= budget || Instant::now() > deadline { return None; }
        *used += 1;
        eval(cand).into_iter().find(|f| f.signature == sig)
    };
    // 1. drop trailing ops
    'trunc: loop {
        for (num, den) in [(1usize, 2usize), (3, 4), (7, 8)] {
            let n = cur.len() * num / den;
            if n == 0 || n >= cur.len() { continue; }
            if let Some(f) = attempt(&cur[..n], &mut used) { cur.truncate(n); best = Some(f); continue 'trunc; }
        }
        break;
    }
    for _ in 0..3 {
        if cur.len() <= 1 { break; }
        if let Some(f) = attempt(&cur[..cur.len() - 1], &mut used) { cur.pop(); best = Some(f); } else { break; }
    }
    // 2. drop whole blocks, last first (never the genesis call)
    let mut end = cur.len();
    while end > 1 && used < budget {
        // the block ending at or before `end`
        let Some(fin) = (1..end).rev().find(|i| matches!(cur[*i], Op::Finalise { .. } | Op::Mine { .. })) else { break };
        let start = (1..fin).rev().find(|i| closes_block(&cur[*i]) || matches!(cur[*i], Op::Commit | Op::Clear | Op::Reopen)).map(|i| i + 1).unwrap_or(1);
        let mut cand = cur.clone();
        cand.drain(start..=fin);
        if let Some(f) = attempt(&cand, &mut used) { cur = cand; best = Some(f); end = start; } else { end = start.max(1); if start <= 1 { break; } }
    }
    // 3. drop single calls, last first
    let mut i = cur.len();
    while i > 1 && used < budget {
        i -= 1;
        if matches!(cur[i], Op::Finalise { .. }) { continue; }
        let mut cand = cur.clone();
        cand.remove(i);
        if let Some(f) = attempt(&cand, &mut used) { cur = cand; best = Some(f); }
    }
    (cur, best, used)
}

// ------------------------------------------------------------------------------------------
// workers
// ------------------------------------------------------------------------------------------

#[derive(Clone, Serialize)]
struct Failure {
    what: String,
    signature: String,
    occurrences: u64,
    history: Vec<Op>,
    first_difference: Value,
    origin: Value,
    shrunk_from_ops: usize,
}

struct Collector { failures: BTreeMap<String, (Failure, Option<i64>, u64 /*aux seed*/, Vec<Injected>)>, evaluations: u64 }
impl Collector {
    fn add(&mut self, fs: Vec<Finding>, h: &[Op], origin: Value, aux: u64, inj: &[Injected]) {
        for f in fs {
            match self.failures.get_mut(&f.signature) {
                Some(e) => { e.0.occurrences += 1; if h.len() < e.0.history.len() { e.0.history = h.to_vec(); e.0.what = f.what; e.0.first_difference = f.first_difference; e.0.origin = origin.clone(); e.0.shrunk_from_ops = h.len(); e.1 = f.focus; e.2 = aux; e.3 = inj.to_vec(); } }
                None => { self.failures.insert(f.signature.clone(), (Failure { what: f.what, signature: f.signature, occurrences: 1, history: h.to_vec(), first_difference: f.first_difference, origin: origin.clone(), shrunk_from_ops: h.len() }, f.focus, aux, inj.to_vec())); }
            }
        }
    }
}

fn gen_for(prop: &str, rng: &mut Rng, thorough: bool) -> GenParams {
    let blocks = if thorough { rng.range(8, 22) } else { rng.range(6, 15) };
    let mut p = GenParams { blocks, ..GenParams::small() };
    match prop {
        "c01" => { p.schedule = *rng.pick(&[CommitSchedule::Never, CommitSchedule::Every, CommitSchedule::EveryK(3), CommitSchedule::Random]); p.p_clear = 0; p.p_reopen = 0; p.p_reorg = 8; p.p_mine = 20; p.blocks = blocks.max(8); p.p_pool_tail = 25; p.p_pool_script = 15; }
        "c03" => { p.schedule = CommitSchedule::Never; p.p_clear = 0; p.p_reopen = 0; p.p_reorg = 5; }
        "c05" => { p.schedule = CommitSchedule::Random; p.p_clear = 0; p.p_reopen = 0; p.p_reorg = 6; p.p_pool_script = 50; }
        "c06" => { p.schedule = CommitSchedule::Random; p.p_clear = 0; p.p_reopen = 3; p.p_reorg = 10; p.max_txs = 7; p.p_pool_script = 40; }
        _ => { p.schedule = CommitSchedule::Random; p.p_clear = 0; p.p_reopen = 2; p.p_reorg = 6; }
    }
    p
}

fn prop_salt(prop: &str) -> u64 { prop.bytes().fold(0xcbf29ce484222325u64, |a, b| (a ^ b as u64).wrapping_mul(0x100000001b3)) }

fn worker(prop: &str, shard: u64, out: &Path, seed: u64, thorough: bool) -> Result<(), Box<dyn std::error::Error>> {
    let t0 = Instant::now();
    let soft = if thorough { Duration::from_secs(480) } else { Duration::from_secs(50) };
    let hard = if thorough { Duration::from_secs(600) } else { Duration::from_secs(80) };
    let iters: u64 = match (prop, thorough) { ("c01", false) => 8, ("c01", true) => 90, ("c03", false) => 8, ("c03", true) => 60, ("c10", false) => 50, ("c10", true) => 600, ("c06", false) => 70, ("c06", true) => 800, (_, false) => 45, (_, true) => 500 };
    let mut rng = Rng::new(seed ^ prop_salt(prop) ^ (shard.wrapping_mul(0x9E37_79B9)));
    let mut col = Collector { failures: BTreeMap::new(), evaluations: 0 };
    let mut dist = Dist::default();
    let mut stopped_early = false;
    if shard == 0 {
        for (name, cprop, h) in corpus() {
            if cprop != prop { continue; }
            let origin = json!({"corpus": name});
            let fs = match prop {
                "c01" => c01_eval(&h, None, true, Some(&mut dist)),
                "c03" => c03_script_eval(&h, Some(&mut dist)),
                "c05" => c05_eval(&h, &[], Some(&mut dist)),
                "c06" => c06_eval(&h, Some(&mut dist)),
                _ => vec![],
            };
            col.evaluations += 1;
            col.add(fs, &h, origin, 0, &[]);
        }
    }
    for it in 0..iters {
        if t0.elapsed() > soft { stopped_early = true; break; }
        let mut r = rng.fork();
        let p = gen_for(prop, &mut r, thorough);
        let mut h = gen_history(&mut r, &p);
        let aux = r.next();
        let origin = json!({"seed": seed, "shard": shard, "iteration": it, "params": p});
        let mut inj: Vec<Injected> = vec![];
        let fs = match prop {
            "c01" => {
                // some histories end with a transaction parked in the open block
                if r.chance(1, 3) {
                    let s = r.below(SIGNERS as u64) as usize;
                    h.push(Op::Transact { raw_tx: Hx(sign_legacy(s, 7 + r.below(3), None, multitool_init(), CHAIN_ID)), enc: Enc::Hex,
                        tail: Tail { ts: 1_750_000_000, hash: Hx::zero32(), tx_idx: Idx::Auto, insc_id: "tailparki0".into(), byte_len: 2000, op_return_tx_id: Hx::n32(5) } });
                }
                c01_eval(&h, None, true, Some(&mut dist))
            }
            "c03" => { let mut f = c03_eval(&h, aux, Some(&mut dist)); f.extend(c03_loss_eval(&h, aux, Some(&mut dist))); f }
            "c05" => { let n = r.range(2, 8) as usize; let (hm, i) = inject_malformed(&mut r, &h, n); h = hm; inj = i; c05_eval(&h, &inj, Some(&mut dist)) }
            "c06" => c06_eval(&h, Some(&mut dist)),
            "c10" => c10_eval(&h, aux, Some(&mut dist)),
            _ => return Err("unknown property".into()),
        };
        // a "hang" is a verdict of the watchdog, i.e. of the clock: under heavy machine load (disk stalls while
        // RocksDB syncs) a request can exceed it without being stuck. It is only reported when it reproduces
        // on a second run of the same history (a real deadlock or endless loop does).
        let fs = if fs.iter().any(|f| f.signature.contains("hang")) {
            let again: Vec<Finding> = match prop {
                "c01" => c01_eval(&h, None, true, None),
                "c03" => { let mut f = c03_eval(&h, aux, None); f.extend(c03_loss_eval(&h, aux, None)); f }
                "c05" => c05_eval(&h, &inj, None),
                "c06" => c06_eval(&h, None),
                _ => c10_eval(&h, aux, None),
            };
            fs.into_iter().filter(|f| !f.signature.contains("hang") || again.iter().any(|g| g.signature == f.signature)).collect()
        } else { fs };
        col.evaluations += 1;
        col.add(fs, &h, origin, aux, &inj);
    }
    // shrink the representative of every signature
    let deadline = t0 + hard;
    let sigs: Vec<String> = col.failures.keys().cloned().collect();
    let per_sig = if thorough { 40 } else { (24 / sigs.len().max(1)).max(4) };
    for sig in sigs {
        if Instant::now() > deadline { break; }
        let (fail, focus, aux, _inj) = col.failures.get(&sig).cloned().unwrap();
        let mut eval: Box<dyn FnMut(&[Op]) -> Vec<Finding>> = match prop {
            "c01" => { let ds: Vec<i64> = match focus { Some(-1) | None => vec![0], Some(d) => vec![d, 1, i64::MAX] }; Box::new(move |c: &[Op]| c01_eval(c, Some(&ds), sig_needs_ext(&fail.signature), None)) }
            "c03" => Box::new(move |c: &[Op]| { let mut f = c03_eval(c, aux, None); f.extend(c03_loss_eval(c, aux, None)); f }),
            "c05" => Box::new(|c: &[Op]| c05_eval(c, &[], None)),
            "c06" => Box::new(|c: &[Op]| c06_eval(c, None)),
            _ => Box::new(move |c: &[Op]| c10_eval(c, aux, None)),
        };
        let base = col.failures.get(&sig).unwrap().0.history.clone();
        let (small, f, _used) = shrink(&base, &sig, per_sig, deadline, &mut *eval);
        if let Some(f) = f {
            let e = col.failures.get_mut(&sig).unwrap();
            e.0.history = small;
            e.0.what = f.what;
            e.0.first_difference = f.first_difference;
        }
    }
    // histories are dumped with absolute indexes where the finding carries the run; otherwise as generated
    let failures: Vec<&Failure> = col.failures.values().map(|x| &x.0).collect();
    let doc = json!({"property": prop, "shard": shard, "seed": seed, "tier": if thorough { "thorough" } else { "quick" }, "evaluations": col.evaluations,
        "failures": failures, "distribution": dist, "elapsed_s": t0.elapsed().as_secs_f64(), "stopped_early": stopped_early});
    std::fs::write(out.join(format!(".simcheck_{}_{}.json", prop, shard)), serde_json::to_string(&doc)?)?;
    Ok(())
}

fn sig_needs_ext(sig: &str) -> bool { sig.contains("twin_ext") || sig.contains(":ext") }

fn parent(only: &[String], out: &Path, seed: u64, thorough: bool) -> Result<(), Box<dyn std::error::Error>> {
    let exe = std::env::current_exe()?;
    let t0 = Instant::now();
    let mut kids = Vec::new();
    for p in only {
        for s in 0..shards_of(p) {
            let _ = std::fs::remove_file(out.join(format!(".simcheck_{}_{}.json", p, s)));
            let child = std::process::Command::new(&exe)
                .args(["simcheck-worker", "--prop", p, "--shard", &s.to_string(), "--out"]).arg(out)
                .args(["--seed", &seed.to_string(), "--tier", if thorough { "thorough" } else { "quick" }])
                .stdout(std::process::Stdio::null()).spawn()?;
            kids.push((p.clone(), s, child));
        }
    }
    let mut worker_errors: BTreeMap<String, Vec<String>> = BTreeMap::new();
    for (p, s, mut c) in kids {
        let st = c.wait()?;
        if !st.success() { worker_errors.entry(p).or_default().push(format!("shard {} exited with {}", s, st)); }
    }
    for p in only {
        let mut evaluations = 0u64;
        let mut dist = Dist::default();
        let mut merged: BTreeMap<String, Value> = BTreeMap::new();
        let mut elapsed: f64 = 0.0;
        let mut early = false;
        for s in 0..shards_of(p) {
            let f = out.join(format!(".simcheck_{}_{}.json", p, s));
            let Ok(txt) = std::fs::read_to_string(&f) else { worker_errors.entry(p.clone()).or_default().push(format!("shard {} wrote no result", s)); continue };
            let v: Value = serde_json::from_str(&txt)?;
            evaluations += v["evaluations"].as_u64().unwrap_or(0);
            dist.merge(&v["distribution"]);
            elapsed = elapsed.max(v["elapsed_s"].as_f64().unwrap_or(0.0));
            early |= v["stopped_early"].as_bool().unwrap_or(false);
            for fl in v["failures"].as_array().cloned().unwrap_or_default() {
                let sig = fl["signature"].as_str().unwrap_or("").to_string();
                match merged.get_mut(&sig) {
                    Some(e) => {
                        let occ = e["occurrences"].as_u64().unwrap_or(0) + fl["occurrences"].as_u64().unwrap_or(0);
                        if fl["history"].as_array().map(|a| a.len()).unwrap_or(usize::MAX) < e["history"].as_array().map(|a| a.len()).unwrap_or(0) { *e = fl.clone(); }
                        e["occurrences"] = json!(occ);
                    }
                    None => { merged.insert(sig, fl); }
                }
            }
            let _ = std::fs::remove_file(&f);
        }
        let failures: Vec<Value> = merged.into_values().collect();
        println!("simcheck {}: {} evaluations, {} distinct failures, {:.0} s{}", p, evaluations, failures.len(), elapsed, if early { " (time budget reached)" } else { "" });
        for f in &failures { println!("  [{}x] {} :: {}", f["occurrences"], f["signature"].as_str().unwrap_or(""), f["what"].as_str().unwrap_or("")); }
        let doc = json!({"property": p, "seed": seed, "tier": if thorough { "thorough" } else { "quick" }, "evaluations": evaluations, "failures": failures,
            "distribution": dist, "elapsed_s": elapsed, "stopped_early": early, "worker_errors": worker_errors.get(p).cloned().unwrap_or_default()});
        std::fs::write(out.join(format!("simcheck_{}.json", p)), serde_json::to_string_pretty(&doc)?)?;
    }
    println!("simcheck: total wall time {:.0} s", t0.elapsed().as_secs_f64());
    Ok(())
}

// ------------------------------------------------------------------------------------------
// replay and probe
// ------------------------------------------------------------------------------------------

/// `hx simreplay --file simcheck_c01.json --index 0 [--observe]`: runs the stored history of one failure.
fn replay(args: &[String]) -> Result<(), Box<dyn std::error::Error>> {
    let file = arg(args, "--file").ok_or("--file")?;
    let index: usize = arg(args, "--index").and_then(|s| s.parse().ok()).unwrap_or(0);
    let v: Value = serde_json::from_str(&std::fs::read_to_string(&file)?)?;
    let hist = if v.get("failures").is_some() { v["failures"][index]["history"].clone() } else { v.clone() };
    let ops: Vec<Op> = serde_json::from_value(hist)?;
    let mut run = Run::new();
    for op in &ops {
        let before = run.tracker.height();
        let out = run.step(op).clone();
        let r = out.result.to_string();
        println!("{:<10} h={:<4} {:<60} {}", op.kind(), before.map(|x| x.to_string()).unwrap_or("-".into()), out.status.class(), &r[..r.len().min(90)]);
        if let Status::Panic(m) = &out.status { println!("   panic: {}", m); }
        if out.status.is_fatal() { break; }
    }
    println!("height {:?}, highest ever {:?}", run.tracker.height(), run.tracker.max_ever);
    if args.iter().any(|a| a == "--observe") {
        for (k, v) in run.observe() { println!("{} = {}", k, short(&v)); }
    }
    Ok(())
}

fn probe(args: &[String], seed: u64) -> Result<(), Box<dyn std::error::Error>> {
    let what = arg(args, "--what").unwrap_or_else(|| "gen".into());
    let t0 = Instant::now();
    let mut rng = Rng::new(seed);
    match what.as_str() {
        "gen" => {
            let mut run = Run::new();
            println!("open: {:?}", t0.elapsed());
            let h = gen_history(&mut rng, &GenParams::small());
            let t1 = Instant::now();
            run.run(&h);
            println!("run: {} ops {:?}", h.len(), t1.elapsed());
            for (op, o) in &run.log { let r = o.result.to_string(); println!("{:<10} {:<50} {}", op.kind(), o.status.class(), &r[..r.len().min(100)]); }
            let t2 = Instant::now();
            let obs = run.observe();
            println!("observe: {} keys, {:?}; height {:?}", obs.len(), t2.elapsed(), run.tracker.height());
        }
        p @ ("c01" | "c03" | "c05" | "c06" | "c10") => {
            let mut d = Dist::default();
            let gp = gen_for(p, &mut rng, false);
            let h = gen_history(&mut rng, &gp);
            let aux = rng.next();
            let fs = match p {
                "c01" => c01_eval(&h, None, true, Some(&mut d)),
                "c03" => { let mut f = c03_eval(&h, aux, Some(&mut d)); f.extend(c03_loss_eval(&h, aux, Some(&mut d))); f }
                "c05" => { let (hm, inj) = inject_malformed(&mut rng, &h, 5); c05_eval(&hm, &inj, Some(&mut d)) }
                "c06" => c06_eval(&h, Some(&mut d)),
                _ => c10_eval(&h, aux, Some(&mut d)),
            };
            println!("{}: {} ops, {} findings, {:?}", p, h.len(), fs.len(), t0.elapsed());
            for f in fs { println!("  {} :: {}\n      {}", f.signature, f.what, short(&f.first_difference)); }
            println!("{}", serde_json::to_string(&d)?);
        }
        "corpus" => {
            let only = arg(args, "--name");
            for (name, prop, h) in corpus() {
                if only.as_deref().map(|o| o != name).unwrap_or(false) { continue; }
                let t = Instant::now();
                let fs = match prop { "c01" => c01_eval(&h, None, false, None), "c05" => c05_eval(&h, &[], None), _ => c06_eval(&h, None) };
                println!("== {} ({}): {} ops, {} findings, {:?}", name, prop, h.len(), fs.len(), t.elapsed());
                for f in fs { println!("   {} :: {}\n        {}", f.signature, f.what, short(&f.first_difference)); }
            }
        }
        "contracts" => {
            // self-test of the hand-assembled contracts: every action, checked through the RPC surface
            use alloy::primitives::U256;
            let mut run = Run::new();
            let ts = TS0 + 1;
            let mut k = 0;
            let mut call = |run: &mut Run, data: Vec<u8>, bl: u64| -> Value {
                k += 1;
                let op = Op::Call { from_pkscript: PKSCRIPTS[0].into(), to: To::ByInscription("tooli0".into()), data: Hx(data), enc: Enc::Base64, tail: t_tail(ts, &format!("c{}i0", k), bl) };
                run.step(&op).result.clone()
            };
            run.step(&t_init());
            let dep = run.step(&Op::Deploy { from_pkscript: PKSCRIPTS[0].into(), data: Hx(multitool_init()), enc: Enc::Base64Packed, tail: t_tail(ts, "tooli0", 2000) }).result.clone();
            let tool = dep["contractAddress"].as_str().unwrap_or("").to_string();
            let tool_addr = Hx::from_hex(&tool).to_address();
            println!("deploy status {} tool {} gas {}", dep["status"], tool, dep["gasUsed"]);
            let predicted = format!("0x{}", hex::encode(pkscript_address(PKSCRIPTS[0]).create(0)));
            println!("predicted address {} {}", predicted, if predicted == tool { "ok" } else { "MISMATCH" });
            let r = call(&mut run, cd::sstore(U256::from(7), U256::from(99)), 2000); println!("sstore status {}", r["status"]);
            let r = call(&mut run, cd::log(&[U256::from(70), U256::from(71), U256::from(72)], U256::from(5)), 2000); println!("log3 status {} topics {} data {}", r["status"], r["logs"][0]["topics"], r["logs"][0]["data"]);
            let r = call(&mut run, cd::log(&[], U256::from(6)), 2000); println!("log0 status {} logs {}", r["status"], r["logs"].as_array().map(|a| a.len()).unwrap_or(0));
            let r = call(&mut run, cd::revert(), 2000); println!("revert status {}", r["status"]);
            let r = call(&mut run, cd::spin(), 100); println!("spin status {} gasUsed {}", r["status"], r["gasUsed"]);
            let r = call(&mut run, cd::create(), 2000); println!("create status {}", r["status"]);
            let r = call(&mut run, cd::context(), 2000); println!("context status {} gasUsed {}", r["status"], r["gasUsed"]);
            let r = call(&mut run, cd::call(tool_addr, &cd::sstore(U256::from(8), U256::from(55))), 2000); println!("call->sstore status {}", r["status"]);
            let r = call(&mut run, cd::call(tool_addr, &cd::revert()), 2000); println!("call->revert status {} (bubbled)", r["status"]);
            let r = call(&mut run, cd::selfdestruct(), 2000); println!("selfdestruct status {}", r["status"]);
            run.step(&t_fin(ts));
            let mut slot = |run: &mut Run, k: u64| run.inst.rpc("eth_getStorageAt", json!([tool, format!("0x{:x}", k)])).unwrap_or(json!("err"));
            println!("slot 7 = {}", slot(&mut run, 7));
            println!("slot 8 = {}", slot(&mut run, 8));
            let child = slot(&mut run, SLOT_CHILD);
            println!("child (slot 0xc0) = {}; expected {}", child, hex::encode(tool_addr.create(1)));
            let child_addr = format!("0x{}", &child.as_str().unwrap_or("")[26..]);
            println!("child code = {}", run.inst.rpc("eth_getCode", json!([child_addr])).unwrap_or(json!("err")));
            let names = ["NUMBER", "TIMESTAMP", "PREVRANDAO", "CHAINID", "BASEFEE", "GASPRICE", "COINBASE", "CALLER", "ORIGIN", "BLOCKHASH(n-1)", "BLOCKHASH(n-2)", "op_return_tx_id"];
            for (i, n) in names.iter().enumerate() { println!("ctx {:<16} = {}", n, slot(&mut run, SLOT_CTX + i as u64)); }
            let r = run.inst.rpc("eth_call", json!([{"to": tool, "data": format!("0x{}", hex::encode(cd::sload(U256::from(7))))}, null]));
            println!("eth_call sload(7) = {:?}", r);
            let r = run.inst.rpc("eth_call", json!([{"to": child_addr, "data": "0x"}, null]));
            println!("eth_call child = {:?}", r);
            println!("code after selfdestruct (kept since Cancun) len = {}", run.inst.rpc("eth_getCode", json!([tool])).ok().and_then(|v| v.as_str().map(|s| s.len())).unwrap_or(0));
            println!("reverting init: {}", run.step(&Op::Deploy { from_pkscript: PKSCRIPTS[1].into(), data: Hx(init_reverting()), enc: Enc::Hex, tail: t_tail(ts + 1, "revi0", 2000) }).result["status"]);
            println!("garbage init: {}", run.step(&Op::Deploy { from_pkscript: PKSCRIPTS[1].into(), data: Hx(init_garbage()), enc: Enc::Hex, tail: t_tail(ts + 1, "garbi0", 2000) }).result["status"]);
            let raw = sign_legacy(0, 0, None, multitool_init(), CHAIN_ID);
            let r = run.step(&Op::Transact { raw_tx: Hx(raw), enc: Enc::Hex, tail: t_tail(ts + 1, "sgni0", 2000) }).result.clone();
            println!("signed deploy: status {} from {} expected signer {}", r[0]["status"], r[0]["from"], hex::encode(signer_address(0)));
        }
        "verify" => {
            let name = arg(args, "--name").unwrap_or_default();
            let then: Vec<String> = arg(args, "--then").map(|s| s.split(',').map(|x| x.to_string()).collect()).unwrap_or_default();
            let (_, _, h) = corpus().into_iter().find(|c| c.0 == name).ok_or("no such corpus entry")?;
            let mut run = Run::new();
            let mut all = h.clone();
            for t in &then {
                let ts = 1_700_009_000;
                all.push(match t.split(':').collect::<Vec<_>>().as_slice() {
                    ["reorg", n] => Op::Reorg(n.parse()?),
                    ["mine", n] => Op::Mine { n: n.parse()?, ts },
                    ["fin", n] => Op::Finalise { ts: n.parse()?, hash: Hx::zero32(), tx_count: Idx::Abs(0) },
                    ["deposit"] => Op::Deposit { to_pkscript: PKSCRIPTS[0].into(), ticker: "ordi".into(), amount: "0x64".into(), ts, hash: Hx::zero32(), tx_idx: Idx::Auto, insc_id: "vdep".into() },
                    ["finauto"] => Op::Finalise { ts, hash: Hx::zero32(), tx_count: Idx::Auto },
                    ["balance"] => Op::Balance { pkscript: PKSCRIPTS[0].into(), ticker: "ordi".into() },
                    ["emptyb64"] => Op::Deploy { from_pkscript: PKSCRIPTS[0].into(), data: Hx(vec![]), enc: Enc::EmptyBase64, tail: t_tail(ts, "eb64", 100) },
                    ["blocknumber"] => Op::Query { method: "eth_blockNumber".into(), params: json!([]) },
                    ["block0"] => Op::Query { method: "eth_getBlockByNumber".into(), params: json!(["0x0", false]) },
                    _ => return Err(format!("unknown step {}", t).into()),
                });
            }
            for op in &all {
                let out = run.step(op).clone();
                let r = out.result.to_string();
                println!("{:<10} {:<70} {}", op.kind(), match &out.status { Status::Panic(m) => format!("PANIC {}", m), s => s.class() }, &r[..r.len().min(160)]);
                if args.iter().any(|a| a == "--events") { for e in out.events.iter().filter(|e| is_mutation(e)) { println!("      {}", ev_string(e)); } }
            }
        }
        _ => return Err("simprobe --what gen|corpus|verify|c01|c03|c05|c06|c10".into()),
    }
    Ok(())
}
