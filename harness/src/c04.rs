//! C04 fault enumeration, component level: a crash is injected in front of every persistent
//! write of every commit / reorg of a BlockCachedDatabase history (the fail-point of the verif
//! hooks makes that write and all later ones fail), the table is reopened, a recovery reorg to
//! an admissible height is issued, and every key is compared with the write-log reference
//! ("the value the key had at the end of that block").  The cases for the Coq model are the
//! same histories with the crash expressed as the model's write script prefix.
use std::collections::BTreeMap;
use std::panic::{catch_unwind, AssertUnwindSafe};
use std::path::Path;

use brc20_prog::verif_hooks::{
    self as vh, BlockCachedDatabase, BlockHistoryCacheData, Ev, U64ED, MAX_REORG_HISTORY_SIZE,
};
use serde_json::json;

use crate::coqfmt as cf;
use crate::rng::Rng;

type T = BlockCachedDatabase<U64ED, U64ED, BlockHistoryCacheData<U64ED>>;
const W: u64 = MAX_REORG_HISTORY_SIZE;

#[derive(Clone, Debug)]
pub enum Op { Set(u64, u64, u64), Unset(u64, u64), Commit(u64), Reorg(u64) }

fn fmt_top(o: &Op) -> String {
    match o {
        Op::Set(b, k, v) => format!("TSet {} {} {}", b, k, v),
        Op::Unset(b, k) => format!("TUnset {} {}", b, k),
        Op::Commit(b) => format!("TCommit {}", b),
        Op::Reorg(n) => format!("TReorg {}", n),
    }
}

/// reference: per key the write log; clock = newest block the table was told about;
/// cd = clock at the last completed commit / reorg (what is durable)
#[derive(Clone, Default)]
struct Ref { log: BTreeMap<u64, Vec<(u64, Option<u64>)>>, clock: u64, cd: u64, saved: BTreeMap<u64, Vec<(u64, Option<u64>)>> }
impl Ref {
    fn apply(&mut self, op: &Op) {
        match op {
            Op::Set(b, k, v) => { self.log.entry(*k).or_default().push((*b, Some(*v))); self.clock = self.clock.max(*b); }
            Op::Unset(b, k) => { self.log.entry(*k).or_default().push((*b, None)); self.clock = self.clock.max(*b); }
            Op::Commit(b) => { self.clock = self.clock.max(b.saturating_sub(1)); self.cd = b.saturating_sub(1); self.saved = self.log.clone(); }
            Op::Reorg(n) => { for l in self.log.values_mut() { l.retain(|(b, _)| *b <= *n); } self.cd = *n; self.saved = self.log.clone(); }
        }
    }
    fn value_at(&self, k: u64, n: u64) -> Option<u64> {
        self.log.get(&k).and_then(|l| l.iter().filter(|(b, _)| *b <= n).last()).and_then(|x| x.1)
    }
}

fn apply(t: &mut T, op: &Op) -> Result<(), String> {
    let r = catch_unwind(AssertUnwindSafe(|| match op {
        Op::Set(b, k, v) => t.set(*b, &(*k).into(), (*v).into()).map_err(|e| e.to_string()),
        Op::Unset(b, k) => t.unset(*b, &(*k).into()).map_err(|e| e.to_string()),
        Op::Commit(b) => t.commit(*b).map_err(|e| e.to_string()),
        Op::Reorg(n) => t.reorg(*n).map_err(|e| e.to_string()),
    }));
    match r { Ok(x) => x, Err(_) => Err("panic".into()) }
}

fn gen(rng: &mut Rng) -> (Vec<u64>, Vec<Op>) {
    let keys: Vec<u64> = vec![1, 2, 3, 256];
    let mut ops = Vec::new();
    let mut clock = 1u64;
    let mut max_ever = 0u64;
    let len = rng.range(4, 14);
    for _ in 0..len {
        match rng.below(10) {
            0..=5 => {
                clock += *rng.pick(&[0u64, 0, 1, 1, 2, W - 1, W, W + 1, W + 3]);
                let k = *rng.pick(&keys);
                if rng.chance(1, 5) { ops.push(Op::Unset(clock, k)); } else { ops.push(Op::Set(clock, k, rng.range(1, 3))); }
            }
            6..=7 => { ops.push(Op::Commit(clock + 1)); max_ever = max_ever.max(clock); clock += 1; }
            _ => {
                // a reorg on a committed boundary, inside the window: the engine refuses a target
                // more than W below the highest block EVER finalised (max_block_number), not
                // just W below the current height
                ops.push(Op::Commit(clock + 1));
                max_ever = max_ever.max(clock);
                let lo = max_ever.saturating_sub(W);
                if lo + 1 > clock { clock += 1; continue; }
                let n = rng.range(lo, clock - 1);
                ops.push(Op::Reorg(n));
                clock = n + 1;
            }
        }
    }
    // always end with a commit or a reorg so there is something to crash
    ops.push(Op::Commit(clock + 1));
    (keys, ops)
}

pub struct Crash { ops: Vec<Op>, at: usize, k: u64, recover_to: u64, got: Vec<Option<u64>>, want: Vec<Option<u64>>, writes_done: Vec<String> }

pub fn run(out: &Path, seed: u64, thorough: bool) -> Result<(), Box<dyn std::error::Error>> {
    std::panic::set_hook(Box::new(|_| {}));
    let mut rng = Rng::new(seed ^ 0xC04);
    let nseq = if thorough { 600 } else { 70 };
    let tmp = if Path::new("/dev/shm").is_dir() { tempfile::tempdir_in("/dev/shm")? } else { tempfile::tempdir()? };
    let mut evaluations = 0u64;
    let mut crash_points = 0u64;
    let mut failures = Vec::new();
    let mut terms: Vec<String> = Vec::new();
    let mut samples = Vec::new();
    let mut dist: BTreeMap<String, u64> = BTreeMap::new();
    let mut dirn = 0u64;
    let mut fresh = |tmp: &tempfile::TempDir| { dirn += 1; let d = tmp.path().join(format!("d{}", dirn)); std::fs::create_dir_all(&d).unwrap(); d };
    for s in 0..nseq {
        let (keys, ops) = gen(&mut rng);
        for (i, op) in ops.iter().enumerate() {
            if !matches!(op, Op::Commit(_) | Op::Reorg(_)) { continue; }
            let mut k = 0u64;
            loop {
                // replay the prefix on a fresh directory
                let d = fresh(&tmp);
                vh::arm_failpoint(None);
                let mut t = T::new(&d, "t")?;
                let mut r = Ref::default();
                let mut ok = true;
                for p in &ops[..i] { if apply(&mut t, p).is_err() { ok = false; break; } r.apply(p); }
                if !ok { let _ = std::fs::remove_dir_all(&d); break; }
                vh::set_recording(true);
                let _ = vh::drain();
                vh::arm_failpoint(Some(k));
                let res = apply(&mut t, op);
                let evs = vh::drain();
                let done: Vec<String> = evs.iter().filter_map(|e| match e {
                    Ev::VPut { hist, key, val, .. } => Some(format!("{}:{}:{}", if *hist { "hist" } else { "latest" }, hex::encode(key), if val.is_some() { "put" } else { "del" })),
                    _ => None }).collect();
                let done_pairs: Vec<(bool, u64)> = evs.iter().filter_map(|e| match e {
                    Ev::VPut { hist, key, .. } => Some((*hist, u64::from_be_bytes(key[..8].try_into().unwrap()))),
                    _ => None }).collect();
                vh::set_recording(false);
                let crashed = vh::crashed();
                vh::arm_failpoint(None);
                drop(t);
                if !crashed {
                    // k is past the last write of this op: done with this crash site
                    let _ = res;
                    let _ = std::fs::remove_dir_all(&d);
                    break;
                }
                crash_points += 1;
                *dist.entry(match op { Op::Commit(_) => "crash_in_commit", _ => "crash_in_reorg" }.to_string()).or_default() += 1;
                // what is durable: the state of the last completed commit / reorg; a crashed
                // reorg(n0) additionally caps the admissible targets at n0
                let cap = match op { Op::Reorg(n0) => (*n0).min(r.cd), _ => r.cd };
                let clock_after = match op { Op::Commit(b) => r.clock.max(b.saturating_sub(1)), Op::Reorg(_) => r.clock, _ => r.clock };
                // admissible recovery targets: n <= cap and clock_after <= n + W
                let lo = clock_after.saturating_sub(W);
                if lo <= cap {
                    for n in [cap, lo] {
                        let d2 = fresh(&tmp);
                        copy_dir(&d, &d2)?;
                        let mut t2 = T::new(&d2, "t")?;
                        let rr = apply(&mut t2, &Op::Reorg(n));
                        evaluations += 1;
                        let got: Vec<Option<u64>> = keys.iter().map(|kk| t2.latest(&(*kk).into()).ok().flatten().map(|v| v.into())).collect();
                        let want: Vec<Option<u64>> = keys.iter().map(|kk| r.value_at(*kk, n)).collect();
                        if rr.is_err() || got != want {
                            failures.push(json!({"what": format!("crash before persistent write #{} of {:?}, reopen, reorg({}) -> {:?} but the values as of block {} are {:?}{}", k, op, n, got, n, want, if rr.is_err() { " (recovery reorg failed)" } else { "" }),
                                "case": {"ops": ops[..=i].iter().map(|o| format!("{:?}", o)).collect::<Vec<_>>(), "crash_at_write": k, "recover_to": n, "writes_done": done}}));
                        }
                        if samples.len() < 2 { samples.push(json!({"ops": ops[..=i].iter().map(|o| format!("{:?}", o)).collect::<Vec<_>>(), "crash_at_write": k, "writes_done_before_crash": done, "recover_to": n, "read_back": got})); }
                        // Coq case: same thing on the model (crash = prefix of the model's write script)
                        terms.push(format!(
                            "{{| kc_id := {}; kc_keys := {}; kc_ops := {}; kc_crash_op := {}; kc_done := {}; kc_n := {}; kc_got := {} |}}",
                            terms.len(), cf::list(&keys, |x| cf::n(*x)), cf::list(&ops[..i], fmt_top), fmt_top(op),
                            cf::list(&done_pairs, |(h, kk)| cf::pair(cf::boolean(*h), cf::n(*kk))), n,
                            cf::list(&got, |x| cf::opt(x, |v| cf::n(*v)))));
                        drop(t2);
                        let _ = std::fs::remove_dir_all(&d2);
                    }
                }
                let _ = std::fs::remove_dir_all(&d);
                k += 1;
                if k > 200 { break; }
            }
        }
        let _ = s;
    }
    let mut rt = RecoveryTie::default();
    let engine_evals = engine_crash_search(seed, thorough, &mut failures, &mut dist, &mut rt);
    evaluations += engine_evals;
    let imports = "From Brc.Model Require Import Base History Table Tie04.\nFrom BrcGen Require Import Consts.";
    let mut files = cf::write_shards(out, "c04_k", imports, "kcase", "bad_kcases W", &terms, 16)?;
    // store level: the recorded persistent writes of every commit / reorg of real engine runs
    // against the model's write scripts (Model/Crash.v, checker Model/TieCrash.v)
    let st = store_script_tie(seed, thorough, &mut failures, &mut dist);
    let st_imports = "From Brc.Model Require Import Base History Table BlockTable Store Crash Tie01 TieCrash.\nFrom BrcGen Require Import Consts.";
    let st_files = cf::write_shards(out, "c04_s", st_imports, "ccase", "bad_ccases W", &st.terms, 8)?;
    files.extend(st_files);
    evaluations += st.checks;
    // recovery tie: the crashed-and-recovered runs of the crash search against the model
    let rc_files = cf::write_shards(out, "c04_r", st_imports, "ccase", "bad_ccases W", &rt.terms, 16)?;
    files.extend(rc_files);
    if samples.len() < 3 { if let Some(x) = st.sample.clone() { samples.push(x); } }
    let meta = json!({
        "files": files,
        "evaluations": evaluations,
        "distinct_nontrivial": terms.len(),
        "crash_points": crash_points, "engine_level_crash_recoveries": engine_evals,
        "recovery_tie_records": rt.records, "recovery_tie_sites": rt.sites, "recovery_tie_noop_recoveries": rt.noop, "recovery_tie_crashes_in_reorg_block_tail": rt.in_block_tail,
        "recovery_tie_rule": "every crash point of the engine-level crash search (fail-point at persistent-write index k of a brc20_commitToDatabase / brc20_reorg: first, last, middle, random indexes and EVERY index of a reorg's tail = the block tables' delete loops and the closing commit; reopen; brc20_reorg(n) to the crashed reorg's target / the durable height / one below) is also handed to the model: Coq replays the store-operation trace up to the operation, checks that the writes done before the crash are a prefix of the operation's script for some HashMap order, applies them to the persistent part, reopens, runs engine_reorg, and compares (a) the recorded persistent writes of the recovery call with the model's reorg script on the crashed store and (b) a probe of the recovered instance (48 point reads, range scans, the rows of the three block tables over 15 heights, heights, max row) with the model's recovered store. Failure id = record id + code * 10^9 (1 prefix, 2 recovery writes, 3 probe, 4 model failed).",
        "store_script_checks": st.checks, "store_script_histories": st.terms.len(), "store_script_writes_compared": st.writes,
        "store_script_rule": "store level: histories with commits (every 2-3 blocks / random) and in-window reorgs run on the real engine behind the RPC table; for EVERY accepted brc20_commitToDatabase and brc20_reorg the recorder's persistent-write events (table, key, put/delete, value; flushes) are compared in Coq with the write script the model computes from the store-operation trace up to that point (sto_run, then commit_script / reorg_script): everything outside the versioned tables exactly and in order, the versioned part as key pairs (order inside a pair exact; pairs sorted by (table, key) since HashMap order is arbitrary), tables in the reflected order; the trace is also checked to be in the domain of the crash theorems (crun, clean boundary, guard = do).",
        "rule": "table level: random histories over 4 keys (window-edge jumps, unsets, commits, in-window reorgs); for EVERY commit / reorg and EVERY persistent write of it, the run is repeated with the fail-point armed at that write (that write and all later ones are not performed), the table is reopened and a recovery reorg is issued to the highest and to the lowest admissible height (<= the durable height, <= a crashed reorg's target, inside the window); every key is compared with the write log. Engine level (search only): histories with commits run on the real engine behind the RPC table, a crash at sampled persistent-write indexes (first, last, middle, random) of brc20_commitToDatabase, reopen, brc20_reorg to the durable height (and one below), full observation against a fresh instance fed only the surviving blocks. A case is one (history, crash site, write index, recovery target); all are distinct by construction.",
        "distribution": dist,
        "samples": samples,
        "impl_failures": failures,
        "exhaustive_over_crash_points_of_generated_histories": true,
    });
    std::fs::write(out.join("c04_meta.json"), serde_json::to_string_pretty(&meta)?)?;
    Ok(())
}


/// The recorder's persistent-write events of one call as `rw` terms of Model/TieCrash.v.
fn rw_terms(tr: &mut crate::trace::Tracer, evs: &[Ev]) -> Vec<String> {
    use crate::trace::{key_term, norm_block_row, BTABLES, VTABLES};
    let mut ws: Vec<String> = Vec::new();
    for e in evs {
        match e {
            Ev::VPut { table, hist, key, val } => {
                let t = VTABLES.iter().position(|x| x == table).unwrap_or(99);
                let v = if *hist { if val.is_some() { "(Some 0)".to_string() } else { "None".to_string() } }
                        else { match val { Some(b) => format!("(Some {})", tr.val(b)), None => "None".to_string() } };
                ws.push(format!("RV {} {} {}", hist, key_term(t, key), v));
            }
            Ev::BPut { table, key, val } => {
                let b = BTABLES.iter().position(|x| x == table).unwrap_or(99);
                let v = match val {
                    Some(x) => { let id = if tr.norm_rows && b == 1 { let nb = norm_block_row(x); tr.val(&nb) } else { tr.val(x) }; format!("(Some {})", id) }
                    None => "None".to_string(),
                };
                ws.push(format!("RB {} {} {}", b, key, v));
            }
            Ev::BFlush { table } => { let b = BTABLES.iter().position(|x| x == table).unwrap_or(99); ws.push(format!("RF {}", b)); }
            Ev::CFlush { .. } => ws.push("RF 3".to_string()),
            Ev::CPut { .. } => ws.push("RF 98".to_string()),
            _ => {}
        }
    }
    ws
}

/// What the crash search hands to the model tie: one case per crash site (the store-operation
/// trace up to the site + one record per injected crash: writes done, recovery target, the
/// recovery's own writes, a probe of the recovered instance).
#[derive(Default)]
pub struct RecoveryTie { pub terms: Vec<String>, pub records: u64, pub sites: u64, pub noop: u64, pub in_block_tail: u64 }

/// Engine-level crash search (no model): a history with commits is run on the real engine;
/// for a commit (or reorg) the fail-point is armed at a persistent-write index, the instance
/// is reopened and reorged to durable heights inside the window, and the full observation is
/// compared with a fresh instance fed only the blocks up to that height.
fn engine_crash_search(seed: u64, thorough: bool, failures: &mut Vec<serde_json::Value>, dist: &mut BTreeMap<String, u64>, rt: &mut RecoveryTie) -> u64 {
    use crate::sim::{diff_obs, gen_history, with_schedule, CommitSchedule, GenParams, Genesis, Op as SOp, Run};
    let mut rng = Rng::new(seed ^ 0xE04);
    let nhist = if thorough { 14 } else { 3 };
    let mut evals = 0u64;
    for hi in 0..nhist {
        let mut p = GenParams::plain(7 + rng.below(5));
        p.max_txs = 4; p.genesis = Genesis::Initialise; p.p_mine = 10; p.p_pool_script = 0; p.edge_plans = false;
        p.schedule = CommitSchedule::EveryK(3);
        let mut h = gen_history(&mut rng, &p);
        h = with_schedule(&h, p.schedule, &mut rng);
        // crash sites: the last Commits of the history, plus one Reorg appended at the end
        let mut sites: Vec<usize> = h.iter().enumerate().filter(|(_, o)| matches!(o, SOp::Commit)).map(|(i, _)| i).collect();
        if sites.len() > 3 { let keep = sites.len() - 3; sites.drain(..keep); }
        {
            // where does the history end? (a dry run tells the height)
            let mut dry = Run::new();
            if dry.run(&h) && !dry.tracker.desynced && dry.tracker.at_boundary() {
                if let Some(top) = dry.tracker.height() {
                    if top >= 3 { let back = 2 + rng.below(3.min(top - 1)); h.push(SOp::Reorg(top - back)); sites.push(h.len() - 1); }
                }
            }
        }
        for site in sites {
            // count the persistent writes of this commit with a dry run
            // (traced: the store-operation trace up to the site is what the model replays)
            let mut dry = Run::new();
            let mut tr = crate::trace::Tracer::new();
            tr.norm_rows = true;
            let mut ok = true;
            for op in &h[..site] {
                let o = dry.step(op).clone();
                if o.status.is_fatal() { ok = false; break; }
                let resolved = dry.log.last().unwrap().0.clone();
                tr.absorb(&resolved, &o);
            }
            if !ok || dry.tracker.desynced { continue; }
            let trace_items: Vec<String> = tr.items.drain(..).filter_map(|it| it.strip_prefix("IOp ").map(|r| format!("CIOp {}", r))).collect();
            vh::arm_failpoint(None);
            let before = vh::writes();
            let dry_height = dry.tracker.height();
            let dry_out = dry.step(&h[site]).clone();
            let total = vh::writes().saturating_sub(before);
            // the writes of the uninterrupted operation, by index: which crash points lie in the
            // block tables' tail of a reorg
            let full_evs: Vec<Ev> = dry_out.events.iter().filter(|e| matches!(e, Ev::VPut { .. } | Ev::BPut { .. } | Ev::BFlush { .. } | Ev::CFlush { .. } | Ev::CPut { .. })).cloned().collect();
            let last_vput = full_evs.iter().rposition(|e| matches!(e, Ev::VPut { .. }));
            drop(dry);
            if total == 0 { continue; }
            let site_term = match &h[site] { SOp::Reorg(t) => format!("(SReorg {})", t), _ => "(SCommit)".to_string() };
            let mut records: Vec<String> = Vec::new();
            let mut ks: Vec<u64> = vec![0, 1, 2, 3, total / 2, total.saturating_sub(3), total.saturating_sub(2), total.saturating_sub(1)];
            for _ in 0..(if thorough { 10 } else { 4 }) { ks.push(rng.below(total)); }
            // thorough: a regular grid over the whole script as well
            if thorough { let step = (total / 40).max(1); let mut k = 0; while k < total { ks.push(k); k += step; } }
            // a reorg ends with the block-keyed tables' delete loops (one delete per orphaned block and
            // table) and the closing commit: every crash point of that tail, so that a crash strictly
            // inside one table's delete loop is always among them
            if let SOp::Reorg(t) = &h[site] {
                let depth = dry_height.map(|hh| hh.saturating_sub(*t)).unwrap_or(3);
                let tail = (3 * depth + 14).min(total);
                for k in (total - tail)..total { ks.push(k); }
            }
            ks.sort(); ks.dedup();
            for k in ks {
                if k >= total { continue; }
                let mut a = Run::new();
                if !a.run(&h[..site]) { continue; }
                let durable = a.tracker.committed_len as u64; // number of durable blocks before this commit
                let height = a.tracker.height();
                vh::arm_failpoint(Some(k));
                let out = a.step(&h[site]).clone();
                let crashed = vh::crashed();
                vh::arm_failpoint(None);
                if !crashed { continue; }
                let done = rw_terms(&mut tr, &out.events);
                if a.inst.reopen_in_place().is_err() { failures.push(json!({"what": "c04: the database could not be reopened after a crash in commit", "case": {"history": h[..=site].to_vec(), "crash_at_write": k}})); continue; }
                *dist.entry("engine_crash_in_commit".into()).or_default() += 1;
                let Some(height) = height else { continue };
                if durable == 0 { continue; }
                let c = durable - 1; // durable height
                // a crashed reorg(T): targets are T itself (the same call again) and below
                // (commits: alternately the durable height itself and one below)
                let targets: Vec<u64> = match &h[site] { SOp::Reorg(t) => vec![(*t).min(c)], _ => if k % 2 == 1 && c >= 1 { vec![c - 1, c] } else { vec![c, c.saturating_sub(1)] } };
                if matches!(&h[site], SOp::Reorg(_)) { *dist.entry("engine_crash_in_reorg".into()).or_default() += 1; }
                for n in targets {
                    if height > n + W { continue; }
                    // recovery: reorg to n on a copy of the crashed instance is destructive, so re-crash for the second target
                    let r = a.inst.rpc("brc20_reorg", json!([n]));
                    evals += 1;
                    // model tie: the recovery's own persistent writes and a probe of what it left
                    {
                        let rec = rw_terms(&mut tr, &a.inst.events());
                        let mut prng = Rng::new(seed ^ 0xC4A5 ^ (k << 8) ^ site as u64);
                        let probe = match tr.probe(&mut a, &mut prng) { Ok(()) => tr.items.pop(), Err(_) => None };
                        tr.n_probes = 0;
                        if let Some(probe) = probe {
                            if rec.is_empty() { rt.noop += 1; }
                            if let (SOp::Reorg(_), Some(lv)) = (&h[site], last_vput) { if k as usize > lv + 1 { rt.in_block_tail += 1; } }
                            records.push(format!("{{| cr_id := {}; cr_done := [{}]; cr_n := {}; cr_accepted := {}; cr_rec := [{}]; cr_probe := {} |}}",
                                rt.records, done.join("; "), n, if r.is_ok() { "true" } else { "false" }, rec.join("; "), probe));
                            rt.records += 1;
                        } else {
                            failures.push(json!({"what": format!("c04: the recovered instance could not be probed after a crash before write #{} and brc20_reorg({})", k, n), "case": {"history": h[..=site].to_vec(), "crash_at_write": k, "recover_to": n}}));
                        }
                    }
                    // a no-op reorg (n = current height) is fine as well
                    let mut fresh = Run::new();
                    let eff = a.tracker.effective_history(&a.log, Some(n));
                    if !fresh.run(&eff) { continue; }
                    let mut u = a.universe.clone(); u.merge(&fresh.universe);
                    u.block_open = false;
                    let oa = crate::sim::observe(&mut a.inst, &u);
                    let ob = crate::sim::observe(&mut fresh.inst, &u);
                    let d = diff_obs(&oa, &ob);
                    if r.is_err() || !d.is_empty() {
                        failures.push(json!({"what": format!("c04: crash before persistent write #{} of {} writes of {}, reopen, brc20_reorg({}) {}: {} queries differ from a fresh replay of blocks 0..={} (first: {})",
                            k, total, match &h[site] { SOp::Reorg(t) => format!("brc20_reorg({})", t), _ => "brc20_commitToDatabase".to_string() }, n, if r.is_err() { "was refused or failed" } else { "accepted" }, d.len(), n, d.first().map(|x| x.0.clone()).unwrap_or_default()),
                            "case": {"history": h[..=site].to_vec(), "crash_at_write": k, "recover_to": n, "first_difference": d.first().map(|x| json!({"query": x.0, "crashed_then_reorged": x.1, "fresh": x.2}))}}));
                    }
                    break; // the reorg changed the instance: one target per crash
                }
            }
            if !records.is_empty() {
                rt.sites += 1;
                // a few records per case: the model replays the trace once per case, the cases are
                // evaluated in parallel
                for chunk in records.chunks(6) {
                    let mut items = trace_items.clone();
                    items.push(format!("CICrashes {} [\n   {}\n  ]", site_term, chunk.join(";\n   ")));
                    rt.terms.push(format!("{{| cc_id := {}; cc_items := [\n  {}\n] |}}", 1000 + rt.terms.len(), items.join(";\n  ")));
                }
            }
        }
        let _ = hi;
    }
    evals
}

fn copy_dir(a: &Path, b: &Path) -> std::io::Result<()> {
    std::fs::create_dir_all(b)?;
    for e in std::fs::read_dir(a)? {
        let e = e?;
        let p = e.path();
        let q = b.join(e.file_name());
        if p.is_dir() { copy_dir(&p, &q)?; } else if e.file_name() != "LOCK" { std::fs::copy(&p, &q)?; }
    }
    Ok(())
}


pub struct StoreTie { pub terms: Vec<String>, pub checks: u64, pub writes: u64, pub sample: Option<serde_json::Value> }

/// Store-level script tie: real engine runs; every commit / reorg becomes a `CICheck` item that
/// carries the persistent writes the recorder saw, every other store event a `CIOp`.
fn store_script_tie(seed: u64, thorough: bool, failures: &mut Vec<serde_json::Value>, dist: &mut BTreeMap<String, u64>) -> StoreTie {
    use crate::sim::{gen_history, with_schedule, CommitSchedule, GenParams, Genesis, Op as SOp, Run};
    use crate::trace::Tracer;
    let mut rng = Rng::new(seed ^ 0x5C04);
    let nhist = if thorough { 30 } else { 5 };
    let mut st = StoreTie { terms: Vec::new(), checks: 0, writes: 0, sample: None };
    for hi in 0..nhist {
        let mut p = GenParams::small();
        p.blocks = 6 + rng.below(6);
        p.max_txs = 3;
        p.genesis = if hi % 2 == 0 { Genesis::Initialise } else { Genesis::Mine };
        p.p_reorg = 18; p.p_clear = 4; p.p_reopen = 3; p.p_mine = 15; p.max_mine = 4; p.edge_plans = false; p.p_pool_script = 10;
        p.schedule = *rng.pick(&[CommitSchedule::EveryK(2), CommitSchedule::EveryK(3), CommitSchedule::Random]);
        let mut h = gen_history(&mut rng, &p);
        h = with_schedule(&h, p.schedule, &mut rng);
        // end with a reorg of a few blocks (crossing the last commit when there is one) and a commit
        {
            let mut dry = Run::new();
            if dry.run(&h) && !dry.tracker.desynced && dry.tracker.at_boundary() {
                if let Some(top) = dry.tracker.height() {
                    if top >= 2 { let back = 1 + rng.below(3.min(top)); h.push(SOp::Reorg(top - back)); h.push(SOp::Mine { n: 1, ts: 1_800_000_000 + hi as u64 }); h.push(SOp::Commit); }
                }
            }
        }
        let mut run = Run::new();
        let mut tr = Tracer::new();
        let mut items: Vec<String> = Vec::new();
        let mut n_checks = 0u64;
        for op in &h {
            let out = run.step(op).clone();
            if out.status.is_fatal() {
                failures.push(json!({"what": format!("c04 store tie: {} answered {}", op.kind(), out.status.class()), "case": {"history": h}}));
                break;
            }
            let resolved = run.log.last().unwrap().0.clone();
            let before = tr.items.len();
            tr.absorb(&resolved, &out);
            let mut new_items: Vec<String> = tr.items.drain(before..).collect();
            let is_site = matches!(resolved, SOp::Commit | SOp::Reorg(_));
            if is_site {
                if let Some(last) = new_items.last().cloned() {
                    if last.starts_with("IOp (SCommit") || last.starts_with("IOp (SReorg") {
                        new_items.pop();
                        let ws: Vec<String> = rw_terms(&mut tr, &out.events);
                        st.writes += ws.len() as u64;
                        n_checks += 1;
                        *dist.entry(if matches!(resolved, SOp::Commit) { "store_script_commit" } else { "store_script_reorg" }.to_string()).or_default() += 1;
                        if st.sample.is_none() && ws.len() > 12 {
                            st.sample = Some(json!({"store_script_check": &last[5..last.len() - 1], "recorded_persistent_writes": ws.len(), "first_writes": ws.iter().take(10).collect::<Vec<_>>()}));
                        }
                        let inner = &last[4..]; // "(SCommit)" / "(SReorg n)"
                        new_items.push(format!("CICheck {} [{}]", inner, ws.join("; ")));
                    }
                }
            }
            for it in new_items {
                if let Some(rest) = it.strip_prefix("IOp ") { items.push(format!("CIOp {}", rest)); }
                else if it.starts_with("CICheck") { items.push(it); }
                // IRefused: the store refused (no write happened): nothing for the script tie
            }
        }
        st.checks += n_checks;
        st.terms.push(format!("{{| cc_id := {}; cc_items := [\n  {}\n] |}}", hi, items.join(";\n  ")));
    }
    st
}
