//! From the hook's store events of a run to the model's trace items (coq/theories/Model/Tie01.v):
//! store operations (SV / SB / SHash / SCommit / SClear / SReorg), refused operations, and probes
//! (what the implementation answers for point reads, range scans, block rows, heights, the
//! max_block_number row) taken through the cfg-gated `verif_probe` RPC method.
use std::collections::{BTreeMap, BTreeSet, HashMap};

use serde_json::{json, Value};

use crate::rng::Rng;
use crate::sim::{Ev, Op, OpOut, Run, Status};

pub const VTABLES: [&str; 12] = [
    "account_memory", "code", "account", "number_and_index_to_tx_hash", "tx_receipt",
    "inscription_id_to_tx_hash", "contract_address_to_inscription_id", "tx",
    "account_and_nonce_to_tx_hash", "pending_tx_hash_to_tx_id", "tx_trace", "block_hash_to_number",
];
pub const BTABLES: [&str; 3] = ["block_number_to_hash", "block_number_to_block", "block_number_to_raw_block"];

fn vt_index(name: &str) -> Option<usize> { VTABLES.iter().position(|t| *t == name) }
fn bt_index(name: &str) -> Option<usize> { BTABLES.iter().position(|t| *t == name) }

/// (table, key bytes) -> the model's key: table index * 2^600 + big-endian value of the key
pub fn key_term(table: usize, key: &[u8]) -> String {
    let h = hex::encode(key);
    let h = h.trim_start_matches('0');
    if h.is_empty() { format!("({} * 2 ^ 600)", table) } else { format!("({} * 2 ^ 600 + 0x{})", table, h) }
}

#[derive(Default)]
pub struct Tracer {
    /// value bytes -> small id (per case)
    vals: HashMap<Vec<u8>, u64>,
    /// every versioned key seen, in order of first appearance
    pub keys: Vec<(usize, Vec<u8>)>,
    keyset: BTreeSet<(usize, Vec<u8>)>,
    pub items: Vec<String>,
    pub n_ops: u64,
    pub n_probes: u64,
    pub op_kinds: BTreeMap<String, u64>,
    pub max_height_seen: u64,
    /// intern rows of block_number_to_block with their `mineTimestamp` (elapsed processing time,
    /// different in every run) zeroed, so that value ids are comparable ACROSS runs of one history
    pub norm_rows: bool,
}

/// A block_number_to_block row with the run-dependent `mineTimestamp` field zeroed.
pub fn norm_block_row(bytes: &[u8]) -> Vec<u8> {
    use brc20_prog::verif_hooks::{BlockResponseED, Decode, Encode};
    match BlockResponseED::decode_vec(&bytes.to_vec()) {
        Ok(mut b) => { b.mine_timestamp = 0u128.into(); b.encode_vec() }
        Err(_) => bytes.to_vec(),
    }
}

impl Tracer {
    pub fn new() -> Tracer { Tracer::default() }

    pub fn val(&mut self, bytes: &[u8]) -> u64 {
        let n = self.vals.len() as u64 + 1;
        *self.vals.entry(bytes.to_vec()).or_insert(n)
    }
    fn see_key(&mut self, t: usize, k: &[u8]) {
        if self.keyset.insert((t, k.to_vec())) { self.keys.push((t, k.to_vec())); }
    }
    fn push_op(&mut self, kind: &str, term: String) {
        *self.op_kinds.entry(kind.to_string()).or_default() += 1;
        self.n_ops += 1;
        self.items.push(format!("IOp ({})", term));
    }

    /// the items of one engine call
    pub fn absorb(&mut self, op: &Op, out: &OpOut) {
        for e in &out.events {
            match e {
                Ev::VSet { table, stamp, key, val } => {
                    let Some(t) = vt_index(table) else { continue };
                    self.see_key(t, key);
                    let v = match val { Some(b) => format!("(Some {})", self.val(b)), None => "None".into() };
                    self.push_op("SV", format!("SV {} {} {}", stamp, key_term(t, key), v));
                    // set_block_hash writes this row last: the latest_block_number /
                    // max_block_number bookkeeping of that call is listed right after it
                    if table == "block_hash_to_number" && val.is_some() {
                        self.push_op("SHash", format!("SHash {}", stamp));
                    }
                }
                Ev::BSet { table, key, val } => {
                    let Some(b) = bt_index(table) else { continue };
                    let v = if self.norm_rows && b == 1 { let nb = norm_block_row(val); self.val(&nb) } else { self.val(val) };
                    self.max_height_seen = self.max_height_seen.max(*key);
                    self.push_op("SB", format!("SB {} {} {}", b, key, v));
                }
                _ => {}
            }
        }
        let has = |f: &dyn Fn(&Ev) -> bool| out.events.iter().any(|e| f(e));
        match op {
            Op::Commit => if has(&|e| matches!(e, Ev::VCommit { .. })) { self.push_op("SCommit", "SCommit".into()); },
            Op::Clear => if out.status.is_ok() { self.push_op("SClear", "SClear".into()); },
            Op::Reopen => self.push_op("SClear(reopen)", "SClear".into()),
            Op::Reorg(n) => {
                if has(&|e| matches!(e, Ev::VReorg { .. })) { self.push_op("SReorg", format!("SReorg {}", n)); }
                else if let Status::Rejected(m) = &out.status {
                    if m.contains("too far behind max recorded") {
                        *self.op_kinds.entry("SReorg(refused by the store)".into()).or_default() += 1;
                        self.items.push(format!("IRefused (SReorg {})", n));
                    }
                }
            }
            _ => {}
        }
    }

    /// a probe of the implementation at this point
    pub fn probe(&mut self, run: &mut Run, rng: &mut Rng) -> Result<(), String> {
        // keys: the 24 most recent + 24 random older ones
        let mut pick: Vec<(usize, Vec<u8>)> = self.keys.iter().rev().take(24).cloned().collect();
        if self.keys.len() > 24 {
            for _ in 0..24 { let k = rng.pick(&self.keys[..self.keys.len() - 24]).clone(); if !pick.contains(&k) { pick.push(k); } }
        }
        let h = self.max_height_seen;
        let heights: Vec<u64> = (h.saturating_sub(13)..=h + 1).collect();
        let mut ranges: Vec<(usize, Vec<u8>, Vec<u8>)> = Vec::new();
        for b in h.saturating_sub(3)..=h + 1 {
            let lo = ((b as u128) << 64).to_be_bytes().to_vec();
            let hi = (((b + 1) as u128) << 64).to_be_bytes().to_vec();
            ranges.push((3, lo, hi));
        }
        let mut rows = Vec::new();
        for t in BTABLES { for n in &heights { rows.push(json!([t, n])); } }
        let params = json!({
            "latest": pick.iter().map(|(t, k)| json!([VTABLES[*t], hex::encode(k)])).collect::<Vec<_>>(),
            "ranges": ranges.iter().map(|(t, lo, hi)| json!([VTABLES[*t], hex::encode(lo), hex::encode(hi)])).collect::<Vec<_>>(),
            "rows": rows,
        });
        let r = run.inst.rpc("verif_probe", params).map_err(|e| format!("verif_probe: {:?}", e))?;
        if let Some(e) = r.get("error") { return Err(format!("verif_probe: {}", e)); }
        let opt_val = |me: &mut Tracer, v: &Value| -> String {
            match v.as_str() { Some(s) => format!("(Some {})", me.val(&hex::decode(s).unwrap_or_default())), None => "None".into() }
        };
        let latest: Vec<String> = r["latest"].as_array().cloned().unwrap_or_default().iter().map(|v| opt_val(self, v)).collect();
        let mut rvals = Vec::new();
        for (i, rr) in r["ranges"].as_array().cloned().unwrap_or_default().iter().enumerate() {
            let t = ranges[i].0;
            let mut l = Vec::new();
            for kv in rr.as_array().cloned().unwrap_or_default() {
                let k = hex::decode(kv[0].as_str().unwrap_or("")).unwrap_or_default();
                let v = hex::decode(kv[1].as_str().unwrap_or("")).unwrap_or_default();
                l.push(format!("({}, {})", key_term(t, &k), self.val(&v)));
            }
            rvals.push(format!("[{}]", l.join("; ")));
        }
        let nh = heights.len();
        let norm = self.norm_rows;
        let rows_out: Vec<String> = r["rows"].as_array().cloned().unwrap_or_default().iter().enumerate().map(|(i, v)| {
            if norm && i / nh.max(1) == 1 {
                match v.as_str() { Some(s) => format!("(Some {})", self.val(&norm_block_row(&hex::decode(s).unwrap_or_default()))), None => "None".into() }
            } else { opt_val(self, v) }
        }).collect();
        let seg = |i: usize| format!("[{}]", rows_out[i * nh..(i + 1) * nh].join("; "));
        let maxb = r["max"].as_str().and_then(|s| s.parse::<u64>().ok()).unwrap_or(0);
        self.items.push(format!(
            "IProbe [{}] [{}] [{}] [{}] [{}] {} {} {} {} {} {}",
            pick.iter().map(|(t, k)| key_term(*t, k)).collect::<Vec<_>>().join("; "),
            latest.join("; "),
            ranges.iter().map(|(t, lo, hi)| format!("({}, {})", key_term(*t, lo), key_term(*t, hi))).collect::<Vec<_>>().join("; "),
            rvals.join("; "),
            heights.iter().map(|x| x.to_string()).collect::<Vec<_>>().join("; "),
            seg(0), seg(1), seg(2),
            r["height"].as_u64().unwrap_or(0), r["next"].as_u64().unwrap_or(0), maxb));
        self.n_probes += 1;
        Ok(())
    }

    pub fn case_term(&self, id: usize) -> String {
        format!("{{| sc_id := {}; sc_items := [\n  {}\n] |}}", id, self.items.join(";\n  "))
    }
}

/// Runs a history on a fresh instance, probing at every block boundary and after every
/// commit / clear / reopen / reorg. Returns the tracer and the run.
pub fn trace_history(ops: &[Op], rng: &mut Rng) -> (Tracer, Run, Option<String>) {
    let mut run = Run::new();
    let mut tr = Tracer::new();
    let mut problem = None;
    for op in ops {
        let out = run.step(op).clone();
        if out.status.is_fatal() { problem = Some(format!("{} answered {}", op.kind(), out.status.class())); break; }
        let resolved = run.log.last().unwrap().0.clone();
        tr.absorb(&resolved, &out);
        if op.is_read() {
            // C10: a read request must not issue any store operation
            if out.events.iter().any(crate::sim::is_mutation) && problem.is_none() {
                problem = Some(format!("read request {} issued store mutations", op.kind()));
            }
            continue;
        }
        let boundary = matches!(op, Op::Finalise { .. } | Op::Mine { .. } | Op::Initialise { .. } | Op::Commit | Op::Clear | Op::Reopen | Op::Reorg(_));
        if boundary && !run.tracker.desynced {
            if let Err(e) = tr.probe(&mut run, rng) { problem = Some(e); break; }
        }
    }
    (tr, run, problem)
}
