//! Shared by `reflect` (Methods.v), c12 and c20: configuration builder, per-method parameter
//! recipes (valid parameters for every method of the #[rpc] trait known today), the standard
//! chain state the recipes refer to, JSON-RPC response classification, a handler-execution
//! witness built on the `#[instrument]` spans of the RPC handlers, and a minimal raw HTTP/1.1
//! client over a tokio TcpStream (so headers, batches and notifications are under our control).
use std::sync::Mutex;

use alloy::primitives::{Address, Bytes, TxKind, B256, U256};
use alloy_consensus::{SignableTransaction, TxLegacy};
use alloy_signer::SignerSync;
use alloy_signer_local::PrivateKeySigner;
use brc20_prog::verif_hooks as vh;
use serde_json::{json, Value};
use tokio::io::{AsyncReadExt, AsyncWriteExt};
use tokio::net::TcpStream;

pub const CHAIN_ID_TESTNETS: u64 = 0x425243323073;
pub const CHAIN_ID_MAINNET: u64 = 0x4252433230;
pub const TS: u64 = 1_700_000_000;
pub const PKSCRIPT: &str = "7465737420706b736372697074";
pub const ZERO32: &str = "0x0000000000000000000000000000000000000000000000000000000000000000";
/// init code returning the runtime `PUSH1 1 PUSH1 0 SSTORE STOP`: every call of the deployed
/// contract writes storage slot 0 (so a "read" method that committed would be seen).
pub const STORE_CONTRACT_INIT: &str = "0x656001600055006000526006601af3";

pub fn chain_id_for(network: &str) -> u64 {
    if network == "bitcoin" || network == "mainnet" { CHAIN_ID_MAINNET } else { CHAIN_ID_TESTNETS }
}

pub fn config(db_path: &str, url: &str, auth: Option<(Option<&str>, Option<&str>)>, network: &str, traces: bool) -> vh::Brc20ProgConfig {
    vh::Brc20ProgConfig::new(
        url.to_string(),
        auth.is_some(),
        auth.and_then(|a| a.0.map(|s| s.to_string())),
        auth.and_then(|a| a.1.map(|s| s.to_string())),
        traces,
        20_000_000,
        String::new(), // no bitcoin node: the status check fails fast with "Please configure BITCOIN_RPC_URL"
        String::new(),
        String::new(),
        network.to_string(),
        chain_id_for(network),
        false,
        db_path.to_string(),
        10 * 1024 * 1024,
        100 * 1024 * 1024,
        50,
    )
}

pub fn free_port() -> u16 {
    let l = std::net::TcpListener::bind("127.0.0.1:0").expect("bind");
    l.local_addr().unwrap().port()
}

/// A signed legacy transaction (hex of the RLP) from a fixed key.
pub fn signed_tx(chain_id: u64, nonce: u64, to: Option<Address>, input: Vec<u8>) -> (String, Address) {
    let signer = PrivateKeySigner::from_bytes(&B256::repeat_byte(7)).expect("key");
    let tx = TxLegacy {
        chain_id: Some(chain_id),
        nonce,
        gas_price: 0,
        gas_limit: 0,
        to: match to { Some(a) => TxKind::Call(a), None => TxKind::Create },
        value: U256::ZERO,
        input: Bytes::from(input),
    };
    let sig = signer.sign_hash_sync(&tx.signature_hash()).expect("sign");
    let mut out = Vec::new();
    tx.into_signed(sig).rlp_encode(&mut out);
    (format!("0x{}", hex::encode(out)), signer.address())
}

/// What the recipes refer to in the standard state.
#[derive(Clone, Debug, Default)]
pub struct Ctx {
    pub contract: String,
    pub contract_insc: String,
    pub tx_hash: String,
    pub block1_hash: String,
    pub height: u64,
    pub chain_id: u64,
    pub signer: String,
}

pub fn store_contract_addr(ctx: &Ctx) -> Option<Address> { ctx.contract.parse().ok() }

/// Requests that build the standard state on an empty database: genesis (controller contract),
/// block 1 = {deploy of the storing contract, a deposit}, two empty blocks, commit.
/// (method, params, must_succeed)
pub fn standard_state_steps() -> Vec<(&'static str, Value, bool)> {
    vec![
        ("brc20_initialise", json!([ZERO32, TS, 0]), false), // errs on the Bitcoin RPC status check *after* creating genesis
        ("brc20_deploy", json!([PKSCRIPT, STORE_CONTRACT_INIT, null, TS, ZERO32, 0, "verif_deploy_i0", 1000, ZERO32]), true),
        ("brc20_deposit", json!([PKSCRIPT, "ordi", "0x64", TS, ZERO32, 1, "verif_deposit_i0"]), true),
        ("brc20_finaliseBlock", json!([TS, ZERO32, 2]), true),
        ("brc20_mine", json!([2, TS]), true),
        ("brc20_commitToDatabase", json!([]), true),
    ]
}

/// Valid parameters for method `m` in the standard state with no open block. `None`: the harness
/// has no recipe (the method is then reported as unclassified, never assumed read-only).
pub fn recipe(m: &str, ctx: &Ctx) -> Option<Value> {
    let call = json!({"to": ctx.contract, "data": "0x00"});
    let rawtx = || signed_tx(ctx.chain_id, 0, store_contract_addr(ctx), vec![0]).0;
    Some(match m {
        "brc20_version" | "brc20_commitToDatabase" | "brc20_clearCaches" | "eth_blockNumber" | "eth_chainId"
        | "eth_maxPriorityFeePerGas" | "eth_blobBaseFee" | "net_version" | "web3_clientVersion" | "eth_accounts"
        | "eth_gasPrice" | "eth_syncing" | "txpool_content" => json!([]),
        "brc20_mine" => json!([1, TS]),
        "brc20_deploy" => json!([PKSCRIPT, STORE_CONTRACT_INIT, null, TS, ZERO32, 0, "verif_deploy_i1", 1000, ZERO32]),
        "brc20_call" => json!([PKSCRIPT, ctx.contract, null, "0x00", null, TS, ZERO32, 0, "verif_call_i1", 1000, ZERO32]),
        "brc20_transact" => json!([rawtx(), null, TS, ZERO32, 0, "verif_transact_i1", 1000, ZERO32]),
        "brc20_deposit" => json!([PKSCRIPT, "ordi", "0x64", TS, ZERO32, 0, "verif_deposit_i1"]),
        "brc20_withdraw" => json!([PKSCRIPT, "ordi", "0x1", TS, ZERO32, 0, "verif_withdraw_i1"]),
        "brc20_balance" => json!([PKSCRIPT, "ordi"]),
        "brc20_initialise" => json!([ZERO32, TS, 0]),
        "brc20_getTxReceiptByInscriptionId" => json!([ctx.contract_insc]),
        "brc20_getInscriptionIdByTxHash" | "eth_getTransactionReceipt" | "debug_traceTransaction" | "eth_getTransactionByHash" => json!([ctx.tx_hash]),
        "brc20_getInscriptionIdByContractAddress" | "eth_getCode" | "txpool_contentFrom" => json!([ctx.contract]),
        "brc20_finaliseBlock" => json!([TS, ZERO32, 0]),
        "brc20_reorg" => json!([ctx.height.saturating_sub(1)]),
        "eth_getBlockByNumber" => json!(["latest", true]),
        "eth_getBlockByHash" => json!([ctx.block1_hash, true]),
        "eth_getTransactionCount" | "eth_getBalance" => json!([ctx.signer, "latest"]),
        "eth_getBlockTransactionCountByNumber" => json!(["1"]),
        "eth_getBlockTransactionCountByHash" | "eth_getUncleCountByBlockHash" => json!([ctx.block1_hash]),
        "eth_getLogs" => json!([{"fromBlock": "0x0", "toBlock": "0x3"}]), // the server refuses ranges of more than 5 blocks
        "eth_call" | "eth_estimateGas" => json!([call, null]),
        "eth_callMany" | "eth_estimateGasMany" => json!([[call], null, null]),
        "eth_getStorageAt" => json!([ctx.contract, "0x0"]),
        "debug_getBlockTraceString" | "debug_getBlockTraceHash" | "debug_getRawHeader" | "debug_getRawBlock" | "debug_getRawReceipts" => json!(["1"]),
        "eth_getTransactionByBlockNumberAndIndex" | "eth_getUncleByBlockNumberAndIndex" => json!([1, 0]),
        "eth_getTransactionByBlockHashAndIndex" | "eth_getUncleByBlockHashAndIndex" => json!([ctx.block1_hash, 0]),
        "eth_getUncleCountByBlockNumber" => json!([1]),
        "web3_sha3" => json!(["0x00"]),
        _ => return None,
    })
}

/// Read-only requests whose answers make up the observable state digest (no EVM execution, so
/// they never wait for an open block). Sent as single calls.
pub fn digest_requests(ctx: &Ctx) -> Vec<(&'static str, Value)> {
    let mut v = vec![
        ("eth_blockNumber", json!([])),
        ("eth_getBlockByNumber", json!(["latest", true])),
        ("eth_getBlockByNumber", json!(["0", false])),
        ("txpool_content", json!([])),
        ("eth_getLogs", json!([{"fromBlock": "0x0", "toBlock": "0x4"}])),
        ("eth_getLogs", json!([{"fromBlock": "latest", "toBlock": "pending"}])),
        ("brc20_getTxReceiptByInscriptionId", json!(["verif_deploy_i1"])),
        ("brc20_getTxReceiptByInscriptionId", json!(["verif_call_i1"])),
        ("brc20_getTxReceiptByInscriptionId", json!(["verif_transact_i1"])),
        ("brc20_getTxReceiptByInscriptionId", json!(["verif_deposit_i1"])),
        ("brc20_getTxReceiptByInscriptionId", json!(["verif_withdraw_i1"])),
        ("brc20_getTxReceiptByInscriptionId", json!(["BRC20_CONTROLLER_INIT"])),
        ("eth_getTransactionCount", json!([format!("0x{}", hex::encode(vh::INDEXER_ADDRESS.0)), "latest"])),
    ];
    if !ctx.contract.is_empty() {
        v.push(("eth_getStorageAt", json!([ctx.contract, "0x0"])));
        v.push(("eth_getCode", json!([ctx.contract])));
        v.push(("eth_getTransactionCount", json!([ctx.signer, "latest"])));
    }
    v
}

pub fn request_json(id: Option<u64>, m: &str, params: &Value) -> Value {
    match id {
        Some(i) => json!({"jsonrpc": "2.0", "id": i, "method": m, "params": params}),
        None => json!({"jsonrpc": "2.0", "method": m, "params": params}),
    }
}

/// Response class of one JSON-RPC response object.
#[derive(Clone, Copy, Debug, PartialEq, Eq)]
pub enum Class { Result, E401, EOther(i64) }

pub fn classify(v: &Value) -> Option<(Option<i64>, Class)> {
    let o = v.as_object()?;
    let id = o.get("id").and_then(|i| i.as_i64());
    if o.contains_key("result") { return Some((id, Class::Result)); }
    let code = o.get("error")?.get("code")?.as_i64()?;
    Some((id, if code == 401 { Class::E401 } else { Class::EOther(code) }))
}

pub fn is_mutation(ev: &vh::Ev) -> bool {
    !matches!(ev, vh::Ev::Lock { .. } | vh::Ev::Note(_))
}

pub fn ev_kind(ev: &vh::Ev) -> &'static str {
    match ev {
        vh::Ev::VSet { .. } => "VSet", vh::Ev::VPut { .. } => "VPut", vh::Ev::VCommit { .. } => "VCommit",
        vh::Ev::VReorg { .. } => "VReorg", vh::Ev::VClear { .. } => "VClear", vh::Ev::BSet { .. } => "BSet",
        vh::Ev::BPut { .. } => "BPut", vh::Ev::BFlush { .. } => "BFlush", vh::Ev::BCommit { .. } => "BCommit",
        vh::Ev::BReorg { .. } => "BReorg", vh::Ev::BClear { .. } => "BClear", vh::Ev::CPut { .. } => "CPut",
        vh::Ev::CFlush { .. } => "CFlush", vh::Ev::Lock { .. } => "Lock", vh::Ev::Note(_) => "Note",
    }
}

// ---------------------------------------------------------------------------------------------
// Handler-execution witness: the RPC handlers are `#[instrument(level = "error")]`; a span is
// created exactly when a handler body starts. The subscriber below records the span names.

static SPANS: Mutex<Vec<String>> = Mutex::new(Vec::new());

struct SpanRecorder;
impl tracing::Subscriber for SpanRecorder {
    fn enabled(&self, md: &tracing::Metadata<'_>) -> bool {
        md.is_span() && md.target().starts_with("brc20_prog")
    }
    fn new_span(&self, attrs: &tracing::span::Attributes<'_>) -> tracing::span::Id {
        SPANS.lock().unwrap_or_else(|e| e.into_inner()).push(attrs.metadata().name().to_string());
        tracing::span::Id::from_u64(1)
    }
    fn record(&self, _: &tracing::span::Id, _: &tracing::span::Record<'_>) {}
    fn record_follows_from(&self, _: &tracing::span::Id, _: &tracing::span::Id) {}
    fn event(&self, _: &tracing::Event<'_>) {}
    fn enter(&self, _: &tracing::span::Id) {}
    fn exit(&self, _: &tracing::span::Id) {}
}

pub fn install_span_recorder() {
    let _ = tracing::subscriber::set_global_default(SpanRecorder);
}
pub fn drain_spans() -> Vec<String> { std::mem::take(&mut *SPANS.lock().unwrap_or_else(|e| e.into_inner())) }
/// `brc20_finalise_block` and `brc20_finaliseBlock` normalise to the same key.
pub fn norm_name(s: &str) -> String { s.chars().filter(|c| *c != '_').flat_map(|c| c.to_lowercase()).collect() }

// ---------------------------------------------------------------------------------------------
// Raw HTTP/1.1 client.

pub struct Http { addr: String, stream: Option<TcpStream> }

#[derive(Debug, Clone)]
pub struct HttpResp { pub status: u16, pub body: Vec<u8> }

impl Http {
    pub fn new(addr: &str) -> Self { Http { addr: addr.to_string(), stream: None } }

    /// POST `body` with the extra raw header lines (`name: value` bytes, no CRLF); keep-alive.
    pub async fn post(&mut self, extra_headers: &[Vec<u8>], body: &[u8]) -> std::io::Result<HttpResp> {
        for attempt in 0..2 {
            if self.stream.is_none() {
                let s = TcpStream::connect(&self.addr).await?;
                s.set_nodelay(true)?;
                self.stream = Some(s);
            }
            match self.post_once(extra_headers, body).await {
                Ok(r) => return Ok(r),
                Err(e) => { self.stream = None; if attempt == 1 { return Err(e); } }
            }
        }
        unreachable!()
    }

    async fn post_once(&mut self, extra_headers: &[Vec<u8>], body: &[u8]) -> std::io::Result<HttpResp> {
        let s = self.stream.as_mut().unwrap();
        let mut req: Vec<u8> = Vec::new();
        req.extend_from_slice(b"POST / HTTP/1.1\r\nHost: localhost\r\nContent-Type: application/json\r\n");
        for h in extra_headers { req.extend_from_slice(h); req.extend_from_slice(b"\r\n"); }
        req.extend_from_slice(format!("Content-Length: {}\r\n\r\n", body.len()).as_bytes());
        req.extend_from_slice(body);
        s.write_all(&req).await?;
        let mut buf: Vec<u8> = Vec::new();
        let mut tmp = [0u8; 16384];
        let head_end = loop {
            if let Some(p) = find(&buf, b"\r\n\r\n") { break p; }
            let n = s.read(&mut tmp).await?;
            if n == 0 { return Err(std::io::Error::new(std::io::ErrorKind::UnexpectedEof, "eof in head")); }
            buf.extend_from_slice(&tmp[..n]);
        };
        let head = String::from_utf8_lossy(&buf[..head_end]).to_string();
        let status: u16 = head.split_whitespace().nth(1).and_then(|x| x.parse().ok()).unwrap_or(0);
        let mut clen: Option<usize> = None;
        let mut close = false;
        for l in head.lines().skip(1) {
            let ll = l.to_ascii_lowercase();
            if let Some(v) = ll.strip_prefix("content-length:") { clen = v.trim().parse().ok(); }
            if ll.starts_with("connection:") && ll.contains("close") { close = true; }
        }
        let mut body_bytes = buf[head_end + 4..].to_vec();
        match clen {
            Some(n) => {
                while body_bytes.len() < n {
                    let k = s.read(&mut tmp).await?;
                    if k == 0 { break; }
                    body_bytes.extend_from_slice(&tmp[..k]);
                }
                body_bytes.truncate(n);
            }
            None => {
                // no length: read to end of stream
                loop { let k = s.read(&mut tmp).await?; if k == 0 { break; } body_bytes.extend_from_slice(&tmp[..k]); }
                close = true;
            }
        }
        if close { self.stream = None; }
        Ok(HttpResp { status, body: body_bytes })
    }
}

fn find(h: &[u8], n: &[u8]) -> Option<usize> { h.windows(n.len()).position(|w| w == n) }

pub fn basic(user: &str, password: &str) -> String {
    use base64::Engine;
    format!("Basic {}", base64::prelude::BASE64_STANDARD.encode(format!("{}:{}", user, password)))
}

pub fn auth_line(value: &[u8]) -> Vec<u8> {
    let mut v = b"Authorization: ".to_vec();
    v.extend_from_slice(value);
    v
}

/// Coq string literal (printable ASCII only; `"` doubled).
pub fn coq_str(s: &str) -> String {
    assert!(s.bytes().all(|b| (32..127).contains(&b)), "non printable in Coq string: {:?}", s);
    format!("\"{}\"%string", s.replace('"', "\"\""))
}
