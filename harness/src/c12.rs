//! C12 correspondence run: the real HTTP server (public `brc20_prog::start`) on a loopback
//! port, once with authentication enabled and once disabled; raw HTTP/1.1 requests for every
//! registered method x {call, notification, batch element at each position among permitted
//! calls, as call and as notification} x {no header, wrong user, wrong password, malformed,
//! correct}, plus header / request corner cases.  Per request: response objects (id, class),
//! store mutation events + state digest across the request, handler spans created.
//! Output: Coq case files for Model/Tie12.v and c12_meta.json.
use std::collections::BTreeMap;
use std::path::Path;

use brc20_prog::verif_hooks as vh;
use serde_json::{json, Value};

use crate::coqfmt as cf;
use crate::methods;
use crate::rpcx::{self, Class, Ctx, Http};

const USER: &str = "indexer";
const PASSWORD: &str = "s3cret";

#[derive(Clone, Debug)]
enum Ent { Call(u64, String, Value), Notif(String, Value), Bad(Option<u64>, Value) }

#[derive(Clone, Debug)]
enum Req { Call(u64, String, Value), Notif(String, Value), Batch(Vec<Ent>), RawCall(u64, String, String) }

impl Req {
    fn body(&self) -> String {
        match self {
            Req::Call(id, m, p) => rpcx::request_json(Some(*id), m, p).to_string(),
            Req::Notif(m, p) => rpcx::request_json(None, m, p).to_string(),
            Req::Batch(es) => Value::Array(es.iter().map(|e| match e {
                Ent::Call(id, m, p) => rpcx::request_json(Some(*id), m, p),
                Ent::Notif(m, p) => rpcx::request_json(None, m, p),
                Ent::Bad(_, v) => v.clone(),
            }).collect()).to_string(),
            // hand-written body whose method string uses JSON escapes; the model sees the unescaped name
            Req::RawCall(_, _, raw) => raw.clone(),
        }
    }
    fn coq(&self) -> String {
        let ent = |e: &Ent| match e {
            Ent::Call(id, m, _) => format!("ECall {} {}", id, rpcx::coq_str(m)),
            Ent::Notif(m, _) => format!("ENotif {}", rpcx::coq_str(m)),
            Ent::Bad(id, _) => format!("EBad {}", cf::opt(id, |i| cf::n(*i))),
        };
        match self {
            Req::Call(id, m, _) | Req::RawCall(id, m, _) => format!("(Call {} {})", id, rpcx::coq_str(m)),
            Req::Notif(m, _) => format!("(Notif {})", rpcx::coq_str(m)),
            Req::Batch(es) => format!("(Batch {})", cf::list(es, ent)),
        }
    }
    /// (method, is_call, id) of every well-formed entry
    fn entries(&self) -> Vec<(String, bool, Option<u64>)> {
        match self {
            Req::Call(id, m, _) | Req::RawCall(id, m, _) => vec![(m.clone(), true, Some(*id))],
            Req::Notif(m, _) => vec![(m.clone(), false, None)],
            Req::Batch(es) => es.iter().filter_map(|e| match e {
                Ent::Call(id, m, _) => Some((m.clone(), true, Some(*id))),
                Ent::Notif(m, _) => Some((m.clone(), false, None)),
                Ent::Bad(..) => None,
            }).collect(),
        }
    }
}

/// One Authorization variant: the raw header lines sent, and the value the server's
/// `headers().get("Authorization")` sees (first header, optional whitespace trimmed).
#[derive(Clone, Debug)]
struct Hdr { name: &'static str, lines: Vec<Vec<u8>>, seen: Option<Vec<u8>> }

fn hdr(name: &'static str, value: Option<&[u8]>) -> Hdr {
    match value {
        None => Hdr { name, lines: vec![], seen: None },
        Some(v) => Hdr { name, lines: vec![rpcx::auth_line(v)], seen: Some(trim_ows(v)) },
    }
}
fn trim_ows(v: &[u8]) -> Vec<u8> {
    let is = |b: &u8| *b == b' ' || *b == b'\t';
    let s = v.iter().position(|b| !is(b)).unwrap_or(v.len());
    let e = v.iter().rposition(|b| !is(b)).map(|p| p + 1).unwrap_or(s);
    v[s..e].to_vec()
}

fn main_headers() -> Vec<Hdr> {
    let ok = rpcx::basic(USER, PASSWORD);
    vec![
        hdr("none", None),
        hdr("wrong_user", Some(rpcx::basic("mallory", PASSWORD).as_bytes())),
        hdr("wrong_password", Some(rpcx::basic(USER, "wrong").as_bytes())),
        hdr("malformed", Some(b"Basic %%%not-base64%%%")),
        hdr("correct", Some(ok.as_bytes())),
    ]
}

fn corner_headers() -> Vec<Hdr> {
    let ok = rpcx::basic(USER, PASSWORD);
    let b64 = ok.trim_start_matches("Basic ").to_string();
    let mut v = vec![
        hdr("lowercase_scheme", Some(format!("basic {}", b64).as_bytes())),
        hdr("uppercase_scheme", Some(format!("BASIC {}", b64).as_bytes())),
        hdr("double_space", Some(format!("Basic  {}", b64).as_bytes())),
        hdr("tab_separator", Some(format!("Basic\t{}", b64).as_bytes())),
        hdr("trailing_garbage", Some(format!("Basic {} x", b64).as_bytes())),
        hdr("no_padding", Some(format!("Basic {}", b64.trim_end_matches('=')).as_bytes())),
        hdr("outer_whitespace", Some(format!("  Basic {}  ", b64).as_bytes())),
        hdr("non_utf8", Some(b"Basic \xff\xfe\xfd")),
        hdr("correct_plus_high_byte", Some([ok.as_bytes(), b"\xff"].concat().as_slice())),
        hdr("empty_value", Some(b"")),
        hdr("bearer", Some(format!("Bearer {}", b64).as_bytes())),
        hdr("scheme_only", Some(b"Basic")),
        hdr("extra_colon_field", Some(rpcx::basic(USER, &format!("{}:x", PASSWORD)).as_bytes())),
        hdr("empty_credentials", Some(rpcx::basic("", "").as_bytes())),
    ];
    // two Authorization headers: the server looks at the first one only
    v.push(Hdr { name: "dup_wrong_then_correct", lines: vec![rpcx::auth_line(b"Basic AAAA"), rpcx::auth_line(ok.as_bytes())], seen: Some(b"Basic AAAA".to_vec()) });
    v.push(Hdr { name: "dup_correct_then_wrong", lines: vec![rpcx::auth_line(ok.as_bytes()), rpcx::auth_line(b"Basic AAAA")], seen: Some(ok.as_bytes().to_vec()) });
    // the credentials in a different header
    v.push(Hdr { name: "proxy_authorization_only", lines: vec![[b"Proxy-Authorization: ".as_slice(), ok.as_bytes()].concat()], seen: None });
    // lower-case header name (HTTP header names are case-insensitive)
    v.push(Hdr { name: "lowercase_header_name", lines: vec![[b"authorization: ".as_slice(), ok.as_bytes()].concat()], seen: Some(ok.as_bytes().to_vec()) });
    v
}

#[derive(Clone, Debug)]
struct Obs { status: u16, body: Vec<u8>, parsed: ObsBody, changed: bool, events: BTreeMap<&'static str, usize>, digest_changed: bool, spans: Vec<String> }

#[derive(Clone, Debug, PartialEq)]
enum ObsBody { None, Single(Option<i64>, Class), Many(Vec<(Option<i64>, Class)>), Unparsed }

fn parse_body(b: &[u8]) -> ObsBody {
    if b.iter().all(|c| c.is_ascii_whitespace()) { return ObsBody::None; }
    let Ok(v) = serde_json::from_slice::<Value>(b) else { return ObsBody::Unparsed };
    match &v {
        // jsonrpsee acknowledges a notification over HTTP with the JSON text `null`: not a response object
        Value::Null => ObsBody::None,
        Value::Array(a) => {
            let mut out = Vec::new();
            for x in a { match rpcx::classify(x) { Some(c) => out.push(c), None => return ObsBody::Unparsed } }
            ObsBody::Many(out)
        }
        _ => match rpcx::classify(&v) { Some((id, c)) => ObsBody::Single(id, c), None => ObsBody::Unparsed },
    }
}

fn coq_class(c: Class) -> &'static str { match c { Class::Result => "OResult", Class::E401 => "O401", Class::EOther(_) => "OErrOther" } }
fn coq_oid(id: &Option<i64>) -> String { match id { Some(i) if *i >= 0 => format!("(Some {})", i), _ => "None".into() } }
fn coq_body(b: &ObsBody) -> String {
    match b {
        ObsBody::None => "ONone".into(),
        ObsBody::Single(id, c) => format!("(OSingle {} {})", coq_oid(id), coq_class(*c)),
        ObsBody::Many(v) => format!("(OMany {})", cf::list(v, |(id, c)| format!("({}, {})", coq_oid(id), coq_class(*c)))),
        // an unparsable body can match no prediction: a single 401 with an impossible shape
        ObsBody::Unparsed => "(OMany [(None, O401); (None, OResult)])".into(),
    }
}

struct Server {
    enabled: bool,
    http: Http,
    ok_lines: Vec<Vec<u8>>,
    ctx: Ctx,
    base_height: u64,
    dirty: bool,
}

struct Acc {
    terms: Vec<String>,
    jsonl: Vec<String>,
    failures: Vec<Value>,
    samples: Vec<Value>,
    by_class: BTreeMap<String, u64>,
    by_header: BTreeMap<String, u64>,
    by_shape: BTreeMap<String, u64>,
    auth_result: BTreeMap<String, bool>,
    unauth_401: BTreeMap<String, u64>,
    handler_runs: u64,
    state_changes: u64,
    next_id: u64,
    ws: Vec<Value>,
    distinct: std::collections::BTreeSet<String>,
}

impl Server {
    async fn authed_call(&mut self, m: &str, p: &Value) -> Result<Value, Box<dyn std::error::Error>> {
        let body = rpcx::request_json(Some(1), m, p).to_string();
        let r = self.http.post(&self.ok_lines.clone(), body.as_bytes()).await?;
        Ok(serde_json::from_slice(&r.body).unwrap_or(Value::Null))
    }

    /// state digest through public read methods, one batch, no credentials
    async fn digest(&mut self) -> Result<(String, u64), Box<dyn std::error::Error>> {
        let reqs = rpcx::digest_requests(&self.ctx);
        let body = Value::Array(reqs.iter().enumerate().map(|(i, (m, p))| rpcx::request_json(Some(100 + i as u64), m, p)).collect()).to_string();
        let r = self.http.post(&[], body.as_bytes()).await?;
        let v: Value = serde_json::from_slice(&r.body).unwrap_or(Value::Null);
        let height = v.get(0).and_then(|x| x.get("result")).and_then(|x| x.as_str())
            .and_then(|s| u64::from_str_radix(s.trim_start_matches("0x"), 16).ok()).unwrap_or(0);
        Ok((sha256::digest(methods::canon(&v).to_string()), height))
    }

    async fn reset(&mut self) -> Result<(), Box<dyn std::error::Error>> {
        if self.dirty {
            self.authed_call("brc20_clearCaches", &json!([])).await?;
            self.dirty = false;
        }
        Ok(())
    }

    async fn observe(&mut self, h: &Hdr, req: &Req) -> Result<Obs, Box<dyn std::error::Error>> {
        let (before, _) = self.digest().await?;
        rpcx::drain_spans();
        vh::drain();
        vh::set_recording(true);
        let r = self.http.post(&h.lines, req.body().as_bytes()).await?;
        vh::set_recording(false);
        let evs = vh::drain();
        let spans = rpcx::drain_spans();
        let (after, _) = self.digest().await?;
        rpcx::drain_spans();
        let mut events: BTreeMap<&'static str, usize> = BTreeMap::new();
        for ev in evs.iter().filter(|e| rpcx::is_mutation(e)) { *events.entry(rpcx::ev_kind(ev)).or_insert(0) += 1; }
        let changed = !events.is_empty() || before != after;
        if changed { self.dirty = true; }
        Ok(Obs { status: r.status, parsed: parse_body(&r.body), body: r.body, changed, events, digest_changed: before != after, spans })
    }
}

fn params_for(m: &str, ctx: &Ctx) -> Value { rpcx::recipe(m, ctx).unwrap_or(json!([])) }

fn shapes(m: &str, p: &Value) -> Vec<(String, Req)> {
    let p1 = || Ent::Call(11, "eth_blockNumber".into(), json!([]));
    let p2 = || Ent::Call(13, "eth_chainId".into(), json!([]));
    let mc = || Ent::Call(12, m.to_string(), p.clone());
    let mn = || Ent::Notif(m.to_string(), p.clone());
    vec![
        ("call".into(), Req::Call(7, m.to_string(), p.clone())),
        ("notification".into(), Req::Notif(m.to_string(), p.clone())),
        ("batch_call_pos0".into(), Req::Batch(vec![mc(), p1(), p2()])),
        ("batch_call_pos1".into(), Req::Batch(vec![p1(), mc(), p2()])),
        ("batch_call_pos2".into(), Req::Batch(vec![p1(), p2(), mc()])),
        ("batch_notif_pos0".into(), Req::Batch(vec![mn(), p1(), p2()])),
        ("batch_notif_pos1".into(), Req::Batch(vec![p1(), mn(), p2()])),
        ("batch_notif_pos2".into(), Req::Batch(vec![p1(), p2(), mn()])),
    ]
}

/// The harness's own reference (independent of the Coq model): what the property demands of
/// this observation.  Returns the failures.
fn reference_check(enabled: bool, h: &Hdr, req: &Req, o: &Obs, acc: &mut Acc) -> Vec<String> {
    let expected = rpcx::basic(USER, PASSWORD);
    let authorised = !enabled || h.seen.as_deref() == Some(expected.as_bytes());
    let protected = |m: &str| vh::INDEXER_METHODS.iter().any(|x| x == m);
    let mut f = Vec::new();
    let answers: Vec<(Option<i64>, Class)> = match &o.parsed { ObsBody::None => vec![], ObsBody::Single(i, c) => vec![(*i, *c)], ObsBody::Many(v) => v.clone(), ObsBody::Unparsed => { f.push("unparsable response body".to_string()); vec![] } };
    let answer_of = |id: u64| answers.iter().find(|(i, _)| *i == Some(id as i64)).map(|(_, c)| *c);
    let prot_spans: Vec<&String> = o.spans.iter().filter(|s| vh::INDEXER_METHODS.iter().any(|m| rpcx::norm_name(m) == **s)).collect();
    if !authorised {
        if o.changed { f.push(format!("unauthenticated request changed state (events {:?}, digest changed {})", o.events, o.digest_changed)); }
        if !prot_spans.is_empty() { f.push(format!("unauthenticated request executed an indexer-only handler: {:?}", prot_spans)); }
    }
    for (m, is_call, id) in req.entries() {
        if !is_call { continue; }
        let a = answer_of(id.unwrap());
        if protected(&m) && !authorised {
            match a {
                Some(Class::E401) => { *acc.unauth_401.entry(m.clone()).or_insert(0) += 1; }
                other => f.push(format!("unauthenticated call of protected method {} was answered {:?} instead of 401 Unauthorized", m, other)),
            }
        } else {
            match a {
                Some(Class::E401) => f.push(format!("{} call of {} was answered 401", if authorised { "authenticated" } else { "unauthenticated public" }, m)),
                None => f.push(format!("call of {} (id {:?}) got no answer", m, id)),
                Some(Class::Result) => { if authorised { acc.auth_result.insert(m.clone(), true); } }
                Some(Class::EOther(code)) => {
                    // valid parameters: a public read must keep working without credentials
                    if !protected(&m) { f.push(format!("public method {} answered error {} ({})", m, code, if authorised { "authenticated" } else { "unauthenticated" })); }
                }
            }
        }
    }
    f
}

async fn one_case(s: &mut Server, acc: &mut Acc, h: &Hdr, shape: &str, req: &Req, check_reference: bool) -> Result<(), Box<dyn std::error::Error>> {
    s.reset().await?;
    let o = s.observe(h, req).await?;
    let id = acc.next_id;
    acc.next_id += 1;
    let term = format!(
        "{{| oc_id := {}; oc_enabled := {}; oc_expected := {}; oc_header := {}; oc_req := {}; oc_status := {}; oc_body := {}; oc_changed := {}; oc_spans := {} |}}",
        id, cf::boolean(s.enabled), rpcx::coq_str(&rpcx::basic(USER, PASSWORD)), cf::opt(&h.seen, |b| cf::bytes(b)), req.coq(), o.status,
        coq_body(&o.parsed), cf::boolean(o.changed), cf::list(&o.spans, |x| rpcx::coq_str(x))
    );
    acc.terms.push(term);
    let cj = json!({"id": id, "auth_enabled": s.enabled, "header": h.name, "header_lines": h.lines.iter().map(|l| String::from_utf8_lossy(l).to_string()).collect::<Vec<_>>(),
        "shape": shape, "request_body": req.body(), "http_status": o.status, "response_body": String::from_utf8_lossy(&o.body[..o.body.len().min(600)]).to_string(),
        "store_events": o.events, "digest_changed": o.digest_changed, "handler_spans": o.spans});
    acc.jsonl.push(cj.to_string());
    if acc.samples.len() < 6 && (id % 701 == 3 || acc.samples.is_empty()) { acc.samples.push(cj.clone()); }
    let cls = match &o.parsed { ObsBody::None => "no_body".to_string(), ObsBody::Single(_, c) => format!("single_{}", coq_class(*c)), ObsBody::Many(v) => format!("batch_{}", v.iter().map(|(_, c)| match c { Class::Result => 'R', Class::E401 => 'U', Class::EOther(_) => 'E' }).collect::<String>()), ObsBody::Unparsed => "unparsed".into() };
    *acc.by_class.entry(cls).or_insert(0) += 1;
    *acc.by_header.entry(format!("{}/{}", if s.enabled { "auth_on" } else { "auth_off" }, h.name)).or_insert(0) += 1;
    *acc.by_shape.entry(shape.to_string()).or_insert(0) += 1;
    acc.handler_runs += o.spans.len() as u64;
    if o.changed { acc.state_changes += 1; }
    acc.distinct.insert(format!("{}|{}|{:?}", s.enabled, req.body(), h.lines));
    if check_reference {
        for what in reference_check(s.enabled, h, req, &o, acc) {
            acc.failures.push(json!({"what": what, "case": cj}));
        }
    }
    Ok(())
}

async fn run_server(enabled: bool, names: &[String], acc: &mut Acc, thorough: bool, rng: &mut crate::rng::Rng) -> Result<(), Box<dyn std::error::Error>> {
    let dir = tempfile::TempDir::new()?;
    let addr = format!("127.0.0.1:{}", rpcx::free_port());
    let cfg = rpcx::config(dir.path().to_str().unwrap(), &addr, if enabled { Some((Some(USER), Some(PASSWORD))) } else { None }, "regtest", true);
    let handle = brc20_prog::start(cfg).await.map_err(|e| format!("start(): {}", e))?;
    let mut s = Server {
        enabled, http: Http::new(&addr),
        ok_lines: if enabled { vec![rpcx::auth_line(rpcx::basic(USER, PASSWORD).as_bytes())] } else { vec![] },
        ctx: Ctx { chain_id: rpcx::chain_id_for("regtest"), signer: format!("{:#x}", rpcx::signed_tx(1, 0, None, vec![]).1), ..Default::default() },
        base_height: 0, dirty: false,
    };
    let headers = main_headers();

    // phase A: brc20_initialise where it acts -- on the uninitialised database; unauthorised
    // variants first (when authentication is enabled), the authorised ones last
    let p = params_for("brc20_initialise", &s.ctx);
    let mut order: Vec<&Hdr> = headers.iter().filter(|h| h.name != "correct").collect();
    order.push(headers.iter().find(|h| h.name == "correct").unwrap());
    for h in order {
        for (shape, req) in shapes("brc20_initialise", &p) {
            s.dirty = false; // no reset in this phase: clearing would undo the genesis an authorised call created
            one_case(&mut s, acc, h, &format!("uninitialised/{}", shape), &req, true).await?;
        }
    }
    let (_, h0) = s.digest().await?;
    let genesis = s.authed_call("eth_getBlockByNumber", &json!(["0", false])).await?;
    if genesis.get("result").map(|r| r.is_null()).unwrap_or(true) {
        acc.failures.push(json!({"what": "authenticated brc20_initialise did not create the genesis block", "case": {"auth_enabled": enabled, "height": h0}}));
    } else {
        acc.auth_result.insert("brc20_initialise".into(), true);
    }

    // standard state, through authorised requests
    for (m, p, must) in rpcx::standard_state_steps() {
        let v = s.authed_call(m, &p).await?;
        if must && v.get("result").is_none() { return Err(format!("standard state over HTTP: {} answered {}", m, v).into()); }
    }
    let rec = s.authed_call("brc20_getTxReceiptByInscriptionId", &json!(["verif_deploy_i0"])).await?;
    let rec = rec.get("result").cloned().unwrap_or(Value::Null);
    s.ctx.contract = rec.get("contractAddress").and_then(|x| x.as_str()).ok_or("no contractAddress")?.to_string();
    s.ctx.tx_hash = rec.get("transactionHash").and_then(|x| x.as_str()).ok_or("no transactionHash")?.to_string();
    s.ctx.block1_hash = rec.get("blockHash").and_then(|x| x.as_str()).ok_or("no blockHash")?.to_string();
    s.ctx.contract_insc = "verif_deploy_i0".into();
    let (_, h) = s.digest().await?;
    s.base_height = h;
    s.ctx.height = h;

    // phase B: every registered method x shape x header
    for m in names {
        for h in &headers {
            for (shape, _) in shapes(m, &json!([])) {
                s.reset().await?;
                if m == "brc20_reorg" {
                    // a reorg that acts needs a block above the target: keep height = base + 1
                    let (_, cur) = s.digest().await?;
                    if cur <= s.base_height {
                        s.authed_call("brc20_mine", &json!([1, rpcx::TS])).await?;
                        s.authed_call("brc20_commitToDatabase", &json!([])).await?;
                    }
                    let (_, cur) = s.digest().await?;
                    s.ctx.height = cur;
                }
                let p = params_for(m, &s.ctx);
                let req = shapes(m, &p).into_iter().find(|(n, _)| *n == shape).unwrap().1;
                one_case(&mut s, acc, h, &shape, &req, true).await?;
            }
        }
    }

    // phase C: header corner cases on one protected and one public method (model comparison;
    // the reference check treats "authorised" as byte equality with the expected value)
    let mut corner = corner_headers();
    if thorough { corner.extend(main_headers()); }
    for h in &corner {
        for m in ["brc20_mine", "eth_blockNumber", "debug_getBlockTraceHash"] {
            let p = params_for(m, &s.ctx);
            for (shape, req) in shapes(m, &p).into_iter().take(if thorough { 8 } else { 3 }) {
                one_case(&mut s, acc, h, &format!("corner/{}", shape), &req, true).await?;
            }
        }
    }

    // phase D: request corner cases, without credentials and with the correct ones
    let mine_p = params_for("brc20_mine", &s.ctx);
    let specials: Vec<(&str, Req)> = vec![
        // the method name written with JSON escapes: brc20_mine
        ("escaped_method_name", Req::RawCall(7, "brc20_mine".into(), format!("{{\"jsonrpc\":\"2.0\",\"id\":7,\"method\":\"brc20_min\\u0065\",\"params\":{}}}", mine_p))),
        ("unknown_method", Req::Call(7, "brc20_doesNotExist".into(), json!([]))),
        ("protected_name_other_case", Req::Call(7, "BRC20_MINE".into(), mine_p.clone())),
        ("protected_name_trailing_space", Req::Call(7, "brc20_mine ".into(), mine_p.clone())),
        ("empty_batch", Req::Batch(vec![])),
        ("batch_only_protected_notifications", Req::Batch(vec![Ent::Notif("brc20_mine".into(), mine_p.clone()), Ent::Notif("brc20_clearCaches".into(), json!([]))])),
        ("batch_only_public_notifications", Req::Batch(vec![Ent::Notif("eth_blockNumber".into(), json!([]))])),
        ("batch_id0_collision", Req::Batch(vec![Ent::Call(0, "eth_blockNumber".into(), json!([])), Ent::Notif("brc20_mine".into(), mine_p.clone())])),
        ("batch_invalid_entries", Req::Batch(vec![Ent::Bad(Some(5), json!({"id": 5, "foo": "bar"})), Ent::Call(6, "brc20_mine".into(), mine_p.clone()), Ent::Bad(None, json!(42))])),
        ("batch_all_protected", Req::Batch(vec![Ent::Call(1, "brc20_mine".into(), mine_p.clone()), Ent::Call(2, "brc20_commitToDatabase".into(), json!([])), Ent::Call(3, "brc20_clearCaches".into(), json!([]))])),
        ("batch_same_method_twice", Req::Batch(vec![Ent::Call(1, "brc20_mine".into(), mine_p.clone()), Ent::Call(2, "brc20_mine".into(), mine_p.clone())])),
    ];
    for h in headers.iter().filter(|h| h.name == "none" || h.name == "correct" || h.name == "wrong_password") {
        for (name, req) in &specials {
            // the reference check's "public methods answer a result" does not apply to unknown names
            let refcheck = !matches!(*name, "unknown_method" | "protected_name_other_case" | "protected_name_trailing_space" | "batch_invalid_entries" | "empty_batch");
            one_case(&mut s, acc, h, &format!("special/{}", name), req, refcheck).await?;
        }
    }

    // phase F: random batches (length 1..8; calls, notifications, invalid entries; protected and
    // public methods mixed; any header of the main set), from the seeded generator
    {
        let heavy = ["eth_call", "eth_callMany", "eth_estimateGas", "eth_estimateGasMany", "brc20_balance"];
        let safe_protected = ["brc20_mine", "brc20_commitToDatabase", "brc20_clearCaches", "brc20_finaliseBlock", "debug_getBlockTraceHash", "debug_getBlockTraceString"];
        let tx_protected = ["brc20_deploy", "brc20_call", "brc20_deposit", "brc20_withdraw", "brc20_transact"];
        let public: Vec<&String> = names.iter().filter(|m| !vh::INDEXER_METHODS.contains(*m)).collect();
        let light_public: Vec<&String> = public.iter().copied().filter(|m| !heavy.contains(&m.as_str())).collect();
        let n = if thorough { 1500 } else { 150 };
        for _ in 0..n {
            // batches that may open a block use only reads that do not wait for the block to close
            let with_tx = rng.chance(1, 3);
            let len = rng.range(1, 8) as usize;
            let mut es = Vec::new();
            let mut tx_idx = 0u64;
            for i in 0..len {
                let m: String = if rng.chance(2, 5) {
                    if with_tx && rng.chance(1, 2) { rng.pick(&tx_protected).to_string() } else { rng.pick(&safe_protected).to_string() }
                } else if with_tx { (*rng.pick(&light_public)).clone() } else { (*rng.pick(&public)).clone() };
                let mut p = params_for(&m, &s.ctx);
                if tx_protected.contains(&m.as_str()) {
                    // keep tx_idx consecutive so that an authorised batch really executes them
                    let pos = match m.as_str() { "brc20_deploy" => 5, "brc20_call" => 7, "brc20_transact" => 4, _ => 5 };
                    if let Some(a) = p.as_array_mut() { a[pos] = json!(tx_idx); }
                    tx_idx += 1;
                }
                es.push(match rng.below(10) {
                    0..=5 => Ent::Call(i as u64 + 1, m, p),
                    6..=8 => Ent::Notif(m, p),
                    _ => Ent::Bad(Some(i as u64 + 1), json!({"id": i as u64 + 1, "nonsense": true})),
                });
            }
            let h = rng.pick(&headers).clone();
            // the reference check's "public reads answer a result" is kept; protected entries may
            // answer their own errors when authorised
            one_case(&mut s, acc, &h, "random_batch", &Req::Batch(es), true).await?;
        }
    }

    // phase G: the public reads that WAIT for a block under construction to close (they give up after five
    // seconds), sent without credentials while the indexer has a block open: the open block is state too,
    // the indexer's next brc20_finaliseBlock must find its transaction still there
    {
        s.reset().await?;
        let mut dp = params_for("brc20_deposit", &s.ctx);
        if let Some(a) = dp.as_array_mut() { a[5] = json!(0); a[6] = json!("verif_open_block_i0"); }
        let opened = s.authed_call("brc20_deposit", &dp).await?;
        if opened.get("result").is_some() {
            s.dirty = true;
            let heavy = ["eth_call", "eth_estimateGas", "brc20_balance", "eth_callMany", "eth_estimateGasMany"];
            let t0 = std::time::Instant::now();
            let mut futs = Vec::new();
            for (i, m) in heavy.iter().enumerate() {
                let body = rpcx::request_json(Some(900 + i as u64), m, &params_for(m, &s.ctx)).to_string();
                let a = addr.clone();
                futs.push(tokio::spawn(async move { let mut h = Http::new(&a); h.post(&[], body.as_bytes()).await.map(|r| r.status).unwrap_or(0) }));
            }
            let mut statuses = Vec::new();
            for f in futs { statuses.push(f.await.unwrap_or(0)); }
            let waited = t0.elapsed().as_millis() as u64;
            let fin = s.authed_call("brc20_finaliseBlock", &json!([rpcx::TS, rpcx::ZERO32, 1])).await?;
            *acc.by_shape.entry("open_block/waiting_reads_without_credentials".into()).or_default() += heavy.len() as u64;
            if fin.get("result").is_none() {
                acc.failures.push(json!({"what": "unauthenticated public read requests, sent while the indexer had a block under construction, changed state: the indexer's brc20_finaliseBlock of that block (one transaction) is now refused",
                    "case": {"auth_enabled": enabled, "requests": heavy, "http_statuses": statuses, "waited_ms": waited, "finalise_answer": fin}}));
            }
            s.authed_call("brc20_clearCaches", &json!([])).await?;
            s.dirty = false;
        } else {
            acc.failures.push(json!({"what": "open-block scenario: the authorised brc20_deposit that should open a block was not accepted", "case": {"auth_enabled": enabled, "answer": opened}}));
        }
    }

    // phase E: the same server also speaks WebSocket; the HTTP layer sees the upgrade request
    s.reset().await?;
    ws_probe(&addr, enabled, &mine_p, acc).await;

    handle.stop()?;
    handle.stopped().await;
    Ok(())
}

/// WebSocket connections: the Authorization header of the upgrade request decides for the whole
/// connection. Harness-side reference check only (no Coq case: a WS message is a `Call`).
async fn ws_probe(addr: &str, enabled: bool, mine_p: &Value, acc: &mut Acc) {
    use jsonrpsee::core::client::ClientT;
    use jsonrpsee::ws_client::{HeaderMap, HeaderValue, WsClientBuilder};
    let variants: Vec<(&str, Option<String>)> = vec![("none", None), ("wrong_password", Some(rpcx::basic(USER, "wrong"))), ("correct", Some(rpcx::basic(USER, PASSWORD)))];
    let params: Vec<Value> = mine_p.as_array().cloned().unwrap_or_default();
    for (name, hv) in variants {
        let mut hm = HeaderMap::new();
        if let Some(v) = &hv { hm.insert("Authorization", HeaderValue::from_str(v).unwrap()); }
        let client = match WsClientBuilder::default().set_headers(hm).build(format!("ws://{}", addr)).await {
            Ok(c) => c,
            Err(e) => { acc.ws.push(json!({"auth_enabled": enabled, "header": name, "connect_error": e.to_string()})); continue; }
        };
        let authorised = !enabled || name == "correct";
        vh::drain();
        vh::set_recording(true);
        let public: Result<String, _> = client.request("eth_blockNumber", Vec::<Value>::new()).await;
        let prot: Result<Value, _> = client.request("brc20_mine", params.clone()).await;
        vh::set_recording(false);
        let muts = vh::drain().iter().filter(|e| rpcx::is_mutation(e)).count();
        let prot_s = match &prot { Ok(_) => "result".to_string(), Err(e) => e.to_string() };
        acc.ws.push(json!({"auth_enabled": enabled, "header": name, "eth_blockNumber": public.as_ref().map(|s| s.clone()).map_err(|e| e.to_string()).unwrap_or_else(|e| e), "brc20_mine": prot_s, "store_mutation_events": muts}));
        if public.is_err() { acc.failures.push(json!({"what": "websocket: public method refused", "case": {"auth_enabled": enabled, "header": name}})); }
        if !authorised && (prot.is_ok() || muts > 0 || !prot_s.contains("Unauthorized")) {
            acc.failures.push(json!({"what": format!("websocket: unauthenticated brc20_mine was not refused with Unauthorized (answer {}, {} mutation events)", prot_s, muts), "case": {"auth_enabled": enabled, "header": name}}));
        }
        if authorised && prot.is_err() { acc.failures.push(json!({"what": format!("websocket: authenticated brc20_mine failed: {}", prot_s), "case": {"auth_enabled": enabled, "header": name}})); }
    }
}

/// validate_config on the whole small configuration space; start() on the authentication part.
async fn config_cases(acc: &mut Acc) -> Result<Vec<String>, Box<dyn std::error::Error>> {
    let mut terms = Vec::new();
    let creds: [Option<&str>; 3] = [None, Some(""), Some("u")];
    let mut id = 0u64;
    for enable in [false, true] { for user in creds { for pw in creds {
        for url_ok in [false, true] { for btc in ["", "http://127.0.0.1:1"] { for net in ["", "regtest"] { for fail_on in [false, true] {
            let dir = tempfile::TempDir::new()?;
            let addr = if url_ok { format!("127.0.0.1:{}", rpcx::free_port()) } else { String::new() };
            let mut cfg = rpcx::config(dir.path().join("db").to_str().unwrap(), &addr, Some((user, pw)), net, false);
            cfg.brc20_prog_rpc_server_enable_auth = enable;
            cfg.bitcoin_rpc_url = btc.to_string();
            cfg.fail_on_bitcoin_rpc_error = fail_on;
            let v_ok = vh::validate_config(&cfg).is_ok();
            // start() only where nothing but the credentials can matter
            let start = if url_ok && !fail_on && net == "regtest" && btc.is_empty() {
                match brc20_prog::start(cfg.clone()).await {
                    Ok(h) => { h.stop()?; h.stopped().await; Some(true) }
                    Err(_) => Some(false),
                }
            } else { None };
            if enable && (user.is_none() || pw.is_none()) && (v_ok || start == Some(true)) {
                acc.failures.push(json!({"what": "authentication enabled without user or password was accepted", "case": {"user": user, "password": pw, "validate_config_ok": v_ok, "start_ok": start}}));
            }
            let s = |x: &str| rpcx::coq_str(x);
            terms.push(format!(
                "{{| cc_id := {}; cc_cfg := {{| cfg_server_url := {}; cfg_enable_auth := {}; cfg_user := {}; cfg_password := {}; cfg_record_traces := false; cfg_bitcoin_url := {}; cfg_network := {}; cfg_fail_on_btc_error := {} |}}; cc_validate_ok := {}; cc_start := {} |}}",
                id, s(&addr), cf::boolean(enable), cf::opt(&user, |u| s(u)), cf::opt(&pw, |u| s(u)), s(btc), s(net), cf::boolean(fail_on), cf::boolean(v_ok), cf::opt(&start, |b| cf::boolean(*b))));
            id += 1;
        }}}}
    }}}
    Ok(terms)
}

pub fn run(out: &Path, seed: u64, thorough: bool) -> Result<(), Box<dyn std::error::Error>> {
    rpcx::install_span_recorder();
    let mut rng = crate::rng::Rng::new(seed);
    let rt = tokio::runtime::Builder::new_multi_thread().worker_threads(4).enable_all().build()?;
    let mut acc = Acc { terms: vec![], jsonl: vec![], failures: vec![], samples: vec![], by_class: BTreeMap::new(), by_header: BTreeMap::new(), by_shape: BTreeMap::new(),
        auth_result: BTreeMap::new(), unauth_401: BTreeMap::new(), handler_runs: 0, state_changes: 0, next_id: 0, ws: vec![], distinct: Default::default() };
    let names: Vec<String> = {
        let e = methods::fresh_uninitialised()?;
        let mut v: Vec<String> = e.methods.method_names().map(|s| s.to_string()).collect();
        v.sort();
        v
    };
    let t0 = std::time::Instant::now();
    rt.block_on(async {
        run_server(true, &names, &mut acc, thorough, &mut rng).await?;
        run_server(false, &names, &mut acc, thorough, &mut rng).await?;
        Ok::<(), Box<dyn std::error::Error>>(())
    })?;
    let cterms = rt.block_on(config_cases(&mut acc))?;
    // with correct credentials every method works
    for m in &names {
        if !acc.auth_result.get(m).copied().unwrap_or(false) {
            acc.failures.push(json!({"what": format!("method {} never answered a result to an authenticated call with valid parameters", m), "case": {"method": m}}));
        }
    }
    // every protected method was refused at least once per unauthenticated shape
    for m in vh::INDEXER_METHODS.iter() {
        if acc.unauth_401.get(m).copied().unwrap_or(0) == 0 {
            acc.failures.push(json!({"what": format!("protected method {} was never seen refused (not registered?)", m), "case": {"method": m}}));
        }
    }
    let imports = "From Brc.Model Require Import Base Config Auth Tie12.\nFrom BrcGen Require Import Consts Methods.";
    let files = cf::write_shards(out, "c12_o", imports, "ocase", "bad_ocases method_table INDEXER_METHODS", &acc.terms, 16)?;
    let mut files = files;
    files.extend(cf::write_shards(out, "c12_c", "From Brc.Model Require Import Base Config Auth Tie12.", "ccase", "bad_ccases", &cterms, 1)?);
    std::fs::write(out.join("c12_cases.jsonl"), acc.jsonl.join("\n") + "\n")?;
    let meta = json!({
        "files": files,
        "evaluations": acc.terms.len() + cterms.len(),
        "config_cases": cterms.len(),
        "distinct_nontrivial": acc.distinct.len(),
        "rule": "exhaustive: every registered method x {call, notification, batch [M,P,P] [P,M,P] [P,P,M] with M a call, same with M a notification} x {no header, wrong user, wrong password, malformed, correct} x {auth enabled, disabled} through the real HTTP server; brc20_initialise additionally on the uninitialised database; header corner cases (scheme case, spacing, non-UTF8, duplicates, other header) and request corner cases (escaped / unknown / case-changed method names, empty batch, notification-only batches, id 0 collision, invalid entries); seeded random batches of length 1..8 mixing calls, notifications, invalid entries, protected and public methods. A case is non-trivial when it is a well-formed HTTP request that reaches the JSON-RPC layer (all are); distinct = distinct (auth mode, body, header lines).",
        "samples": acc.samples,
        "impl_failures": acc.failures,
        "registered_methods": names.len(),
        "response_classes": acc.by_class,
        "by_header": acc.by_header,
        "by_shape": acc.by_shape,
        "handler_spans_observed": acc.handler_runs,
        "requests_that_changed_state": acc.state_changes,
        "methods_with_authenticated_result": acc.auth_result.len(),
        "unauthenticated_401_per_protected_method": acc.unauth_401,
        "websocket_probe": acc.ws,
        "server_seconds": t0.elapsed().as_secs_f64(),
    });
    std::fs::write(out.join("c12_meta.json"), serde_json::to_string_pretty(&meta)?)?;
    Ok(())
}
