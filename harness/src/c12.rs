use std::path::Path;
pub fn run(_out: &Path, _seed: u64, _thorough: bool) -> Result<(), Box<dyn std::error::Error>> { Ok(()) }
