//! The store-trace tie shared by C01, C03, C05 (store part) and C10: histories from the
//! generator are run on the real engine behind the real RPC method table; the hook's store events
//! become the model's trace items, probes of the implementation are taken at every boundary; the
//! Coq side replays the trace on Model/Store.v, compares every probe and evaluates the
//! well-formedness predicate (the hypothesis of the C01/C03 theorems) on the real trace.
//! The implementation-level searches of `simcheck` supply concrete failing inputs.
use std::collections::BTreeMap;
use std::path::Path;

use serde_json::{json, Value};

use crate::coqfmt as cf;
use crate::rng::Rng;
use crate::sim::{gen_history, gen_reads, with_schedule, CommitSchedule, GenParams, Genesis, Op};
use crate::trace::trace_history;

fn params_for(prop: &str, rng: &mut Rng, i: usize) -> GenParams {
    let mut p = GenParams::small();
    p.blocks = 6 + rng.below(9);
    p.max_txs = 4;
    p.genesis = if i % 3 == 0 { Genesis::Mine } else { Genesis::Initialise };
    match prop {
        "c01" => { p.p_reorg = 25; p.p_clear = 4; p.p_reopen = 3; p.p_mine = 25; p.max_mine = 12; p.schedule = *rng.pick(&[CommitSchedule::Never, CommitSchedule::Random, CommitSchedule::EveryK(3)]); }
        "c03" => { p.p_reorg = 5; p.p_clear = 12; p.p_reopen = 10; p.schedule = *rng.pick(&[CommitSchedule::Never, CommitSchedule::Every, CommitSchedule::EveryK(2), CommitSchedule::Random]); }
        _ => { p.p_reorg = 6; p.p_clear = 4; p.p_reopen = 3; p.schedule = CommitSchedule::Random; }
    }
    p
}

/// run the implementation-level search of simcheck for one property in a child process and
/// return its failures as impl_failures entries
fn search(out: &Path, prop: &str, seed: u64, thorough: bool) -> (Vec<Value>, Value) {
    let exe = std::env::current_exe().expect("current exe");
    let dir = out.join("search");
    let _ = std::fs::create_dir_all(&dir);
    let st = std::process::Command::new(exe)
        .args(["simcheck", "--out", dir.to_str().unwrap(), "--seed", &seed.to_string(), "--tier", if thorough { "thorough" } else { "quick" }, "--only", prop])
        .stdout(std::process::Stdio::null()).stderr(std::process::Stdio::null()).status();
    let mut fails = Vec::new();
    let mut dist = json!({});
    if st.is_err() { fails.push(json!({"what": "simcheck search could not be started", "case": {}})); return (fails, dist); }
    if let Ok(txt) = std::fs::read_to_string(dir.join(format!("simcheck_{}.json", prop))) {
        if let Ok(v) = serde_json::from_str::<Value>(&txt) {
            dist = json!({"search_evaluations": v["evaluations"], "search_distribution": v["distribution"]});
            for f in v["failures"].as_array().cloned().unwrap_or_default() {
                fails.push(json!({"what": format!("{} :: {}", f["signature"].as_str().unwrap_or(""), f["what"].as_str().unwrap_or("")),
                                  "case": {"history": f["history"], "first_difference": f["first_difference"], "occurrences": f["occurrences"]}}));
            }
        }
    } else {
        fails.push(json!({"what": "simcheck search produced no result file", "case": {}}));
    }
    (fails, dist)
}

pub fn run(out: &Path, seed: u64, thorough: bool, prop: &str) -> Result<(), Box<dyn std::error::Error>> {
    let mut rng = Rng::new(seed ^ 0x5707E);
    let n = if thorough { 160 } else { 20 };
    let mut terms = Vec::new();
    let mut jsonl = String::new();
    let mut failures: Vec<Value> = Vec::new();
    let mut op_kinds: BTreeMap<String, u64> = BTreeMap::new();
    let mut hist_ops: BTreeMap<String, u64> = BTreeMap::new();
    let (mut n_ops, mut n_probes) = (0u64, 0u64);
    let mut samples = Vec::new();
    for i in 0..n {
        let p = params_for(prop, &mut rng, i);
        let mut h = gen_history(&mut rng, &p);
        h = with_schedule(&h, p.schedule, &mut rng);
        if prop == "c10" {
            // interleave read requests at boundaries (and queries mid-block)
            let mut with_reads: Vec<Op> = Vec::new();
            let mut probe = crate::sim::Run::new();
            for op in &h {
                with_reads.push(op.clone());
                let _ = probe.step(op);
                if matches!(op, Op::Finalise { .. } | Op::Mine { .. } | Op::Initialise { .. }) && probe.tracker.at_boundary() {
                    let k = rng.range(1, 3) as usize;
                    with_reads.extend(gen_reads(&mut rng, &probe.universe, probe.tracker.height(), k));
                }
            }
            h = with_reads;
        }
        if prop == "c03" && i % 2 == 0 {
            // end game (see simcheck::c03_eval): pad above the window, commit exactly now, reorg
            // to the deepest admissible height, add one more block
            let mut dry = crate::sim::Run::new();
            if dry.run(&h) && !dry.tracker.desynced && dry.tracker.at_boundary() {
                if let Some(h0) = dry.tracker.height() {
                    let w = brc20_prog::verif_hooks::MAX_REORG_HISTORY_SIZE;
                    if h0 < w + 1 { h.push(Op::Mine { n: w + 1 - h0, ts: 1_760_000_000 }); }
                    let top = h0.max(w + 1);
                    let deepest = dry.tracker.max_ever.unwrap_or(top).max(top).saturating_sub(w);
                    if deepest < top { h.push(Op::Commit); h.push(Op::Reorg(deepest)); h.push(Op::Mine { n: 1, ts: 1_760_000_100 }); }
                }
            }
        }
        for op in &h { *hist_ops.entry(op.kind().to_string()).or_default() += 1; }
        let (tr, _run, problem) = trace_history(&h, &mut rng);
        if let Some(pb) = problem {
            failures.push(json!({"what": format!("{}: {}", prop, pb), "case": {"history": h}}));
        }
        n_ops += tr.n_ops; n_probes += tr.n_probes;
        for (k, v) in &tr.op_kinds { *op_kinds.entry(k.clone()).or_default() += v; }
        terms.push(tr.case_term(i));
        jsonl.push_str(&json!({"id": i, "history": h, "store_ops": tr.n_ops, "probes": tr.n_probes}).to_string());
        jsonl.push('\n');
        if samples.len() < 1 { samples.push(json!({"history_ops": h.iter().map(|o| o.kind()).collect::<Vec<_>>(), "store_ops": tr.n_ops, "probes": tr.n_probes, "first_items": tr.items.iter().take(12).collect::<Vec<_>>()})); }
    }
    let (search_fails, search_dist) = search(out, prop, seed, thorough);
    failures.extend(search_fails);
    if prop == "c10" { failures.extend(crate::c11::c10_btc_override_scenario()); }
    let imports = "From Brc.Model Require Import Base History Table BlockTable Store Tie01.\nFrom BrcGen Require Import Consts.";
    let files = cf::write_shards(out, &format!("{}_s", prop), imports, "scase", "bad_scases W", &terms, 16)?;
    std::fs::write(out.join(format!("{}_cases.jsonl", prop)), jsonl)?;
    let meta = json!({
        "files": files,
        "evaluations": terms.len() as u64 + search_dist["search_evaluations"].as_u64().unwrap_or(0),
        "distinct_nontrivial": terms.len(),
        "rule": "histories from the structured generator (genesis by initialise or mine, blocks of 0-4 transactions of every kind incl. parked / drained / stale / replacement signed transactions, commit schedules, clear / reopen / reorg at boundaries) run on the real engine behind the real RPC table; every store event becomes a model operation; probes (48 point reads, 5 range scans, 45 block rows, heights, max_block_number) after every boundary op. Coq replays the trace, compares every probe and evaluates wf_run on the real trace (a case id + 500000000 = trace not well-formed). All histories are distinct (different PRNG draws). In addition the implementation-level search `simcheck` (twin runs on the real code, no model) looks for concrete failing inputs.",
        "trace_cases": terms.len(), "store_ops": n_ops, "probes": n_probes,
        "store_op_distribution": op_kinds, "history_op_distribution": hist_ops,
        "search": search_dist,
        "samples": samples,
        "impl_failures": failures,
    });
    std::fs::write(out.join(format!("{}_meta.json", prop)), serde_json::to_string_pretty(&meta)?)?;
    Ok(())
}
