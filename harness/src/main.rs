fn main() {
    println!("W={}", brc20_prog::verif_hooks::MAX_REORG_HISTORY_SIZE);
}
