mod c02;
mod c04;
mod c05;
mod c06;
mod c07;
mod c09;
mod c12;
mod c11;
mod c13;
mod c14;
mod c15;
mod c16;
mod c17;
mod c18;
mod c19;
mod c20;
mod envs;
mod coqfmt;
mod methods;
mod reflect;
mod rng;
mod rpcx;
mod sim;
mod simcheck;
mod storetrace;
mod tableorder;
mod trace;

use std::path::PathBuf;

fn arg(args: &[String], name: &str) -> Option<String> {
    args.iter().position(|a| a == name).and_then(|i| args.get(i + 1).cloned())
}

fn main() {
    let args: Vec<String> = std::env::args().collect();
    let cmd = args.get(1).cloned().unwrap_or_default();
    let out = PathBuf::from(arg(&args, "--out").unwrap_or_else(|| ".".into()));
    let seed: u64 = arg(&args, "--seed").and_then(|s| s.parse().ok()).unwrap_or(1);
    let thorough = arg(&args, "--tier").map(|t| t == "thorough").unwrap_or(false);
    std::fs::create_dir_all(&out).expect("create out dir");
    let r = match cmd.as_str() {
        "reflect" => reflect::run(&out),
        "reflect-tableorder" => reflect::run_tableorder(&out),
        "reflect-locks" => c11::reflect(&out).map_err(|e| e.to_string().into()),
        "c10-btc-probe" => { for f in c11::c10_btc_override_scenario() { println!("{}", f); } Ok(()) }
        "c01" | "c03" | "c10" => storetrace::run(&out, seed, thorough, &cmd),
        "c02" => c02::run(&out, seed, thorough),
        "c02-child" => c02::child(&args),
        "c02-make-golden" => c02::make_golden(&args),
        "c04" => c04::run(&out, seed, thorough),
        "c06" => c06::run(&out, seed, thorough),
        "c05" | "c08" => c05::run(&out, seed, thorough, &cmd),
        "c07" => c07::run(&out, seed, thorough),
        "c07-probe" => c07::probe(),
        "c09" => c09::run(&out, seed, thorough),
        "c09-probe" => c09::probe_main(&args),
        "c09-tie" => c09::tie_main(&args, &out, seed, thorough),
        "c09-stream" => c09::stream_main(&args, &out, seed, thorough),
        "c12" => c12::run(&out, seed, thorough),
        "c11" => c11::run(&out, seed, thorough),
        "c13" => c13::run(&out, seed, thorough),
        "c14" => c14::run(&out, seed, thorough),
        "c14-probe" => c14::probe_main(),
        "c15" => c15::run(&out, seed, thorough),
        "c16" => c16::run(&out, seed, thorough),
        "c17" => c17::run(&out, seed, thorough),
        "c18" => c18::run(&out, seed, thorough),
        "c19" => c19::run(&out, seed, thorough),
        "c20" => c20::run(&out, seed, thorough),
        "envprobe" => c19::probe(&args),
        "simcheck" | "simcheck-worker" | "simprobe" | "simreplay" => simcheck::main(&cmd, &args, &out, seed, thorough),
        _ => { eprintln!("usage: hx <reflect|cNN|simcheck|simprobe|simreplay|envprobe> --out DIR [--seed N] [--tier quick|thorough]"); std::process::exit(2); }
    };
    if let Err(e) = r { eprintln!("hx {}: error: {}", cmd, e); std::process::exit(3); }
}
