mod c13;
mod c15;
mod c16;
mod c17;
mod c19;
mod envs;
mod coqfmt;
mod reflect;
mod rng;
mod sim;
mod simcheck;

use std::path::PathBuf;

fn arg(args: &[String], name: &str) -> Option<String> {
    args.iter().position(|a| a == name).and_then(|i| args.get(i + 1).cloned())
}

fn main() {
    let args: Vec<String> = std::env::args().collect();
    let cmd = args.get(1).cloned().unwrap_or_default();
    let out = PathBuf::from(arg(&args, "--out").unwrap_or_else(|| ".".into()));
    let seed: u64 = arg(&args, "--seed").and_then(|s| s.parse().ok()).unwrap_or(1);
    let thorough = arg(&args, "--tier").map(|t| t == "thorough").unwrap_or(false);
    std::fs::create_dir_all(&out).expect("create out dir");
    let r = match cmd.as_str() {
        "reflect" => reflect::run(&out),
        "c13" => c13::run(&out, seed, thorough),
        "c15" => c15::run(&out, seed, thorough),
        "c16" => c16::run(&out, seed, thorough),
        "c17" => c17::run(&out, seed, thorough),
        "c19" => c19::run(&out, seed, thorough),
        "envprobe" => c19::probe(&args),
        "simcheck" | "simcheck-worker" | "simprobe" | "simreplay" => simcheck::main(&cmd, &args, &out, seed, thorough),
        _ => { eprintln!("usage: hx <reflect|c13|simcheck|simprobe|simreplay|...> --out DIR [--seed N] [--tier quick|thorough]"); std::process::exit(2); }
    };
    if let Err(e) = r { eprintln!("hx {}: error: {}", cmd, e); std::process::exit(3); }
}
