//! C06 tie: the block / receipt bookkeeping of real runs against Model/Chain.v, plus the
//! implementation-level coherence search of simcheck (own merkle / bloom / sums).
use std::collections::{BTreeMap, HashSet};
use std::path::Path;

use serde_json::{json, Value};

use crate::coqfmt as cf;
use crate::rng::Rng;
use crate::sim::{gen_history, GenParams, Genesis, Run};

fn hexn(v: &Value) -> u64 { v.as_str().map(|s| u64::from_str_radix(s.trim_start_matches("0x"), 16).unwrap_or(0)).unwrap_or(0) }
fn hterm(s: &str) -> String { let t = s.trim_start_matches("0x").trim_start_matches('0'); if t.is_empty() { "0".into() } else { format!("0x{}", t) } }

pub fn run(out: &Path, seed: u64, thorough: bool) -> Result<(), Box<dyn std::error::Error>> {
    let mut rng = Rng::new(seed ^ 0xC06);
    let n = if thorough { 120 } else { 16 };
    let mut terms = Vec::new();
    let mut failures: Vec<Value> = Vec::new();
    let mut dist: BTreeMap<String, u64> = BTreeMap::new();
    let mut samples = Vec::new();
    let mut skipped_dup = 0u64;
    let mut chains: Vec<String> = Vec::new();
    for i in 0..n {
        let mut p = GenParams::small();
        p.blocks = 6 + rng.below(8);
        p.max_txs = 6;
        p.genesis = if i % 3 == 0 { Genesis::Mine } else { Genesis::Initialise };
        p.p_reorg = 8; p.p_clear = 3; p.p_reopen = 2; p.p_mine = 10;
        let h = gen_history(&mut rng, &p);
        let mut run = Run::new();
        if !run.run(&h) { failures.push(json!({"what": "c06: a call answered panic / hang", "case": {"history": h}})); continue; }
        if run.tracker.desynced { continue; }
        let Some(height) = run.tracker.height() else { continue };
        // hashes listed at more than one (block, index) position anywhere on the chain: known finding F14
        let mut seen: HashSet<String> = HashSet::new();
        let mut reused: HashSet<String> = HashSet::new();
        let mut blocks: Vec<(u64, Value, Vec<String>)> = Vec::new();
        for b in 0..=height {
            let Ok(blk) = run.inst.rpc("eth_getBlockByNumber", json!([format!("0x{:x}", b), false])) else { continue };
            let hashes: Vec<String> = blk["transactions"].as_array().cloned().unwrap_or_default().iter().filter_map(|x| x.as_str().map(|s| s.to_string())).collect();
            for hsh in &hashes { if !seen.insert(hsh.clone()) { reused.insert(hsh.clone()); } }
            blocks.push((b, blk, hashes));
        }
        let mut chain_terms: Vec<String> = Vec::new();
        let mut chain_ok = reused.is_empty();
        for (b, blk, hashes) in blocks {
            if hashes.iter().any(|hsh| reused.contains(hsh)) { skipped_dup += 1; continue; } // reported by the search below
            let mut txs = Vec::new();
            let mut exp = Vec::new();
            let mut ok = true;
            for hsh in &hashes {
                let Ok(r) = run.inst.rpc("eth_getTransactionReceipt", json!([hsh])) else { ok = false; break };
                if r.is_null() { ok = false; break; }
                let logs = r["logs"].as_array().cloned().unwrap_or_default();
                txs.push(format!("({}, {}, {})", hterm(hsh), hexn(&r["gasUsed"]), logs.len()));
                let first = logs.first().map(|l| hexn(&l["logIndex"]));
                exp.push(format!("({}, {}, {})", hexn(&r["transactionIndex"]), hexn(&r["cumulativeGasUsed"]), cf::opt(&first, |x| cf::n(*x))));
                *dist.entry(format!("logs_{}", logs.len().min(5))).or_default() += 1;
            }
            if !ok { failures.push(json!({"what": format!("c06: block {} lists a transaction without a receipt", b), "case": {"history": h}})); chain_ok = false; continue; }
            *dist.entry(format!("block_txs_{}", hashes.len().min(7))).or_default() += 1;
            let id = terms.len();
            terms.push(format!("{{| c6_id := {}; c6_number := {}; c6_hash := {}; c6_txs := [{}]; c6_exp := [{}]; c6_gas := {} |}}",
                id, b, hterm(blk["hash"].as_str().unwrap_or("0x0")), txs.join("; "), exp.join("; "), hexn(&blk["gasUsed"])));
            chain_terms.push(format!("({{| c6_id := {}; c6_number := {}; c6_hash := {}; c6_txs := [{}]; c6_exp := [{}]; c6_gas := {} |}}, {})",
                id, b, hterm(blk["hash"].as_str().unwrap_or("0x0")), txs.join("; "), exp.join("; "), hexn(&blk["gasUsed"]), hterm(blk["parentHash"].as_str().unwrap_or("0x0"))));
            if samples.len() < 2 && hashes.len() >= 2 { samples.push(json!({"block": b, "txs(hash,gas,nlogs)": txs, "receipts(idx,cumulative,firstLog)": exp, "blockGasUsed": hexn(&blk["gasUsed"])})); }
        }
        if chain_ok && chain_terms.len() as u64 == height + 1 {
            chains.push(format!("{{| h6_id := {}; h6_blocks := [\n  {}\n] |}}", chains.len(), chain_terms.join(";\n  ")));
        }
    }
    // (chain-level cases are collected per history above)
    // implementation-level coherence search
    let exe = std::env::current_exe()?;
    let dir = out.join("search");
    let _ = std::fs::create_dir_all(&dir);
    let _ = std::process::Command::new(exe).args(["simcheck", "--out", dir.to_str().unwrap(), "--seed", &seed.to_string(), "--tier", if thorough { "thorough" } else { "quick" }, "--only", "c06"])
        .stdout(std::process::Stdio::null()).stderr(std::process::Stdio::null()).status();
    let mut search_eval = 0u64;
    if let Ok(txt) = std::fs::read_to_string(dir.join("simcheck_c06.json")) {
        if let Ok(v) = serde_json::from_str::<Value>(&txt) {
            search_eval = v["evaluations"].as_u64().unwrap_or(0);
            for f in v["failures"].as_array().cloned().unwrap_or_default() {
                failures.push(json!({"what": format!("{} :: {}", f["signature"].as_str().unwrap_or(""), f["what"].as_str().unwrap_or("")),
                    "case": {"history": f["history"], "first_difference": f["first_difference"]}}));
            }
        }
    } else { failures.push(json!({"what": "simcheck search produced no result file", "case": {}})); }
    let imports = "From Brc.Model Require Import Base Chain Tie06.";
    let mut files = cf::write_shards(out, "c06_b", imports, "case06", "bad_cases06", &terms, 16)?;
    files.extend(cf::write_shards(out, "c06_h", "From Brc.Model Require Import Base Chain ChainRun Tie06.", "chain06", "bad_chains06", &chains, 8)?);
    let meta = json!({
        "files": files,
        "evaluations": terms.len() as u64 + search_eval,
        "distinct_nontrivial": terms.len(),
        "rule": "every finalised block of generated histories (all op kinds, multi-transaction and empty blocks, failed / reverted transactions, contract-created contracts, pool drains, reorgs and regrowth) run on the real engine: per block the transactions in block order with gas used and number of logs as revm reported them, against the receipts' index / cumulative gas / first log index and the block's gas used; the bookkeeping model must reproduce them. Blocks in which a transaction hash occurs twice are left to the search (known finding F14). In addition simcheck c06 recomputes every clause of the property on the implementation with its own merkle / bloom / sum code at every block boundary.",
        "blocks_checked": terms.len(), "whole_chains_checked": chains.len(), "blocks_skipped_duplicate_hash": skipped_dup, "distribution": dist, "search_evaluations": search_eval,
        "samples": samples, "impl_failures": failures,
    });
    std::fs::write(out.join("c06_meta.json"), serde_json::to_string_pretty(&meta)?)?;
    Ok(())
}
