//! C18 tie: eth_getLogs on real chains whose contracts emit 0-4 topic logs, for every
//! combination of address filter, topic filters (wildcard / single / alternatives incl. a null
//! inside a list) and ranges (single block, latest, open-ended, reversed, too wide), committed
//! and uncommitted, against Model/Logs.v and against the harness's own reference filter.
use std::collections::BTreeMap;
use std::path::Path;

use alloy::primitives::U256;
use serde_json::{json, Value};

use crate::coqfmt as cf;
use crate::rng::Rng;
use crate::sim::{cd, multitool_init, Enc, Hx, Idx, Op, Run, Tail, To, PKSCRIPTS};

fn hexn(v: &Value) -> u64 { v.as_str().map(|s| u64::from_str_radix(s.trim_start_matches("0x"), 16).unwrap_or(0)).unwrap_or(0) }
fn hterm(s: &str) -> String { let t = s.trim_start_matches("0x").trim_start_matches('0'); if t.is_empty() { "0".into() } else { format!("0x{}", t) } }

#[derive(Clone)]
struct LogRec { block: u64, tx: u64, idx: u64, addr: String, topics: Vec<String> }

fn tail(ts: u64, id: &str) -> Tail {
    Tail { ts, hash: Hx::zero32(), tx_idx: Idx::Auto, insc_id: id.to_string(), byte_len: 4000, op_return_tx_id: Hx::zero32() }
}

/// a chain with two multi-tools emitting logs; returns the run, the contract addresses, the logs in chain order
fn build(rng: &mut Rng, commit_at: Option<u64>) -> Option<(Run, Vec<String>, Vec<LogRec>)> {
    let mut run = Run::new();
    let ts0 = 1_700_000_000u64;
    if !run.step(&Op::Initialise { hash: Hx::zero32(), ts: ts0, height: 0 }).status.is_ok() {
        // the Bitcoin RPC probe failure after genesis is fine
    }
    let mut contracts = Vec::new();
    for (i, pk) in PKSCRIPTS.iter().take(2).enumerate() {
        let out = run.step(&Op::Deploy { from_pkscript: pk.to_string(), data: Hx(multitool_init()), enc: Enc::Hex, tail: tail(ts0 + 1, &format!("dep{}", i)) }).clone();
        contracts.push(out.result["contractAddress"].as_str()?.to_string());
    }
    run.step(&Op::Finalise { ts: ts0 + 1, hash: Hx::zero32(), tx_count: Idx::Auto });
    let nblocks = 7 + rng.below(5);
    let mut uid = 0;
    // the receipts the indexer calls themselves returned (reference for the logs: independent of the block listings)
    let mut returned: Vec<Value> = Vec::new();
    for b in 0..nblocks {
        let ts = ts0 + 10 + b;
        if commit_at == Some(3) && b == 4 {
            // a block under construction with two log-emitting transactions is discarded (clearCaches), rebuilt with ONE
            // other transaction, and one of the dropped transactions comes back, unchanged, in the next block
            let mk = |pk: usize, k: u64, id: &str| Op::Call { from_pkscript: PKSCRIPTS[pk].to_string(), to: To::ByAddress(Hx::from_hex(&contracts[0])),
                data: Hx(cd::log(&[U256::from(1), U256::from(2)], U256::from(9000 + k))), enc: Enc::Hex, tail: tail(ts, id) };
            run.step(&mk(0, 1, "clrA"));
            run.step(&mk(1, 2, "clrB"));
            run.step(&Op::Clear);
            let o = run.step(&mk(2, 3, "clrC")).clone();
            if o.status.is_ok() { returned.push(o.result.clone()); }
            run.step(&Op::Finalise { ts, hash: Hx::zero32(), tx_count: Idx::Auto });
            let o = run.step(&mk(1, 2, "clrB2")).clone();
            if o.status.is_ok() { returned.push(o.result.clone()); }
            run.step(&Op::Finalise { ts: ts + 1, hash: Hx::zero32(), tx_count: Idx::Auto });
            continue;
        }
        let ts = if commit_at == Some(3) && b > 4 { ts + 1 } else { ts };
        let ntx = rng.below(4);
        for _ in 0..ntx {
            let c = rng.pick(&contracts).clone();
            let nt = rng.below(5) as usize;
            let topics: Vec<U256> = (0..nt).map(|_| U256::from(rng.range(1, 3))).collect();
            uid += 1;
            // one time in three the log is emitted by the OTHER contract, called from the transaction's target
            // (the emitter of a log need not be the contract the transaction was sent to)
            let (to, data) = if rng.chance(1, 3) && contracts.len() >= 2 {
                let other = contracts.iter().find(|x| **x != c).cloned().unwrap_or(c.clone());
                (c.clone(), cd::call(Hx::from_hex(&other).to_address(), &cd::log(&topics, U256::from(uid))))
            } else { (c.clone(), cd::log(&topics, U256::from(uid))) };
            let o = run.step(&Op::Call { from_pkscript: PKSCRIPTS[rng.below(3) as usize].to_string(), to: To::ByAddress(Hx::from_hex(&to)), data: Hx(data), enc: Enc::Hex, tail: tail(ts, &format!("log{}", uid)) }).clone();
            if o.status.is_ok() { returned.push(o.result.clone()); }
        }
        run.step(&Op::Finalise { ts, hash: Hx::zero32(), tx_count: Idx::Auto });
        if Some(b) == commit_at { run.step(&Op::Commit); }
    }
    // collect the logs from the receipts the calls returned, in chain order (the receipts of a discarded block
    // under construction were never pushed)
    let _height = run.tracker.height()?;
    let mut logs = Vec::new();
    // (the two set-up blocks - genesis with the controller, the two deployments - are read back from the chain)
    for b in 0..=1u64 {
        let blk = run.inst.rpc("eth_getBlockByNumber", json!([format!("0x{:x}", b), false])).ok()?;
        for h in blk["transactions"].as_array().cloned().unwrap_or_default() {
            let r = run.inst.rpc("eth_getTransactionReceipt", json!([h])).ok()?;
            for l in r["logs"].as_array().cloned().unwrap_or_default() {
                logs.push(LogRec { block: b, tx: hexn(&l["transactionIndex"]), idx: hexn(&l["logIndex"]), addr: l["address"].as_str().unwrap_or("").to_lowercase(),
                    topics: l["topics"].as_array().cloned().unwrap_or_default().iter().map(|t| t.as_str().unwrap_or("").to_string()).collect() });
            }
        }
    }
    for r in &returned {
        for l in r["logs"].as_array().cloned().unwrap_or_default() {
            logs.push(LogRec { block: hexn(&l["blockNumber"]), tx: hexn(&l["transactionIndex"]), idx: hexn(&l["logIndex"]), addr: l["address"].as_str().unwrap_or("").to_lowercase(),
                topics: l["topics"].as_array().cloned().unwrap_or_default().iter().map(|t| t.as_str().unwrap_or("").to_string()).collect() });
        }
    }
    logs.sort_by_key(|l| (l.block, l.idx));
    Some((run, contracts, logs))
}

fn tag(l: &LogRec) -> u64 { l.block * 1_000_000 + l.idx }

#[derive(Clone, Debug)]
enum TF { Null, Single(String), List(Vec<Option<String>>) }

fn reference(logs: &[LogRec], latest: u64, from: Option<u64>, to: Option<u64>, addr: &Option<String>, topics: &Option<Vec<TF>>) -> Option<Vec<u64>> {
    let f = from.unwrap_or(latest);
    let t = to.unwrap_or(f);
    if t > f && t - f > 5 { return None; }
    Some(logs.iter().filter(|l| l.block >= f && l.block <= t).filter(|l| addr.as_ref().map_or(true, |a| &l.addr == a))
        .filter(|l| topics.as_ref().map_or(true, |fs| fs.iter().enumerate().all(|(i, tf)| match tf {
            TF::Null => true,
            TF::Single(s) => l.topics.get(i) == Some(s),
            TF::List(v) => l.topics.get(i).map_or(false, |x| v.iter().any(|o| o.as_ref() == Some(x))),
        }))).map(tag).collect())
}

pub fn run(out: &Path, seed: u64, thorough: bool) -> Result<(), Box<dyn std::error::Error>> {
    let mut rng = Rng::new(seed ^ 0xC18);
    let nchains = if thorough { 12 } else { 3 };
    let nfilters = if thorough { 400 } else { 160 };
    let topic = |k: u64| format!("0x{:064x}", k);
    let mut terms = Vec::new();
    let mut failures: Vec<Value> = Vec::new();
    let mut dist: BTreeMap<String, u64> = BTreeMap::new();
    let mut samples = Vec::new();
    for ci in 0..nchains {
        let commit_at = match ci % 3 { 0 => None, 1 => Some(3), _ => Some(100) };
        let Some((mut run, contracts, logs)) = build(&mut rng, if commit_at == Some(100) { None } else { commit_at }) else { failures.push(json!({"what": "c18: could not build the chain", "case": {}})); continue };
        if commit_at == Some(100) { run.step(&Op::Commit); }
        let latest = run.tracker.height().unwrap_or(0);
        // rows in key order for the model
        let mut rows: BTreeMap<(u64, u64), Vec<&LogRec>> = BTreeMap::new();
        for l in &logs { rows.entry((l.block, l.tx)).or_default().push(l); }
        let rows_term = format!("[{}]", rows.iter().map(|((b, t), ls)| format!("({}, {}, [{}])", b, t,
            ls.iter().map(|l| format!("mkLog {} [{}] {}", hterm(&l.addr), l.topics.iter().map(|x| hterm(x)).collect::<Vec<_>>().join("; "), tag(l))).collect::<Vec<_>>().join("; "))).collect::<Vec<_>>().join("; "));
        for fi in 0..nfilters {
            // ranges
            let (from, to): (Option<u64>, Option<u64>) = match rng.below(10) {
                0 => (None, None),
                1 => { let b = rng.below(latest + 2); (Some(b), None) }
                2 => { let b = rng.below(latest + 1); (Some(b), Some(b)) }
                3 => { let a = rng.below(latest + 1); (Some(a), Some(a + 5)) }
                4 => { let a = rng.below(latest + 1); (Some(a), Some(a + 6)) }                  // too wide
                5 => { let a = 1 + rng.below(latest + 1); (Some(a), Some(a - 1)) }              // reversed
                6 => (Some(0), Some(latest + 3)),
                7 => (None, Some(latest)),
                _ => { let a = rng.below(latest + 1); let w = rng.below(6); (Some(a), Some(a + w)) }
            };
            let addr: Option<String> = match rng.below(4) { 0 => None, 1 => Some(contracts[0].to_lowercase()), 2 => Some(contracts[1].to_lowercase()), _ => Some("0x000000000000000000000000000000000000dead".to_string()) };
            let topics: Option<Vec<TF>> = if rng.chance(1, 5) { None } else {
                let n = rng.below(5) as usize;
                Some((0..n).map(|_| match rng.below(6) {
                    0 | 1 => TF::Null,
                    2 | 3 => TF::Single(topic(rng.range(1, 3))),
                    4 => TF::List(vec![Some(topic(rng.range(1, 3))), Some(topic(rng.range(1, 3)))]),
                    _ => TF::List(vec![None, Some(topic(rng.range(1, 4)))]),
                }).collect())
            };
            let blk = |b: &Option<u64>| b.map(|x| json!(format!("0x{:x}", x))).unwrap_or(Value::Null);
            let topics_json = topics.as_ref().map(|fs| Value::Array(fs.iter().map(|tf| match tf {
                TF::Null => Value::Null, TF::Single(s) => json!(s),
                TF::List(v) => Value::Array(v.iter().map(|o| o.as_ref().map(|s| json!(s)).unwrap_or(Value::Null)).collect()) }).collect()));
            let mut filter = serde_json::Map::new();
            if from.is_some() { filter.insert("fromBlock".into(), blk(&from)); }
            if to.is_some() { filter.insert("toBlock".into(), blk(&to)); }
            if let Some(a) = &addr { filter.insert("address".into(), json!(a)); }
            if let Some(t) = &topics_json { filter.insert("topics".into(), t.clone()); }
            let res = run.inst.rpc("eth_getLogs", json!([Value::Object(filter.clone())]));
            let got: Option<Vec<u64>> = match &res {
                Ok(v) => Some(v.as_array().cloned().unwrap_or_default().iter().map(|l| hexn(&l["blockNumber"]) * 1_000_000 + hexn(&l["logIndex"])).collect()),
                Err(crate::sim::RpcFail::Err { .. }) => None,
                Err(e) => { failures.push(json!({"what": format!("c18: eth_getLogs answered {:?}", e), "case": {"filter": filter}})); continue; }
            };
            let want = reference(&logs, latest, from, to, &addr, &topics);
            if got != want {
                failures.push(json!({"what": format!("c18: eth_getLogs returned {:?} but the matching logs of the range in chain order are {:?}", got, want), "case": {"filter": filter, "latest": latest, "chain": ci}}));
            }
            *dist.entry(format!("range_{}", match (from, to) { (None, None) => "latest", (Some(a), Some(b)) if b < a => "reversed", (Some(a), Some(b)) if b - a > 5 => "too_wide", (_, None) => "from_only", _ => "bounded" })).or_default() += 1;
            *dist.entry(format!("result_{}", match &got { None => "refused".to_string(), Some(v) if v.is_empty() => "empty".to_string(), Some(_) => "nonempty".to_string() })).or_default() += 1;
            let tf_term = |tf: &TF| match tf {
                TF::Null => "TSingle None".to_string(),
                TF::Single(s) => format!("TSingle (Some {})", hterm(s)),
                TF::List(v) => format!("TVec [{}]", v.iter().map(|o| cf::opt(o, |s| hterm(s))).collect::<Vec<_>>().join("; ")),
            };
            let id = terms.len();
            terms.push(format!("{{| c18_id := {}; c18_latest := {}; c18_from := {}; c18_to := {}; c18_addr := {}; c18_topics := {}; c18_rows := {}; c18_got := {} |}}",
                id, latest, cf::opt(&from, |x| cf::n(*x)), cf::opt(&to, |x| cf::n(*x)), cf::opt(&addr, |a| hterm(a)),
                cf::opt(&topics, |fs| format!("[{}]", fs.iter().map(tf_term).collect::<Vec<_>>().join("; "))),
                rows_term, cf::opt(&got, |v| cf::list(v, |x| cf::n(*x)))));
            if samples.len() < 2 && got.as_ref().map_or(false, |v| v.len() >= 2) { samples.push(json!({"filter": filter, "returned(block*1e6+logIndex)": got})); }
            let _ = fi;
        }
    }
    let imports = "From Brc.Model Require Import Base Logs Tie18.";
    let files = cf::write_shards(out, "c18_f", imports, "case18", "bad_cases18", &terms, 16)?;
    let meta = json!({
        "files": files, "evaluations": terms.len(), "distinct_nontrivial": terms.len(),
        "rule": "chains of 8-12 blocks with two contracts emitting 0-4 topic logs (topic alphabet of 3 values), uncommitted / committed half-way / fully committed; per chain random filters: address {none, each contract, a stranger}, 0-4 topic positions each {null, single, list, list containing null}, ranges {latest, from only, single block, width 0-5, width 6 (refused), reversed, beyond the tip}; the real eth_getLogs answer (log identities in order, or refused) against Model/Logs.v and against the harness's own reference filter over the receipts. Cases are distinct PRNG draws.",
        "distribution": dist, "samples": samples, "impl_failures": failures,
    });
    std::fs::write(out.join("c18_meta.json"), serde_json::to_string_pretty(&meta)?)?;
    Ok(())
}
