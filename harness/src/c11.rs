//! C11 - lock programs of the RPC handlers.
//!
//! Drives the whole RPC surface in-process (every registered method, success and error paths,
//! mid-block and at a block boundary) with the `SharedData` recorder on, and extracts, per
//! request, the sequence of lock acquisitions and releases = one lock program per (method,
//! path).  `reflect` writes them to coq/gen/LockPrograms.v (what `C11_handlers_disciplined`
//! evaluates); `run` writes the case files for the tie, compares the call sites observed with
//! an inventory of the call sites in the sources, and replays every re-entrant acquisition on
//! the real code in a child process (two threads, the recorder's pause point, a watchdog).
use std::collections::{BTreeMap, BTreeSet, HashMap};
use std::io::{Read, Write};
use std::net::{TcpListener, TcpStream};
use std::panic::{catch_unwind, AssertUnwindSafe};
use std::path::{Path, PathBuf};
use std::sync::{mpsc, Arc, Mutex};
use std::time::{Duration, Instant};

use alloy::primitives::{Address, Bytes, TxKind, B256, U256};
use alloy_consensus::{SignableTransaction, TxLegacy};
use alloy_signer::SignerSync;
use alloy_signer_local::PrivateKeySigner;
use brc20_prog::verif_hooks as vh;
use serde_json::{json, Value};

use crate::coqfmt as cf;

type R<T> = Result<T, Box<dyn std::error::Error>>;

// =========================================================================================
// A stand-in for the Bitcoin node: answers the three RPCs the precompiles use, with scripted
// failures (so that the retry paths of btc_utils.rs run without a five second wait or a panic).

#[derive(Clone)]
pub struct FakeBtc {
    pub port: u16,
}

fn raw_btc_tx(prev_display_hex: Option<&str>) -> String {
    let mut b: Vec<u8> = vec![2, 0, 0, 0, 1];
    match prev_display_hex {
        Some(h) => {
            let mut t = hex::decode(h).expect("txid hex");
            t.reverse();
            b.extend(t);
            b.extend([0, 0, 0, 0]);
        }
        None => {
            b.extend([0u8; 32]);
            b.extend([0xff; 4]);
        }
    }
    b.push(0); // empty scriptSig
    b.extend([0xff; 4]);
    b.push(1);
    b.extend(1000u64.to_le_bytes());
    b.extend([1, 0x51]);
    b.extend([0, 0, 0, 0]);
    hex::encode(b)
}

pub fn txid_of(prefix: &str) -> String {
    format!("{}{}", prefix, "0".repeat(64 - prefix.len()))
}

/// (result, error) for one request. Scripted by the first two hex digits of the id asked for:
///   e5.. -> "not found" (code -5, no retry); e1.. -> one failure then success; ee.. -> always fails;
///   aa.. -> a transaction whose input spends bb..; a1.. -> a transaction whose input spends e1..;
///   ab.. -> a transaction confirmed in block e1.. (header lookup fails once).
fn btc_answer(method: &str, params: &Value, hits: &Mutex<HashMap<String, u32>>) -> (Value, Value) {
    let err = |code: i64, msg: &str| (Value::Null, json!({"code": code, "message": msg}));
    let arg0 = params.get(0).and_then(|v| v.as_str()).unwrap_or("").to_string();
    let verbose = params.get(1).map(|v| v.as_bool().unwrap_or(false) || v.as_i64() == Some(1)).unwrap_or(false);
    let n = {
        let mut h = hits.lock().unwrap();
        let e = h.entry(format!("{}:{}:{}", method, arg0, verbose)).or_insert(0);
        *e += 1;
        *e - 1
    };
    let pre = arg0.get(0..2).unwrap_or("");
    match method {
        "getrawtransaction" => {
            if pre == "e5" { return err(-5, "No such mempool or blockchain transaction"); }
            if pre == "ee" || (pre == "e1" && n == 0) { return err(-1, "scripted failure"); }
            let txhex = match pre {
                "aa" | "ab" => raw_btc_tx(Some(&txid_of("bb"))),
                "a1" => raw_btc_tx(Some(&txid_of("e1"))),
                _ => raw_btc_tx(None),
            };
            if !verbose { return (json!(txhex), Value::Null); }
            let blockhash = if pre == "ab" { txid_of("e1") } else { txid_of("11") };
            (json!({"hex": txhex, "txid": arg0, "hash": arg0, "size": 60, "vsize": 60, "version": 2, "locktime": 0,
                    "vin": [], "vout": [], "blockhash": blockhash, "confirmations": 1, "time": 1, "blocktime": 1}), Value::Null)
        }
        "getblockheader" => {
            if pre == "ee" || (pre == "e1" && n == 0) { return err(-1, "scripted failure"); }
            (json!({"hash": arg0, "confirmations": 1, "height": 1, "version": 1, "versionHex": "00000001",
                    "merkleroot": "0".repeat(64), "time": 1, "mediantime": 1, "nonce": 0, "bits": "1d00ffff",
                    "difficulty": 1.0, "chainwork": "00", "nTx": 1, "previousblockhash": null, "nextblockhash": null}), Value::Null)
        }
        _ => err(-1, "scripted failure"),
    }
}

fn btc_serve(mut s: TcpStream, hits: Arc<Mutex<HashMap<String, u32>>>) {
    let _ = s.set_read_timeout(Some(Duration::from_secs(2)));
    let mut buf: Vec<u8> = Vec::new();
    let mut tmp = [0u8; 4096];
    let (head_end, clen) = loop {
        match s.read(&mut tmp) {
            Ok(0) | Err(_) => return,
            Ok(n) => buf.extend_from_slice(&tmp[..n]),
        }
        if let Some(p) = buf.windows(4).position(|w| w == b"\r\n\r\n") {
            let head = String::from_utf8_lossy(&buf[..p]).to_lowercase();
            let clen = head.lines().find_map(|l| l.strip_prefix("content-length:").map(|v| v.trim().parse::<usize>().unwrap_or(0))).unwrap_or(0);
            break (p + 4, clen);
        }
    };
    while buf.len() < head_end + clen {
        match s.read(&mut tmp) {
            Ok(0) | Err(_) => return,
            Ok(n) => buf.extend_from_slice(&tmp[..n]),
        }
    }
    let req: Value = serde_json::from_slice(&buf[head_end..head_end + clen]).unwrap_or(Value::Null);
    let (result, error) = btc_answer(req.get("method").and_then(|m| m.as_str()).unwrap_or(""), req.get("params").unwrap_or(&Value::Null), &hits);
    let body = json!({"result": result, "error": error, "id": req.get("id").cloned().unwrap_or(Value::Null)}).to_string();
    let status = if error.is_null() { "200 OK" } else { "500 Internal Server Error" };
    let _ = s.write_all(format!("HTTP/1.1 {}\r\nContent-Type: application/json\r\nContent-Length: {}\r\nConnection: close\r\n\r\n{}", status, body.len(), body).as_bytes());
    let _ = s.flush();
}

pub fn start_fake_btc() -> R<FakeBtc> {
    let listener = TcpListener::bind("127.0.0.1:0")?;
    let port = listener.local_addr()?.port();
    let hits = Arc::new(Mutex::new(HashMap::new()));
    std::thread::spawn(move || {
        for s in listener.incoming().flatten() {
            let h = hits.clone();
            std::thread::spawn(move || btc_serve(s, h));
        }
    });
    Ok(FakeBtc { port })
}

// =========================================================================================
// The driver: one recorded request at a time.

#[derive(Clone, Debug)]
pub struct LockEv {
    pub id: usize,
    pub ty: String,
    pub write: bool,
    pub acquire: bool,
    pub file: String,
    pub line: u32,
    pub thread: u64,
}

#[derive(Clone, Debug)]
pub struct Rec {
    pub step: usize,
    pub method: String,
    pub label: String,
    pub params: Value,
    pub outcome: String,
    pub result: String,
    pub events: Vec<LockEv>,
    pub other_threads: usize,
}

/// What a child process does instead of step `step` of the script.
#[derive(Clone, Debug)]
pub struct ChildSpec {
    pub step: usize,
    /// true: the offending request runs first and is parked at the pause point; the writer second.
    /// false: the writer runs first and is parked at its write site; the offending request second.
    pub park_offender: bool,
    pub pause_file: String,
    pub pause_line: u32,
    pub pause_skip: u32,
    pub writer_method: String,
    pub writer_params: Value,
    /// for park_offender == false: release the writer once the offender has acquired at this site
    pub wait_file: String,
    pub wait_line: u32,
    /// change the Bitcoin RPC credentials first (so that update_bitcoin_client has work to do)
    pub touch_btc_config: bool,
}

pub struct Driver {
    pub methods: jsonrpsee::Methods,
    pub rt: tokio::runtime::Runtime,
    pub recs: Vec<Rec>,
    pub step: usize,
    pub child: Option<ChildSpec>,
    pub chain_id: u64,
    pub fake: FakeBtc,
    pub cfg: vh::Brc20ProgConfig,
    pub startup: Vec<LockEv>,
    /// number of transactions in the block under construction (what the next tx_idx must be)
    pub idx: u64,
    _dir: tempfile::TempDir,
}

fn lock_events(evs: Vec<vh::Ev>) -> Vec<LockEv> {
    evs.into_iter()
        .filter_map(|e| match e {
            vh::Ev::Lock { id, ty, write, acquire, file, line, thread } => {
                Some(LockEv { id, ty: ty.to_string(), write, acquire, file: file.to_string(), line, thread })
            }
            _ => None,
        })
        .collect()
}

fn request(rt: &tokio::runtime::Runtime, m: &jsonrpsee::Methods, method: &str, params: &Value) -> (String, Value) {
    let req = json!({"jsonrpc": "2.0", "id": 1, "method": method, "params": params}).to_string();
    let r = catch_unwind(AssertUnwindSafe(|| rt.block_on(async { m.raw_json_request(&req, 1).await.map(|(r, _)| r.get().to_string()) })));
    match r {
        Err(_) => ("panic".into(), Value::Null),
        Ok(Err(e)) => ("bad_request".into(), json!(e.to_string())),
        Ok(Ok(s)) => {
            let v: Value = serde_json::from_str(&s).unwrap_or(Value::Null);
            match v.get("error") {
                Some(e) if !e.is_null() => ("err".into(), e.clone()),
                _ => ("ok".into(), v.get("result").cloned().unwrap_or(Value::Null)),
            }
        }
    }
}

fn new_rt() -> tokio::runtime::Runtime {
    tokio::runtime::Builder::new_current_thread().enable_all().build().expect("tokio runtime")
}

impl Driver {
    pub fn new(child: Option<ChildSpec>) -> R<Driver> {
        let fake = start_fake_btc()?;
        let dir = tempfile::tempdir()?;
        let mut cfg = vh::Brc20ProgConfig::from_env();
        cfg.bitcoin_rpc_network = "regtest".into();
        cfg.bitcoin_rpc_url = format!("http://127.0.0.1:{}", fake.port);
        cfg.bitcoin_rpc_user = "verif".into();
        cfg.bitcoin_rpc_password = "verif".into();
        cfg.fail_on_bitcoin_rpc_error = false;
        cfg.evm_record_traces = true;
        cfg.evm_call_gas_limit = 20_000_000;
        cfg.db_path = dir.path().join("startdb").to_string_lossy().to_string();
        cfg.brc20_prog_rpc_server_url = "127.0.0.1:0".into();
        cfg.brc20_prog_rpc_server_enable_auth = false;
        let chain_id = cfg.chain_id;
        let rt = new_rt();
        // start(): the only product code that writes the configuration lock. It runs before the
        // server exists; recorded separately (startup program), then the server is stopped.
        let _ = vh::drain();
        vh::set_lock_recording(true);
        let started = catch_unwind(AssertUnwindSafe(|| rt.block_on(async { brc20_prog::start(cfg.clone()).await.map_err(|e| e.to_string()) })));
        vh::set_lock_recording(false);
        let startup = lock_events(vh::drain());
        match started {
            Ok(Ok(handle)) => {
                let _ = handle.stop();
                rt.block_on(async { tokio::time::timeout(Duration::from_secs(2), handle.stopped()).await.ok() });
            }
            Ok(Err(e)) => eprintln!("c11: start() failed: {}", e),
            Err(_) => eprintln!("c11: start() panicked"),
        }
        vh::set_config(cfg.clone());
        let db = vh::Brc20ProgDatabase::new(&dir.path().join("db"))?;
        let methods = vh::verif_rpc_methods(vh::BRC20ProgEngine::new(db));
        let _ = vh::drain();
        Ok(Driver { methods, rt, recs: vec![], step: 0, child, chain_id, fake, cfg, startup, idx: 0, _dir: dir })
    }

    /// One recorded request.
    pub fn call(&mut self, label: &str, method: &str, params: Value) -> Value {
        self.call_with(label, method, params, None)
    }

    /// One recorded request; `helper` = (delay ms, method, params) issued from a second thread
    /// while the request is in flight (its events are not part of the request's program).
    pub fn call_with(&mut self, label: &str, method: &str, params: Value, helper: Option<(u64, &str, Value)>) -> Value {
        let step = self.step;
        self.step += 1;
        let had_helper = helper.is_some();
        if let Some(c) = self.child.clone() {
            if c.step == step {
                replay_in_child(self, &c, method, &params);
            }
            // before the step of interest: run without recording
            if step < c.step {
                let h = helper.map(|(d, m, p)| spawn_helper(self.methods.clone(), d, m.to_string(), p));
                let (o, v) = request(&self.rt, &self.methods, method, &params);
                if let Some(h) = h { let _ = h.join(); }
                self.after(method, &o, &v, had_helper);
                return v;
            }
        }
        let me = vh::thread_id();
        let _ = vh::drain();
        vh::set_lock_recording(true);
        let h = helper.map(|(d, m, p)| spawn_helper(self.methods.clone(), d, m.to_string(), p));
        let (outcome, v) = request(&self.rt, &self.methods, method, &params);
        if let Some(h) = h { let _ = h.join(); }
        vh::set_lock_recording(false);
        let all = lock_events(vh::drain());
        let other = all.iter().filter(|e| e.thread != me).count();
        let events: Vec<LockEv> = all.into_iter().filter(|e| e.thread == me).collect();
        self.after(method, &outcome, &v, had_helper);
        self.recs.push(Rec { step, method: method.into(), label: label.into(), params, outcome, result: v.to_string().chars().take(160).collect(), events, other_threads: other });
        v
    }

    fn after(&mut self, method: &str, outcome: &str, v: &Value, had_helper: bool) {
        if had_helper { self.idx = 0; }
        if outcome != "ok" { return; }
        match method {
            "brc20_deploy" | "brc20_call" | "brc20_deposit" | "brc20_withdraw" => { if v.get("transactionHash").is_some() { self.idx += 1; } }
            "brc20_transact" => self.idx += v.as_array().map(|a| a.len() as u64).unwrap_or(0),
            "brc20_finaliseBlock" | "brc20_clearCaches" => self.idx = 0,
            _ => {}
        }
    }

    /// A request that is not recorded and is not a step of the script.
    pub fn quiet(&mut self, method: &str, params: Value) -> (String, Value) {
        request(&self.rt, &self.methods, method, &params)
    }

    /// Number of transactions in the open block: finaliseBlock with a wrong timestamp complains
    /// about the timestamp only when the count is right (no side effect either way).
    pub fn waiting_count(&mut self, ts: u64, hash: &str) -> u64 {
        for k in 1..200u64 {
            let (_, e) = self.quiet("brc20_finaliseBlock", json!({"timestamp": ts + 999, "hash": hash, "block_tx_count": k}));
            if e.to_string().contains("Timestamp") { return k; }
        }
        0
    }

    /// Replace the process-wide configuration between requests (what an operator does by
    /// restarting with another environment); not part of any request's program.
    pub fn reconfigure(&mut self, f: impl FnOnce(&mut vh::Brc20ProgConfig)) {
        let mut c = self.cfg.clone();
        f(&mut c);
        vh::set_config(c);
    }
    pub fn restore_config(&mut self) {
        vh::set_config(self.cfg.clone());
    }
}

fn spawn_helper(m: jsonrpsee::Methods, delay_ms: u64, method: String, params: Value) -> std::thread::JoinHandle<()> {
    std::thread::spawn(move || {
        std::thread::sleep(Duration::from_millis(delay_ms));
        let rt = new_rt();
        let _ = request(&rt, &m, &method, &params);
    })
}

pub fn signed_tx(chain_id: u64, nonce: u64, to: Option<Address>, input: Vec<u8>) -> (String, Address) {
    let signer = PrivateKeySigner::from_bytes(&B256::repeat_byte(7)).expect("key");
    let tx = TxLegacy {
        chain_id: Some(chain_id),
        nonce,
        gas_price: 0,
        gas_limit: 0,
        to: match to { Some(a) => TxKind::Call(a), None => TxKind::Create },
        value: U256::ZERO,
        input: Bytes::from(input),
    };
    let sig = signer.sign_hash_sync(&tx.signature_hash()).expect("sign");
    let mut out = Vec::new();
    tx.into_signed(sig).rlp_encode(&mut out);
    (format!("0x{}", hex::encode(out)), signer.address())
}

// =========================================================================================
// The script: every registered method, success and error paths, mid-block and at a boundary.

fn selector(sig: &str) -> Vec<u8> {
    alloy::primitives::keccak256(sig.as_bytes())[0..4].to_vec()
}
fn word(n: u64) -> Vec<u8> {
    let mut w = vec![0u8; 24];
    w.extend(n.to_be_bytes());
    w
}
fn abi_bytes_args(sig: &str, dynamic: &[&[u8]], trailing_words: &[u64]) -> String {
    // head: one offset per dynamic argument, then the static words; tail: the byte strings
    let mut out = selector(sig);
    let head = 32 * (dynamic.len() + trailing_words.len());
    let mut tail: Vec<u8> = vec![];
    for d in dynamic {
        out.extend(word((head + tail.len()) as u64));
        tail.extend(word(d.len() as u64));
        tail.extend(d.iter());
        tail.extend(vec![0u8; (32 - d.len() % 32) % 32]);
    }
    for w in trailing_words { out.extend(word(*w)); }
    out.extend(tail);
    format!("0x{}", hex::encode(out))
}
fn abi_txid_call(sig: &str, txid: &str, words: &[u64]) -> String {
    let mut out = selector(sig);
    out.extend(hex::decode(txid).expect("txid"));
    for w in words { out.extend(word(*w)); }
    format!("0x{}", hex::encode(out))
}

const PK: &str = "7465737420706b736372697074";
const PK2: &str = "51200102030405060708090a0b0c0d0e0f101112131415161718191a1b1c1d1e1f20";

pub fn script(d: &mut Driver, thorough: bool) {
    let z32 = format!("0x{}", "00".repeat(32));
    let h32 = |b: u8| format!("0x{}", hex::encode([b; 32]));
    let s = |v: &Value| v.as_str().unwrap_or("").to_string();
    let pre = |n: u8| format!("0x{:040x}", n);
    let unknown_addr = format!("0x{}", "77".repeat(20));
    let ts = 1_700_000_000u64;

    // ---- constant answers -------------------------------------------------------------
    for m in ["brc20_version", "eth_chainId", "net_version", "web3_clientVersion", "eth_accounts", "eth_gasPrice",
              "eth_syncing", "eth_maxPriorityFeePerGas", "eth_blobBaseFee"] {
        d.call("constant", m, json!([]));
    }
    d.call("constant", "web3_sha3", json!(["0x010203"]));
    d.call("constant", "eth_getBalance", json!([unknown_addr, "latest"]));
    d.call("constant", "eth_getUncleCountByBlockNumber", json!([0]));
    d.call("constant", "eth_getUncleCountByBlockHash", json!([z32]));
    d.call("constant", "eth_getUncleByBlockNumberAndIndex", json!([0, 0]));
    d.call("constant", "eth_getUncleByBlockHashAndIndex", json!([z32, 0]));

    // ---- empty database -----------------------------------------------------------------
    reads(d, "empty db", &z32, &z32, &unknown_addr, "none");
    d.call("empty db: reorg(0)", "brc20_reorg", json!([0]));
    d.call("empty db: reorg(5) beyond height", "brc20_reorg", json!([5]));
    d.call("empty db", "brc20_commitToDatabase", json!([]));
    d.call("empty db", "brc20_clearCaches", json!([]));
    d.call("empty db", "brc20_finaliseBlock", json!({"timestamp": ts, "hash": z32, "block_tx_count": 3}));

    // ---- initialise ---------------------------------------------------------------------
    d.reconfigure(|c| c.bitcoin_rpc_url = String::new());
    d.call("genesis, Bitcoin RPC url not configured", "brc20_initialise", json!({"genesis_hash": z32, "genesis_timestamp": ts, "genesis_height": 0}));
    d.restore_config();
    d.call("genesis exists, first Bitcoin RPC status check", "brc20_initialise", json!({"genesis_hash": z32, "genesis_timestamp": ts, "genesis_height": 0}));
    d.call("genesis exists, second status check (client unchanged)", "brc20_initialise", json!({"genesis_hash": z32, "genesis_timestamp": ts, "genesis_height": 0}));
    d.reconfigure(|c| c.bitcoin_rpc_network = String::new());
    d.call("genesis exists, network not configured", "brc20_initialise", json!({"genesis_hash": z32, "genesis_timestamp": ts, "genesis_height": 0}));
    d.restore_config();
    d.reconfigure(|c| c.bitcoin_rpc_password = "other".into());
    d.call("genesis exists, credentials changed", "brc20_initialise", json!({"genesis_hash": z32, "genesis_timestamp": ts, "genesis_height": 0}));
    d.restore_config();
    d.call("genesis hash mismatch", "brc20_initialise", json!({"genesis_hash": h32(9), "genesis_timestamp": ts, "genesis_height": 0}));
    d.call("genesis height without block (leaves a block open)", "brc20_initialise", json!({"genesis_hash": z32, "genesis_timestamp": ts, "genesis_height": 7}));
    d.call("discards the block left open by initialise", "brc20_clearCaches", json!([]));

    // ---- mine ---------------------------------------------------------------------------
    d.call("two blocks", "brc20_mine", json!([2, ts]));
    d.call("zero blocks", "brc20_mine", json!([0, ts]));

    // ---- block under construction ---------------------------------------------------------
    let init_42 = "0x600a600c600039600a6000f3602a60005260206000f3";
    let init_log = "0x6006600c60003960066000f360006000a000";
    let init_revert = "0x6005600c60003960056000f360006000fd";
    let dep = |d: &mut Driver, label: &str, data: Value, off: u64, ins: &str, hash: &str, tstamp: u64| -> Value {
        let idx = d.idx + off;
        d.call(label, "brc20_deploy", json!({"from_pkscript": PK, "data": data, "base64_data": null, "timestamp": tstamp,
            "hash": hash, "tx_idx": idx, "inscription_id": ins, "inscription_byte_len": 500, "op_return_tx_id": h32(1)}))
    };
    let r0 = dep(d, "first tx of a block", json!(init_42), 0, "ins_c42", &z32, ts);
    let c42 = s(&r0["contractAddress"]);
    let tx_open = s(&r0["transactionHash"]);
    dep(d, "wrong tx_idx", json!(init_42), 50, "ins_bad", &z32, ts);
    dep(d, "timestamp differs from the block's", json!(init_42), 0, "ins_bad", &z32, ts + 1);
    dep(d, "hash differs from the block's", json!(init_42), 0, "ins_bad", &h32(3), ts);
    dep(d, "data is not hex", json!("0xzz"), 0, "ins_bad", &z32, ts);
    d.call("bad pkscript hex", "brc20_deploy", json!({"from_pkscript": "zz", "data": init_42, "base64_data": null, "timestamp": ts,
        "hash": z32, "tx_idx": 1, "inscription_id": "ins_bad", "inscription_byte_len": 500, "op_return_tx_id": h32(1)}));
    let r1 = dep(d, "second tx of a block (logs)", json!(init_log), 0, "ins_clog", &z32, ts);
    let clog = s(&r1["contractAddress"]);
    let r2 = dep(d, "third tx (reverting contract)", json!(init_revert), 0, "ins_crev", &z32, ts);
    let crev = s(&r2["contractAddress"]);
    dep(d, "no data (invalid address call)", Value::Null, 0, "ins_nodata", &z32, ts);
    let call = |d: &mut Driver, label: &str, addr: Value, ins_id: Value, data: Value, off: u64, ins: &str| -> Value {
        let idx = d.idx + off;
        d.call(label, "brc20_call", json!({"from_pkscript": PK, "contract_address": addr, "contract_inscription_id": ins_id,
            "data": data, "base64_data": null, "timestamp": ts, "hash": z32, "tx_idx": idx, "inscription_id": ins,
            "inscription_byte_len": 500, "op_return_tx_id": h32(2)}))
    };
    let rc = call(d, "by address, emits a log", json!(clog), Value::Null, json!("0x01"), 0, "ins_call1");
    let tx_log = s(&rc["transactionHash"]);
    call(d, "by inscription id", Value::Null, json!("ins_c42"), json!("0x01"), 0, "ins_call2");
    call(d, "by unknown inscription id", Value::Null, json!("ins_nope"), json!("0x01"), 0, "ins_call3");
    call(d, "no data", json!(clog), Value::Null, Value::Null, 0, "ins_call4");
    call(d, "reverting contract", json!(crev), Value::Null, json!("0x01"), 0, "ins_call5");
    call(d, "wrong tx_idx", json!(clog), Value::Null, json!("0x01"), 50, "ins_call6");
    call(d, "BTC precompile as target inside a block (tx not found)", json!(pre(0xfd)), Value::Null,
         json!(abi_txid_call("getTxDetails(bytes32)", &txid_of("e5"), &[])), 0, "ins_call7");
    let clog_addr: Address = clog.parse().unwrap_or(Address::ZERO);
    let transact = |d: &mut Driver, label: &str, raw: Value, off: u64, ins: &str| -> Value {
        let idx = d.idx + off;
        d.call(label, "brc20_transact", json!({"raw_tx_data": raw, "base64_raw_tx_data": null, "timestamp": ts, "hash": z32,
            "tx_idx": idx, "inscription_id": ins, "inscription_byte_len": 500, "op_return_tx_id": h32(4)}))
    };
    let (raw2, signer) = signed_tx(d.chain_id, 2, Some(clog_addr), vec![1]);
    let (raw1, _) = signed_tx(d.chain_id, 1, Some(clog_addr), vec![1]);
    let (raw0, _) = signed_tx(d.chain_id, 0, Some(clog_addr), vec![1]);
    let (raw_other_chain, _) = signed_tx(1, 0, Some(clog_addr), vec![1]);
    let (raw_far, _) = signed_tx(d.chain_id, 500, Some(clog_addr), vec![1]);
    transact(d, "future nonce 2: parked", json!(raw2), 0, "ins_t2");
    transact(d, "future nonce 1: parked", json!(raw1), 0, "ins_t1");
    transact(d, "nonce too far in the future: dropped", json!(raw_far), 0, "ins_tfar");
    transact(d, "other chain id: ignored", json!(raw_other_chain), 0, "ins_tchain");
    transact(d, "undecodable", json!("0x0102"), 0, "ins_tbad");
    transact(d, "no data", Value::Null, 0, "ins_tnone");
    d.call("pool has parked txs, mid-block", "txpool_content", json!([]));
    d.call("pool has parked txs, mid-block", "txpool_contentFrom", json!([format!("{:?}", signer)]));
    let rt0 = transact(d, "nonce 0: executes and drains the two parked txs", json!(raw0), 0, "ins_t0");
    let tx_signed = s(&rt0[0]["transactionHash"]);
    transact(d, "stale nonce 0 again: ignored", json!(raw0), 0, "ins_t0b");
    transact(d, "wrong tx_idx", json!(signed_tx(d.chain_id, 3, Some(clog_addr), vec![1]).0), 50, "ins_t3");
    let money = |d: &mut Driver, label: &str, m: &str, key: &str, pk: &str, off: u64, ins: &str| -> Value {
        let idx = d.idx + off;
        d.call(label, m, json!({key: pk, "ticker": "ordi", "amount": "0x64", "timestamp": ts, "hash": z32, "tx_idx": idx, "inscription_id": ins}))
    };
    money(d, "mid-block", "brc20_deposit", "to_pkscript", PK, 0, "ins_dep");
    money(d, "mid-block", "brc20_withdraw", "from_pkscript", PK, 0, "ins_wd");
    money(d, "more than the balance", "brc20_withdraw", "from_pkscript", PK2, 0, "ins_wd2");
    money(d, "wrong tx_idx", "brc20_deposit", "to_pkscript", PK, 50, "ins_dep2");
    money(d, "wrong tx_idx", "brc20_withdraw", "from_pkscript", PK, 50, "ins_wd3");
    money(d, "bad pkscript", "brc20_deposit", "to_pkscript", "zz", 0, "ins_dep3");
    money(d, "bad pkscript", "brc20_withdraw", "from_pkscript", "zz", 0, "ins_wd4");

    // reads and refused writes while the block is open
    reads(d, "mid-block", &tx_open, &z32, &c42, "ins_c42");
    d.call("mid-block: refused", "brc20_mine", json!([1, ts]));
    d.call("mid-block: refused", "brc20_commitToDatabase", json!([]));
    d.call("mid-block: refused", "brc20_reorg", json!([1]));
    d.call("mid-block: wrong tx count", "brc20_finaliseBlock", json!({"timestamp": ts, "hash": z32, "block_tx_count": 2}));
    d.call("mid-block: genesis exists", "brc20_initialise", json!({"genesis_hash": z32, "genesis_timestamp": ts, "genesis_height": 0}));
    // a read-only call that arrives mid-block waits for the block to be finalised
    let waiting = d.waiting_count(ts, &z32);
    let fin = json!({"timestamp": ts, "hash": z32, "block_tx_count": waiting});
    d.call_with("mid-block: waits, block finalised meanwhile", "eth_call", json!([{"to": c42, "data": "0x01"}]),
                Some((300, "brc20_finaliseBlock", fin.clone())));
    d.call("block already finalised", "brc20_finaliseBlock", fin);

    // ---- at a block boundary --------------------------------------------------------------
    let latest = d.call("boundary", "eth_blockNumber", json!([]));
    let blk = d.call("latest, hashes only", "eth_getBlockByNumber", json!(["latest", false]));
    let bhash = s(&blk["hash"]);
    reads(d, "boundary", &tx_log, &bhash, &clog, "ins_clog");
    reads(d, "boundary, signed tx", &tx_signed, &bhash, &c42, "ins_t0");
    let _ = latest;
    d.call("boundary", "brc20_commitToDatabase", json!([]));
    d.call("boundary", "brc20_clearCaches", json!([]));
    reads(d, "after commit", &tx_log, &bhash, &clog, "ins_clog");

    // eth_call family
    let ec = |to: &str, data: &str| json!({"from": unknown_addr, "to": to, "data": data});
    d.call("returns 42", "eth_call", json!([ec(&c42, "0x01")]));
    d.call("returns 42, at latest", "eth_call", json!([ec(&c42, "0x01"), "latest"]));
    d.call("returns 42, at pending", "eth_call", json!([ec(&c42, "0x01"), "pending"]));
    d.call("bad block parameter", "eth_call", json!([ec(&c42, "0x01"), "zz"]));
    d.call("reverts", "eth_call", json!([ec(&crev, "0x01")]));
    d.call("no data", "eth_call", json!([{"to": c42}]));
    d.call("input alias, no from", "eth_call", json!([{"to": c42, "input": "0x01"}]));
    d.call("create", "eth_call", json!([{"data": init_42}]));
    d.call("BTC tx details: found, one input", "eth_call", json!([ec(&pre(0xfd), &abi_txid_call("getTxDetails(bytes32)", &txid_of("aa"), &[]))]));
    d.call("BTC tx details: not found", "eth_call", json!([ec(&pre(0xfd), &abi_txid_call("getTxDetails(bytes32)", &txid_of("e5"), &[]))]));
    d.call("BTC tx details: first RPC attempt fails, retried", "eth_call", json!([ec(&pre(0xfd), &abi_txid_call("getTxDetails(bytes32)", &txid_of("e1"), &[]))]));
    d.call("BTC tx details: input lookup fails once, retried", "eth_call", json!([ec(&pre(0xfd), &abi_txid_call("getTxDetails(bytes32)", &txid_of("a1"), &[]))]));
    d.call("BTC tx details: header lookup fails once, retried", "eth_call", json!([ec(&pre(0xfd), &abi_txid_call("getTxDetails(bytes32)", &txid_of("ab"), &[]))]));
    d.call("BTC tx details: undecodable parameters", "eth_call", json!([ec(&pre(0xfd), "0x01")]));
    d.call("last sat location", "eth_call", json!([ec(&pre(0xfc), &abi_txid_call("getLastSatLocation(bytes32,uint256,uint256)", &txid_of("aa"), &[0, 10]))]));
    d.call("last sat location: not found", "eth_call", json!([ec(&pre(0xfc), &abi_txid_call("getLastSatLocation(bytes32,uint256,uint256)", &txid_of("e5"), &[0, 10]))]));
    d.call("bip322 verify", "eth_call", json!([ec(&pre(0xfe), &abi_bytes_args("verify(bytes,bytes,bytes)", &[&hex::decode(PK2).unwrap(), b"hello", &[0u8; 66]], &[]))]));
    d.call("locked pkscript", "eth_call", json!([ec(&pre(0xfb), &abi_bytes_args("getLockedPkscript(bytes,uint256)", &[&hex::decode(PK2).unwrap()], &[10]))]));
    d.call("op_return tx id", "eth_call", json!([ec(&pre(0xfa), &format!("0x{}", hex::encode(selector("getTxId()"))))]));
    d.call("sha256 precompile", "eth_call", json!([ec(&pre(2), "0x01")]));
    let pdata = json!({"opReturnTxIds": [h32(5), h32(6)], "bitcoinTxHexes": {format!("0x{}", txid_of("cc")): format!("0x{}", raw_btc_tx(Some(&txid_of("bb")))), format!("0x{}", txid_of("bb")): format!("0x{}", raw_btc_tx(None))}});
    let many = json!([ec(&c42, "0x01"), ec(&pre(0xfd), &abi_txid_call("getTxDetails(bytes32)", &txid_of("cc"), &[]))]);
    d.call("two calls, tx hexes supplied", "eth_callMany", json!([many, "latest", pdata]));
    d.call("two calls, no precompile data", "eth_callMany", json!([[ec(&c42, "0x01"), ec(&clog, "0x01")]]));
    d.call("second reverts", "eth_callMany", json!([[ec(&c42, "0x01"), ec(&crev, "0x01")]]));
    d.call("a call without data", "eth_callMany", json!([[{"to": c42}]]));
    d.call("bad block parameter", "eth_callMany", json!([[ec(&c42, "0x01")], "zz"]));
    d.call("empty list", "eth_callMany", json!([[]]));
    d.call("simple", "eth_estimateGas", json!([ec(&c42, "0x01")]));
    d.call("simple, at latest", "eth_estimateGas", json!([ec(&c42, "0x01"), "latest"]));
    d.call("reverts", "eth_estimateGas", json!([ec(&crev, "0x01")]));
    d.call("no data", "eth_estimateGas", json!([{"to": c42}]));
    d.call("bad block parameter", "eth_estimateGas", json!([ec(&c42, "0x01"), "zz"]));
    d.call("two calls", "eth_estimateGasMany", json!([[ec(&c42, "0x01"), ec(&clog, "0x01")], "latest", pdata]));
    d.call("reverts", "eth_estimateGasMany", json!([[ec(&crev, "0x01")]]));
    d.call("no data", "eth_estimateGasMany", json!([[{"to": c42}]]));
    d.call("bad block parameter", "eth_estimateGasMany", json!([[ec(&c42, "0x01")], "zz"]));
    d.call("boundary", "brc20_balance", json!([PK, "ordi"]));
    d.call("bad pkscript", "brc20_balance", json!(["zz", "ordi"]));

    // ---- reorg, clear, more blocks ---------------------------------------------------------
    d.call("three more blocks", "brc20_mine", json!([3, ts + 10]));
    let height = d.call("boundary", "eth_blockNumber", json!([]));
    let hnum = u64::from_str_radix(s(&height).trim_start_matches("0x"), 16).unwrap_or(0);
    d.call("to the current height: nothing to do", "brc20_reorg", json!([hnum]));
    d.call("beyond the current height", "brc20_reorg", json!([hnum + 5]));
    d.call("one block back", "brc20_reorg", json!([hnum - 1]));
    d.call("after reorg", "eth_blockNumber", json!([]));
    d.call("twenty blocks", "brc20_mine", json!([20, ts + 20]));
    d.call("too far back", "brc20_reorg", json!([1]));
    dep(d, "open a block to discard", json!(init_42), 0, "ins_discard", &z32, ts + 30);
    d.call("mid-block: discards the open block", "brc20_clearCaches", json!([]));
    d.call("after clear", "brc20_commitToDatabase", json!([]));
    dep(d, "single tx block", json!(init_42), 0, "ins_single", &h32(0x42), ts + 40);
    d.call("explicit hash", "brc20_finaliseBlock", json!({"timestamp": ts + 40, "hash": h32(0x42), "block_tx_count": 1}));
    d.call("by explicit hash, full", "eth_getBlockByHash", json!([h32(0x42), true]));
    if thorough {
        dep(d, "open a block", json!(init_42), 0, "ins_wait", &z32, ts + 50);
        d.call("mid-block: waits five seconds, times out", "eth_call", json!([ec(&c42, "0x01")]));
        d.call("mid-block: waits five seconds, times out", "brc20_balance", json!([PK, "ordi"]));
        d.call("mid-block", "brc20_clearCaches", json!([]));
    }

    // ---- malformed parameters, every method ------------------------------------------------
    let names: Vec<String> = d.methods.method_names().map(|x| x.to_string()).collect();
    for m in names {
        d.call("malformed parameters", &m, json!([{"bogus": true}, [], "x", 1, 2, 3, 4, 5, 6, 7, 8, 9]));
    }
}

/// Every read-only method, for one (transaction, block hash, contract, inscription id) context.
fn reads(d: &mut Driver, ctx: &str, tx: &str, bhash: &str, contract: &str, ins: &str) {
    let l = |x: &str| format!("{}: {}", ctx, x);
    d.call(&l("height"), "eth_blockNumber", json!([]));
    for (tag, full) in [("latest", false), ("latest", true), ("pending", false), ("earliest", true), ("safe", false), ("finalized", false), ("0x1", true), ("1", false), ("0xffff", false), ("zz", false)] {
        d.call(&l(&format!("{} full={}", tag, full)), "eth_getBlockByNumber", json!([tag, full]));
    }
    d.call(&l("no full flag"), "eth_getBlockByNumber", json!(["latest"]));
    d.call(&l("by hash"), "eth_getBlockByHash", json!([bhash, false]));
    d.call(&l("by hash, full"), "eth_getBlockByHash", json!([bhash, true]));
    d.call(&l("by unknown hash"), "eth_getBlockByHash", json!([format!("0x{}", "ab".repeat(32)), true]));
    d.call(&l("count"), "eth_getTransactionCount", json!([contract, "latest"]));
    d.call(&l("count, bad block"), "eth_getTransactionCount", json!([contract, "zz"]));
    d.call(&l("count"), "eth_getBlockTransactionCountByNumber", json!(["latest"]));
    d.call(&l("count, pending"), "eth_getBlockTransactionCountByNumber", json!(["pending"]));
    d.call(&l("count, bad block"), "eth_getBlockTransactionCountByNumber", json!(["zz"]));
    d.call(&l("count"), "eth_getBlockTransactionCountByHash", json!([bhash]));
    d.call(&l("count, unknown hash"), "eth_getBlockTransactionCountByHash", json!([format!("0x{}", "ab".repeat(32))]));
    d.call(&l("all"), "eth_getLogs", json!([{}]));
    d.call(&l("range and address"), "eth_getLogs", json!([{"fromBlock": "earliest", "toBlock": "latest", "address": contract}]));
    d.call(&l("pending, topics"), "eth_getLogs", json!([{"fromBlock": "earliest", "toBlock": "pending", "topics": [null, [format!("0x{}", "00".repeat(32))]]}]));
    d.call(&l("unparsable bounds"), "eth_getLogs", json!([{"fromBlock": "zz", "toBlock": "yy"}]));
    d.call(&l("slot 0"), "eth_getStorageAt", json!([contract, "0x0"]));
    d.call(&l("code"), "eth_getCode", json!([contract]));
    d.call(&l("code of an unknown account"), "eth_getCode", json!([format!("0x{}", "78".repeat(20))]));
    d.call(&l("receipt"), "eth_getTransactionReceipt", json!([tx]));
    d.call(&l("receipt, unknown"), "eth_getTransactionReceipt", json!([format!("0x{}", "cd".repeat(32))]));
    d.call(&l("tx"), "eth_getTransactionByHash", json!([tx]));
    d.call(&l("tx, unknown"), "eth_getTransactionByHash", json!([format!("0x{}", "cd".repeat(32))]));
    d.call(&l("tx by number and index"), "eth_getTransactionByBlockNumberAndIndex", json!([3, 0]));
    d.call(&l("tx by number, no index"), "eth_getTransactionByBlockNumberAndIndex", json!([3]));
    d.call(&l("tx by number and index, none"), "eth_getTransactionByBlockNumberAndIndex", json!([9999, 5]));
    d.call(&l("tx by hash and index"), "eth_getTransactionByBlockHashAndIndex", json!([bhash, 0]));
    d.call(&l("tx by hash and index, none"), "eth_getTransactionByBlockHashAndIndex", json!([format!("0x{}", "ab".repeat(32)), 1]));
    d.call(&l("trace"), "debug_traceTransaction", json!([tx]));
    d.call(&l("trace, unknown"), "debug_traceTransaction", json!([format!("0x{}", "cd".repeat(32))]));
    for b in ["latest", "0x3", "0xffff", "zz"] {
        d.call(&l(b), "debug_getBlockTraceString", json!([b]));
        d.call(&l(b), "debug_getBlockTraceHash", json!([b]));
    }
    for m in ["debug_getRawHeader", "debug_getRawBlock", "debug_getRawReceipts"] {
        d.call(&l("latest"), m, json!(["latest"]));
        d.call(&l("number"), m, json!(["3"]));
        d.call(&l("missing block"), m, json!(["0xffff"]));
        d.call(&l("by hash"), m, json!([format!("\"{}\"", bhash)]));
        d.call(&l("by unknown hash"), m, json!([format!("\"0x{}\"", "ab".repeat(32))]));
        d.call(&l("garbage"), m, json!(["zz"]));
    }
    d.call(&l("pool"), "txpool_content", json!([]));
    d.call(&l("pool of one account"), "txpool_contentFrom", json!([contract]));
    d.call(&l("receipt by inscription"), "brc20_getTxReceiptByInscriptionId", json!([ins]));
    d.call(&l("receipt by unknown inscription"), "brc20_getTxReceiptByInscriptionId", json!(["nope"]));
    d.call(&l("inscription of contract"), "brc20_getInscriptionIdByContractAddress", json!([contract]));
    d.call(&l("inscription of unknown contract"), "brc20_getInscriptionIdByContractAddress", json!([format!("0x{}", "78".repeat(20))]));
    d.call(&l("inscription of tx"), "brc20_getInscriptionIdByTxHash", json!([tx]));
    d.call(&l("inscription of unknown tx"), "brc20_getInscriptionIdByTxHash", json!([format!("0x{}", "cd".repeat(32))]));
}

// =========================================================================================
// Inventory of SharedData call sites in the sources.

#[derive(Clone, Debug, PartialEq, Eq, PartialOrd, Ord)]
pub struct Site {
    pub file: String, // relative to the crate root, e.g. src/engine/engine.rs
    pub line: u32,
    pub lock: String,
    pub write: bool,
}

const RECEIVERS: [(&str, &str); 7] = [
    ("db", "db"), ("last_block_info", "lbi"), ("CONFIG", "cfg"), ("BITCOIN_RPC_URL", "btc_url"),
    ("BITCOIN_RPC_USER", "btc_user"), ("BITCOIN_RPC_PASSWORD", "btc_password"), ("BTC_CLIENT", "btc_client"),
];
/// lock name -> id; the ids are the ranks of the order the code follows:
/// db < lbi < btc_url < btc_user < btc_password < btc_client < cfg
const LOCKS: [&str; 7] = ["db", "lbi", "btc_url", "btc_user", "btc_password", "btc_client", "cfg"];
fn lock_id(name: &str) -> u64 { LOCKS.iter().position(|l| *l == name).unwrap_or(99) as u64 }

/// Blank out every item that follows `#[cfg(test)]` or `#[cfg(feature = "verif")]` (up to the
/// matching closing brace), keeping the line structure.
fn strip_cfg_items(src: &str) -> String {
    let mut out: Vec<u8> = src.as_bytes().to_vec();
    for marker in ["#[cfg(test)]", "#[cfg(feature = \"verif\")]"] {
        let mut from = 0;
        while let Some(p) = src[from..].find(marker) {
            let start = from + p;
            // the item ends at the first ';' seen at depth 0 before any '{', or at the matching '}'
            let bytes = src.as_bytes();
            let mut i = start + marker.len();
            let mut depth = 0i32;
            let mut end = src.len();
            while i < bytes.len() {
                match bytes[i] {
                    b'{' => depth += 1,
                    b'}' => { depth -= 1; if depth == 0 { end = i + 1; break; } }
                    b';' if depth == 0 => { end = i + 1; break; }
                    _ => {}
                }
                i += 1;
            }
            for b in out[start..end].iter_mut() { if *b != b'\n' { *b = b' '; } }
            from = end;
        }
    }
    String::from_utf8(out).unwrap_or_default()
}

fn strip_line_comments(src: &str) -> String {
    src.lines().map(|l| match l.find("//") { Some(p) => format!("{}{}", &l[..p], " ".repeat(l.len() - p)), None => l.to_string() }).collect::<Vec<_>>().join("\n")
}

pub fn inventory(root: &Path) -> Vec<Site> {
    let mut files: Vec<PathBuf> = vec![];
    for dir in ["src/engine", "src/server", "src/db/types", "src/global", "src/api"] {
        let mut stack = vec![root.join(dir)];
        while let Some(d) = stack.pop() {
            if let Ok(rd) = std::fs::read_dir(&d) {
                for e in rd.flatten() {
                    let p = e.path();
                    if p.is_dir() { stack.push(p); } else if p.extension().map(|x| x == "rs").unwrap_or(false) { files.push(p); }
                }
            }
        }
    }
    files.sort();
    let mut sites = BTreeSet::new();
    for f in files {
        let Ok(raw) = std::fs::read_to_string(&f) else { continue };
        let src = strip_cfg_items(&strip_line_comments(&raw));
        let rel = f.strip_prefix(root).unwrap_or(&f).to_string_lossy().to_string();
        for (pat, write) in [(".read()", false), (".read_fn(", false), (".write_fn(", true), (".write_fn_unchecked(", true)] {
            let mut from = 0;
            while let Some(p) = src[from..].find(pat) {
                let at = from + p;
                from = at + pat.len();
                // receiver: the identifier that ends right before the dot (whitespace allowed)
                let before = src[..at].trim_end();
                let ident: String = before.chars().rev().take_while(|c| c.is_alphanumeric() || *c == '_').collect::<String>().chars().rev().collect();
                let Some((_, lock)) = RECEIVERS.iter().find(|(r, _)| *r == ident) else { continue };
                let line = src[..at].matches('\n').count() as u32 + 1;
                sites.insert(Site { file: rel.clone(), line, lock: lock.to_string(), write });
            }
        }
    }
    sites.into_iter().collect()
}

// =========================================================================================
// From events to lock programs.

#[derive(Clone, Debug, PartialEq, Eq, Hash, PartialOrd, Ord)]
pub enum Ins { Acq(u64, bool), Rel(u64) }

fn rel_file(file: &str) -> String {
    match file.rfind("src/") { Some(p) => file[p..].to_string(), None => file.to_string() }
}
fn crate_root(file: &str) -> Option<PathBuf> {
    file.rfind("/src/").map(|p| PathBuf::from(&file[..p]))
}

pub struct Naming {
    pub by_addr: HashMap<usize, String>,
    pub problems: Vec<String>,
}

/// Lock address -> lock name, by type name; the three String statics are told apart by the
/// receiver the inventory found at the call site.
pub fn name_locks(all: &[&LockEv], inv: &[Site]) -> Naming {
    let mut by_addr: HashMap<usize, String> = HashMap::new();
    let mut problems = vec![];
    for e in all {
        let name = if e.ty.contains("Brc20ProgDatabase") { Some("db".to_string()) }
            else if e.ty.contains("LastBlockInfo") { Some("lbi".to_string()) }
            else if e.ty.contains("Brc20ProgConfig") { Some("cfg".to_string()) }
            else if e.ty.ends_with("Client") { Some("btc_client".to_string()) }
            else if e.ty.ends_with("String") {
                let f = rel_file(&e.file);
                let c: Vec<&Site> = inv.iter().filter(|s| s.file == f && s.line == e.line && s.lock.starts_with("btc_") && s.lock != "btc_client").collect();
                if c.len() == 1 { Some(c[0].lock.clone()) } else { None }
            } else { None };
        match name {
            Some(n) => {
                if let Some(old) = by_addr.get(&e.id) {
                    if *old != n { problems.push(format!("lock at {:#x} named both {} and {}", e.id, old, n)); }
                } else { by_addr.insert(e.id, n); }
            }
            None => {
                if !by_addr.contains_key(&e.id) { problems.push(format!("cannot name the lock of type {} used at {}:{}", e.ty, rel_file(&e.file), e.line)); }
            }
        }
    }
    // one address per name (two engines in one process would break the identification)
    let mut seen: HashMap<&String, usize> = HashMap::new();
    for (a, n) in &by_addr {
        if let Some(b) = seen.insert(n, *a) { if b != *a { problems.push(format!("two locks named {}", n)); } }
    }
    Naming { by_addr, problems }
}

pub fn program_of(events: &[LockEv], naming: &Naming) -> Vec<Ins> {
    events.iter().filter_map(|e| {
        let id = lock_id(naming.by_addr.get(&e.id)?);
        Some(if e.acquire { Ins::Acq(id, e.write) } else { Ins::Rel(id) })
    }).collect()
}

// ---- the harness's own checker (independent of the Coq one) -----------------------------

pub fn written_of(progs: &[Vec<Ins>]) -> BTreeSet<u64> {
    progs.iter().flatten().filter_map(|i| match i { Ins::Acq(l, true) => Some(*l), _ => None }).collect()
}

/// None: disciplined. Some(reason): the first violation.
pub fn check_discipline(p: &[Ins], written: &BTreeSet<u64>) -> Option<String> {
    let mut held: Vec<u64> = vec![];
    for (k, i) in p.iter().enumerate() {
        match i {
            Ins::Acq(l, w) => {
                if written.contains(l) {
                    if held.contains(l) { return Some(format!("instruction {}: requests {} while holding it", k, LOCKS[*l as usize])); }
                    if let Some(h) = held.iter().find(|h| written.contains(h) && **h >= *l) {
                        return Some(format!("instruction {}: requests {} while holding {} (order)", k, LOCKS[*l as usize], LOCKS[*h as usize]));
                    }
                } else if *w { return Some(format!("instruction {}: write of a lock outside the written set", k)); }
                held.push(*l);
            }
            Ins::Rel(l) => match held.iter().rposition(|h| h == l) {
                Some(pos) => { held.remove(pos); }
                None => return Some(format!("instruction {}: releases {} which is not held", k, LOCKS[*l as usize])),
            },
        }
    }
    if held.is_empty() { None } else { Some("ends holding a lock".into()) }
}

/// First re-entrant acquisition among the events on written locks:
/// (position in the projected program, lock, index of the holding event, index of the re-entrant event)
pub fn first_reentry(events: &[LockEv], naming: &Naming, written: &BTreeSet<u64>) -> Option<(u64, u64, usize, usize)> {
    let mut held: Vec<(u64, usize)> = vec![];
    let mut k = 0u64;
    for (idx, e) in events.iter().enumerate() {
        let Some(name) = naming.by_addr.get(&e.id) else { continue };
        let l = lock_id(name);
        if !written.contains(&l) { continue; }
        if e.acquire {
            if let Some((_, first)) = held.iter().rev().find(|(h, _)| *h == l) { return Some((k, l, *first, idx)); }
            held.push((l, idx));
        } else if let Some(pos) = held.iter().rposition(|(h, _)| *h == l) { held.remove(pos); }
        k += 1;
    }
    None
}

fn t_prog(p: &[Ins]) -> String {
    cf::list(p, |i| match i {
        Ins::Acq(l, w) => format!("Acq {} {}", l, if *w { "W" } else { "R" }),
        Ins::Rel(l) => format!("Rel {}", l),
    })
}

// =========================================================================================
// Analysis of one drive.

pub struct Analysis {
    pub naming: Naming,
    pub inv: Vec<Site>,
    /// distinct programs in order of first appearance, with the (method, label) pairs that produced them
    pub programs: Vec<(Vec<Ins>, Vec<usize>)>,
    pub written: BTreeSet<u64>,
    pub observed: BTreeSet<Site>,
    pub unobserved: Vec<Site>,
    pub not_in_inventory: Vec<Site>,
    pub undriven: Vec<String>,
    pub startup: Vec<Ins>,
    pub startup_sites: BTreeSet<Site>,
    pub root: Option<PathBuf>,
}

pub fn analyse(d: &Driver) -> Analysis {
    let all: Vec<&LockEv> = d.startup.iter().chain(d.recs.iter().flat_map(|r| r.events.iter())).collect();
    let root = all.iter().find_map(|e| crate_root(&e.file)).or_else(|| Some(PathBuf::from("/repo")));
    let inv = root.as_ref().map(|r| inventory(r)).unwrap_or_default();
    let naming = name_locks(&all, &inv);
    let site = |e: &LockEv| naming.by_addr.get(&e.id).map(|n| Site { file: rel_file(&e.file), line: e.line, lock: n.clone(), write: e.write });
    let mut programs: Vec<(Vec<Ins>, Vec<usize>)> = vec![];
    let mut observed = BTreeSet::new();
    for (ri, r) in d.recs.iter().enumerate() {
        let p = program_of(&r.events, &naming);
        match programs.iter_mut().find(|(q, _)| *q == p) {
            Some((_, who)) => who.push(ri),
            None => programs.push((p, vec![ri])),
        }
        for e in &r.events { if let Some(s) = site(e) { observed.insert(s); } }
    }
    let startup_sites: BTreeSet<Site> = d.startup.iter().filter_map(|e| site(e)).collect();
    let written = written_of(&programs.iter().map(|(p, _)| p.clone()).collect::<Vec<_>>());
    let unobserved: Vec<Site> = inv.iter().filter(|s| !observed.contains(s) && !startup_sites.contains(s)).cloned().collect();
    let in_scope = |s: &Site| ["src/engine", "src/server", "src/db/types", "src/global", "src/api"].iter().any(|d| s.file.starts_with(d));
    let not_in_inventory: Vec<Site> = observed.iter().chain(startup_sites.iter()).filter(|s| in_scope(s) && !inv.contains(s)).cloned().collect();
    let driven: BTreeSet<&str> = d.recs.iter().filter(|r| r.label != "malformed parameters").map(|r| r.method.as_str()).collect();
    let undriven: Vec<String> = d.methods.method_names().filter(|m| !driven.contains(m)).map(|m| m.to_string()).collect();
    let startup = program_of(&d.startup, &naming);
    Analysis { naming, inv, programs, written, observed, unobserved, not_in_inventory, undriven, startup, startup_sites, root }
}

impl Analysis {
    pub fn complete(&self) -> bool {
        self.unobserved.is_empty() && self.naming.problems.is_empty() && self.undriven.is_empty() && self.not_in_inventory.is_empty()
    }
}

fn site_str(s: &Site) -> String { format!("{}:{} {}.{}", s.file, s.line, s.lock, if s.write { "write" } else { "read" }) }
fn clean(s: &str) -> String { s.replace("(*", "( *").replace("*)", "* )") }

pub fn lock_programs_v(d: &Driver, a: &Analysis) -> String {
    let mut s = String::new();
    s.push_str("(* GENERATED by `hx reflect`: the lock programs of the RPC handlers, recorded from the running code by\n   driving every registered RPC method (success and error paths, mid-block and at a block boundary) with the\n   SharedData recorder on. Do not edit.\n   Lock ids are ranks of the order the code follows: ");
    s.push_str(&LOCKS.iter().enumerate().map(|(i, l)| format!("{} = {}", i, l)).collect::<Vec<_>>().join(" < "));
    s.push_str("\n   (db: SharedData<Brc20ProgDatabase> of the engine; lbi: SharedData<LastBlockInfo>; btc_*: the statics of\n   engine/precompiles/btc_utils.rs; cfg: global CONFIG, never written by a handler). *)\n");
    s.push_str("From Coq Require Import NArith List String.\nFrom Brc.Model Require Import Base Locks.\nImport ListNotations.\nOpen Scope N_scope.\n\n");
    for (i, l) in LOCKS.iter().enumerate() { s.push_str(&format!("Definition lock_{} : N := {}.\n", l, i)); }
    s.push_str("Definition order (l : N) : N := l.\n");
    s.push_str(&format!("Definition written : list N := {}.\n", cf::list(&a.written.iter().cloned().collect::<Vec<_>>(), |l| cf::n(*l))));
    s.push_str(&format!("(* {} requests driven, {} distinct programs *)\n", d.recs.len(), a.programs.len()));
    s.push_str("Definition programs : list prog := [\n");
    for (k, (p, who)) in a.programs.iter().enumerate() {
        let mut names: Vec<String> = who.iter().map(|ri| format!("{} [{}] {}", d.recs[*ri].method, d.recs[*ri].outcome, d.recs[*ri].label)).collect();
        names.dedup();
        let shown = names.len().min(6);
        s.push_str(&format!("  (* {}: {}{} *)\n  {}{}\n", k, clean(&names[..shown].join("; ")), if names.len() > shown { format!("; ... {} more", names.len() - shown) } else { String::new() },
            t_prog(p), if k + 1 < a.programs.len() { ";" } else { "" }));
    }
    s.push_str("].\n");
    s.push_str(&format!("(* start(): runs before the server exists *)\nDefinition startup_programs : list prog := [{}].\n", t_prog(&a.startup)));
    s.push_str(&format!("(* every SharedData call site of the sources was observed, every lock was identified, every method driven: {} unobserved, {} unidentified, {} undriven *)\n",
        a.unobserved.len(), a.naming.problems.len(), a.undriven.len()));
    for u in &a.unobserved { s.push_str(&format!("(* unobserved: {} *)\n", clean(&site_str(u)))); }
    s.push_str(&format!("Definition reflect_complete : bool := {}.\n", cf::boolean(a.complete())));
    s
}

fn stub_v(why: &str) -> String {
    format!("(* GENERATED by `hx reflect`: the drive of the RPC surface FAILED: {} *)\nFrom Coq Require Import NArith List.\nFrom Brc.Model Require Import Base Locks.\nImport ListNotations.\nOpen Scope N_scope.\n{}Definition order (l : N) : N := l.\nDefinition written : list N := [].\nDefinition programs : list prog := [].\nDefinition startup_programs : list prog := [].\nDefinition reflect_complete : bool := false.\n",
        clean(why), LOCKS.iter().enumerate().map(|(i, l)| format!("Definition lock_{} : N := {}.\n", l, i)).collect::<String>())
}

/// Called by `hx reflect`: regenerate coq/gen/LockPrograms.v from the running code.
pub fn reflect(gen: &Path) -> R<()> {
    let text = match catch_unwind(AssertUnwindSafe(|| -> R<String> {
        let mut d = Driver::new(None)?;
        script(&mut d, false);
        let a = analyse(&d);
        Ok(lock_programs_v(&d, &a))
    })) {
        Ok(Ok(t)) => t,
        Ok(Err(e)) => stub_v(&e.to_string()),
        Err(_) => stub_v("panic in the driver"),
    };
    crate::reflect::write_if_changed(&gen.join("LockPrograms.v"), &text)?;
    Ok(())
}

// =========================================================================================
// Replay of a re-entrant acquisition on the real code (in a child process: the demonstration
// leaves stuck threads behind).

fn parse_note(n: &str) -> Option<(usize, bool, String, u64)> {
    // "lock-request id=.. ty=.. write=.. at=file:line thread=.."
    let rest = n.strip_prefix("lock-request ")?;
    let get = |k: &str| rest.split(' ').find_map(|f| f.strip_prefix(k).map(|v| v.to_string()));
    Some((get("id=")?.parse().ok()?, get("write=")? == "true", get("at=")?, get("thread=")?.parse().ok()?))
}

fn replay_in_child(d: &mut Driver, c: &ChildSpec, method: &str, params: &Value) -> ! {
    if c.touch_btc_config { d.reconfigure(|cfg| cfg.bitcoin_rpc_user = "changed".into()); }
    let _ = vh::drain();
    vh::set_lock_recording(true);
    vh::set_lock_pause_nth(Some((c.pause_file.as_str(), c.pause_line)), c.pause_skip);
    let (first, second) = if c.park_offender {
        ((method.to_string(), params.clone()), (c.writer_method.clone(), c.writer_params.clone()))
    } else {
        ((c.writer_method.clone(), c.writer_params.clone()), (method.to_string(), params.clone()))
    };
    let spawn = |m: jsonrpsee::Methods, req: (String, Value)| {
        let (tx, rx) = mpsc::channel::<(u64, String)>();
        let (ttx, trx) = mpsc::channel::<u64>();
        std::thread::spawn(move || {
            let _ = ttx.send(vh::thread_id());
            let rt = new_rt();
            let (o, _) = request(&rt, &m, &req.0, &req.1);
            let _ = tx.send((vh::thread_id(), o));
        });
        (trx.recv_timeout(Duration::from_secs(2)).unwrap_or(0), rx)
    };
    let mut log: Vec<vh::Ev> = vec![];
    let (t1, rx1) = spawn(d.methods.clone(), first.clone());
    let hit = vh::wait_lock_pause_hit(Duration::from_secs(6));
    let (t2, rx2) = spawn(d.methods.clone(), second.clone());
    let mut second_reached = false;
    if c.park_offender {
        std::thread::sleep(Duration::from_millis(400));
    } else {
        let t0 = Instant::now();
        while t0.elapsed() < Duration::from_secs(5) && !second_reached {
            std::thread::sleep(Duration::from_millis(20));
            log.extend(vh::drain());
            second_reached = log.iter().any(|e| matches!(e, vh::Ev::Lock { acquire: true, file, line, thread, .. }
                if *thread == t2 && *line == c.wait_line && file.ends_with(c.wait_file.as_str())));
        }
        std::thread::sleep(Duration::from_millis(50));
    }
    vh::release_lock_pause();
    let t0 = Instant::now();
    let watchdog = Duration::from_millis(3000);
    let r1 = rx1.recv_timeout(watchdog).ok();
    let r2 = rx2.recv_timeout(watchdog.saturating_sub(t0.elapsed())).ok();
    log.extend(vh::drain());
    // per thread: the last request that was never granted
    let mut pending: BTreeMap<u64, Option<(usize, bool, String)>> = BTreeMap::new();
    for e in &log {
        match e {
            vh::Ev::Note(n) => { if let Some((id, w, at, th)) = parse_note(n) { pending.insert(th, Some((id, w, at))); } }
            vh::Ev::Lock { id, acquire: true, thread, .. } => {
                if let Some(Some((pid, _, _))) = pending.get(thread) { if pid == id { pending.insert(*thread, None); } }
            }
            _ => {}
        }
    }
    let pend = |t: u64| pending.get(&t).cloned().flatten().map(|(_, w, at)| json!({"write": w, "at": rel_file(&at)})).unwrap_or(Value::Null);
    let out = json!({
        "pause_hit": hit, "second_reached_wait_site": second_reached,
        "first": {"method": first.0, "completed": r1.as_ref().map(|x| x.1.clone()), "blocked_requesting": pend(t1)},
        "second": {"method": second.0, "completed": r2.as_ref().map(|x| x.1.clone()), "blocked_requesting": pend(t2)},
        "watchdog_ms": watchdog.as_millis() as u64,
    });
    println!("C11-REPLAY {}", out);
    let _ = std::io::stdout().flush();
    std::process::exit(0);
}

fn run_child(spec: &ChildSpec) -> Value {
    let exe = match std::env::current_exe() { Ok(e) => e, Err(e) => return json!({"error": e.to_string()}) };
    let arg = json!({"step": spec.step, "park_offender": spec.park_offender, "pause_file": spec.pause_file, "pause_line": spec.pause_line,
        "pause_skip": spec.pause_skip, "writer_method": spec.writer_method, "writer_params": spec.writer_params,
        "wait_file": spec.wait_file, "wait_line": spec.wait_line, "touch_btc_config": spec.touch_btc_config}).to_string();
    let child = std::process::Command::new(exe).args(["c11", "--child", &arg]).stdout(std::process::Stdio::piped()).stderr(std::process::Stdio::null()).spawn();
    let mut child = match child { Ok(c) => c, Err(e) => return json!({"error": e.to_string()}) };
    let t0 = Instant::now();
    loop {
        match child.try_wait() {
            Ok(Some(_)) => break,
            Ok(None) if t0.elapsed() > Duration::from_secs(60) => { let _ = child.kill(); let _ = child.wait(); return json!({"error": "replay child timed out"}); }
            Ok(None) => std::thread::sleep(Duration::from_millis(50)),
            Err(e) => return json!({"error": e.to_string()}),
        }
    }
    let mut so = String::new();
    if let Some(mut o) = child.stdout.take() { let _ = o.read_to_string(&mut so); }
    so.lines().find_map(|l| l.strip_prefix("C11-REPLAY ").and_then(|j| serde_json::from_str(j).ok())).unwrap_or(json!({"error": "no replay report", "stdout": so.chars().take(300).collect::<String>()}))
}

fn child_main(arg: &str) -> R<()> {
    let v: Value = serde_json::from_str(arg)?;
    let spec = ChildSpec {
        step: v["step"].as_u64().unwrap_or(0) as usize,
        park_offender: v["park_offender"].as_bool().unwrap_or(true),
        pause_file: v["pause_file"].as_str().unwrap_or("").into(),
        pause_line: v["pause_line"].as_u64().unwrap_or(0) as u32,
        pause_skip: v["pause_skip"].as_u64().unwrap_or(0) as u32,
        writer_method: v["writer_method"].as_str().unwrap_or("").into(),
        writer_params: v["writer_params"].clone(),
        wait_file: v["wait_file"].as_str().unwrap_or("").into(),
        wait_line: v["wait_line"].as_u64().unwrap_or(0) as u32,
        touch_btc_config: v["touch_btc_config"].as_bool().unwrap_or(false),
    };
    let mut d = Driver::new(Some(spec))?;
    script(&mut d, false);
    println!("C11-REPLAY {}", json!({"error": "the script ended before the step to replay"}));
    Ok(())
}


// =========================================================================================
// Concurrent stress on the real code: several threads issue random requests drawn from the
// script's requests at the same time; a watchdog requires that requests keep completing.

fn stress(d: &Driver, seed: u64, threads: usize, secs: u64) -> Value {
    use std::sync::atomic::{AtomicBool, AtomicU64, Ordering};
    use std::sync::Mutex;
    let pool: Arc<Vec<(String, Value)>> = Arc::new(d.recs.iter()
        .filter(|r| r.outcome != "panic" && r.label != "malformed parameters" && !r.label.contains("retried") && !r.label.contains("waits") && r.method != "brc20_initialise")
        .map(|r| (r.method.clone(), r.params.clone())).collect());
    let done = Arc::new(AtomicU64::new(0));
    let panics = Arc::new(AtomicU64::new(0));
    let stop = Arc::new(AtomicBool::new(false));
    // per worker: the request in flight and since when
    let inflight: Arc<Vec<Mutex<Option<(String, Instant)>>>> = Arc::new((0..threads).map(|_| Mutex::new(None)).collect());
    let mut rng = crate::rng::Rng::new(seed);
    for w in 0..threads {
        let (pool, done, panics, stop, m, inflight) = (pool.clone(), done.clone(), panics.clone(), stop.clone(), d.methods.clone(), inflight.clone());
        let mut r = rng.fork();
        std::thread::spawn(move || {
            let rt = new_rt();
            while !stop.load(Ordering::Relaxed) {
                // half of the workers alternate between the calls that race most: reads that take the
                // database lock without naming a block, and calls that finalise blocks
                let (method, params) = if w % 2 == 1 && r.chance(1, 2) {
                    let racing: Vec<&(String, Value)> = pool.iter().filter(|(m, _)| m == "brc20_balance" || m == "brc20_mine" || m == "eth_call" || m == "eth_estimateGas").collect();
                    if racing.is_empty() { r.pick(&pool[..]).clone() } else { (*r.pick(&racing[..])).clone() }
                } else { r.pick(&pool[..]).clone() };
                *inflight[w].lock().unwrap() = Some((method.clone(), Instant::now()));
                let (o, _) = request(&rt, &m, &method, &params);
                *inflight[w].lock().unwrap() = None;
                if o == "panic" { panics.fetch_add(1, Ordering::Relaxed); }
                done.fetch_add(1, Ordering::Relaxed);
            }
        });
    }
    let t0 = Instant::now();
    while t0.elapsed() < Duration::from_secs(secs) { std::thread::sleep(Duration::from_millis(100)); }
    stop.store(true, Ordering::Relaxed);
    // every request in flight must come back: a read-only call that meets an open block legitimately
    // waits up to five seconds, and an estimate is some twenty-five such simulations (under load tens of seconds); beyond two minutes the request is stuck
    let grace = Instant::now();
    let mut stuck: Vec<String> = vec![];
    loop {
        let busy: Vec<(String, f64)> = inflight.iter().filter_map(|s| s.lock().unwrap().clone()).map(|(m, t)| (m, t.elapsed().as_secs_f64())).collect();
        if busy.is_empty() { break; }
        if busy.iter().any(|(_, t)| *t > 120.0) { stuck = busy.iter().filter(|(_, t)| *t > 120.0).map(|(m, t)| format!("{} ({:.0} s)", m, t)).collect(); break; }
        if grace.elapsed() > Duration::from_secs(40) { stuck = busy.iter().map(|(m, t)| format!("{} ({:.0} s)", m, t)).collect(); break; }
        std::thread::sleep(Duration::from_millis(100));
    }
    json!({"threads": threads, "seconds": secs, "requests_completed": done.load(Ordering::Relaxed), "panics": panics.load(Ordering::Relaxed), "stalled": !stuck.is_empty(), "stuck_requests": stuck, "pool": pool.len()})
}

/// A focused race: one thread finalises blocks in a loop while the others keep sending read requests that
/// take the database lock without naming a block (they read the next height, then wait for the lock: a
/// block finalised in between sends them down branches a single-threaded drive never takes).
fn stress_race(d: &Driver, threads: usize, secs: u64) -> Value {
    use std::sync::atomic::{AtomicBool, AtomicU64, Ordering};
    use std::sync::Mutex;
    let rt0 = new_rt();
    // no open block: drop whatever the mixed stress left behind
    let _ = request(&rt0, &d.methods, "brc20_clearCaches", &json!([]));
    let reads: Arc<Vec<(String, Value)>> = Arc::new(d.recs.iter()
        .filter(|r| r.outcome == "ok" && ((r.method == "brc20_balance") || ((r.method == "eth_call" || r.method == "eth_estimateGas") && r.params.as_array().map(|a| a.len() == 1).unwrap_or(false))))
        .map(|r| (r.method.clone(), r.params.clone())).collect());
    if reads.is_empty() { return json!({"skipped": "no block-less read request in the drive"}); }
    // the same calls with a MOVING block tag: the block they name changes while they run
    let reads: Arc<Vec<(String, Value)>> = Arc::new({
        let mut v: Vec<(String, Value)> = (*reads).clone();
        for (m, p) in reads.iter() {
            if m == "brc20_balance" { continue; }
            for tag in ["latest", "pending"] {
                let mut q = p.as_array().cloned().unwrap_or_default();
                q.push(json!(tag));
                v.push((m.clone(), Value::Array(q)));
            }
        }
        v
    });
    let stop = Arc::new(AtomicBool::new(false));
    let done = Arc::new(AtomicU64::new(0));
    let mined = Arc::new(AtomicU64::new(0));
    let inflight: Arc<Vec<Mutex<Option<(String, Instant)>>>> = Arc::new((0..threads).map(|_| Mutex::new(None)).collect());
    for w in 0..threads {
        let (reads, stop, done, mined, m, inflight) = (reads.clone(), stop.clone(), done.clone(), mined.clone(), d.methods.clone(), inflight.clone());
        std::thread::spawn(move || {
            let rt = new_rt();
            let mut i = w;
            while !stop.load(Ordering::Relaxed) {
                let (method, params) = if w == 0 { ("brc20_mine".to_string(), json!([1, 1_900_000_000u64])) } else { i += 1; reads[i % reads.len()].clone() };
                *inflight[w].lock().unwrap() = Some((method.clone(), Instant::now()));
                let (o, _) = request(&rt, &m, &method, &params);
                *inflight[w].lock().unwrap() = None;
                if w == 0 && o == "ok" { mined.fetch_add(1, Ordering::Relaxed); }
                done.fetch_add(1, Ordering::Relaxed);
            }
        });
    }
    let t0 = Instant::now();
    let mut stuck: Vec<String> = vec![];
    while t0.elapsed() < Duration::from_secs(secs + 126) {
        std::thread::sleep(Duration::from_millis(100));
        if t0.elapsed() >= Duration::from_secs(secs) { stop.store(true, Ordering::Relaxed); }
        let busy: Vec<(String, f64)> = inflight.iter().filter_map(|s| s.lock().unwrap().clone()).map(|(m, t)| (m, t.elapsed().as_secs_f64())).collect();
        if busy.iter().any(|(_, t)| *t > 120.0) { stuck = busy.iter().filter(|(_, t)| *t > 120.0).map(|(m, t)| format!("{} ({:.0} s)", m, t)).collect(); break; }
        if stop.load(Ordering::Relaxed) && busy.is_empty() { break; }
    }
    stop.store(true, Ordering::Relaxed);
    json!({"threads": threads, "seconds": secs, "requests_completed": done.load(Ordering::Relaxed), "blocks_mined": mined.load(Ordering::Relaxed), "read_requests": reads.len(), "stalled": !stuck.is_empty(), "stuck_requests": stuck})
}

/// C10, reads carrying Bitcoin-transaction overrides: a history with a forged override (for a transaction the
/// node knows differently) sent through eth_callMany must leave a later REAL transaction that looks the same
/// previous output up untouched. Uses this module's stand-in Bitcoin node. Returns implementation failures.
pub fn c10_btc_override_scenario() -> Vec<Value> {
    let mut fails = vec![];
    let z32 = format!("0x{}", "00".repeat(32));
    let pre = |n: u8| format!("0x{:040x}", n);
    let ts = 1_700_000_000u64;
    let call_data = abi_txid_call("getTxDetails(bytes32)", &txid_of("aa"), &[]);
    // a forged version of transaction bb.. (the node's has one output of 1000 sat to script 0x51)
    let forged = { let mut b: Vec<u8> = vec![2, 0, 0, 0, 1]; b.extend([0u8; 32]); b.extend([0xff; 4]); b.push(0); b.extend([0xff; 4]); b.push(1);
                   b.extend(2_100_000_000_000_000u64.to_le_bytes()); b.extend([1, 0x52]); b.extend([0, 0, 0, 0]); hex::encode(b) };
    let mut outputs: Vec<(bool, Value)> = vec![];
    for with_read in [false, true, false] {
        let mut d = match Driver::new(None) { Ok(d) => d, Err(e) => { fails.push(json!({"what": format!("c10: harness setup: the driver could not be started: {}", e), "case": {}})); continue; } };
        let (o, v) = d.quiet("brc20_initialise", json!({"genesis_hash": z32, "genesis_timestamp": ts, "genesis_height": 0}));
        // (the stand-in node does not answer the status probe: genesis is created all the same)
        if o != "ok" && !v.to_string().contains("Bitcoin RPC status check failed") { fails.push(json!({"what": format!("c10: harness setup: brc20_initialise answered {} {}", o, v), "case": {}})); continue; }
        let _ = d.quiet("brc20_mine", json!([2, ts + 1]));
        if with_read {
            let pdata = json!({"opReturnTxIds": [], "bitcoinTxHexes": {format!("0x{}", txid_of("bb")): format!("0x{}", forged)}});
            let _ = d.quiet("eth_callMany", json!([[{"to": pre(0xfd), "data": call_data}], "latest", pdata.clone()]));
            let _ = d.quiet("eth_estimateGasMany", json!([[{"to": pre(0xfd), "data": call_data}], "latest", pdata]));
        }
        let (o, r) = d.quiet("brc20_call", json!({"from_pkscript": PK, "contract_address": pre(0xfd), "contract_inscription_id": null, "data": call_data, "base64_data": null,
            "timestamp": ts + 2, "hash": z32, "tx_idx": 0, "inscription_id": "c10btci0", "inscription_byte_len": 5000, "op_return_tx_id": z32}));
        if o != "ok" { fails.push(json!({"what": "c10: the real transaction calling BTC_getTxDetails was not accepted", "case": {"answer": r, "with_read": with_read}})); continue; }
        let txh = r["transactionHash"].clone();
        let _ = d.quiet("brc20_finaliseBlock", json!({"timestamp": ts + 2, "hash": z32, "block_tx_count": 1}));
        let (_, tr) = d.quiet("debug_traceTransaction", json!([txh]));
        outputs.push((with_read, json!({"status": r["status"], "gasUsed": r["gasUsed"], "output": tr["output"]})));
    }
    if outputs.len() != 3 || outputs.iter().any(|(_, o)| o["status"] != json!("0x1") || o["output"].as_str().map(|x| x.len() < 66).unwrap_or(true)) {
        fails.push(json!({"what": "c10: the Bitcoin-override scenario could not be run as scripted (setup problem of the harness, not a verdict on the property)", "case": {"outputs": outputs.iter().map(|(w, o)| json!([w, o])).collect::<Vec<_>>()}}));
    }
    if let Some((_, base)) = outputs.iter().find(|(w, _)| !*w).cloned() {
        for (w, o) in &outputs {
            if *o != base {
                fails.push(json!({"what": format!("c10: a real transaction that looks a Bitcoin transaction up answers differently {} a read request carried a forged override for its previous transaction (reads leave no trace, also not in process-wide caches)", if *w { "after" } else { "in a later history, once" }),
                    "case": {"without_read": base, "this_run": o, "run_had_the_read": w, "forged_override_for": txid_of("bb")}}));
            }
        }
    }
    fails
}

// =========================================================================================

pub fn run(out: &Path, seed: u64, thorough: bool) -> R<()> {
    let args: Vec<String> = std::env::args().collect();
    if let Some(i) = args.iter().position(|a| a == "--child") {
        return child_main(args.get(i + 1).map(|s| s.as_str()).unwrap_or("{}"));
    }
    let t0 = Instant::now();
    let mut d = Driver::new(None)?;
    script(&mut d, thorough);
    let drive_s = t0.elapsed().as_secs_f64();
    let a = analyse(&d);
    let progs: Vec<Vec<Ins>> = a.programs.iter().map(|(p, _)| p.clone()).collect();
    let mut failures: Vec<Value> = vec![];

    // ---- the programs, for the model ------------------------------------------------------
    let mut cases = vec![];
    let mut jsonl = String::new();
    let mut violations: Vec<(usize, String)> = vec![];
    for (k, (p, who)) in a.programs.iter().enumerate() {
        let verdict = check_discipline(p, &a.written);
        let rec = &d.recs[who[0]];
        let re = first_reentry(&rec.events, &a.naming, &a.written);
        cases.push(format!("{{| lc_id := {}; lc_prog := {}; lc_ok := {}; lc_reentry := {} |}}", k, t_prog(p), cf::boolean(verdict.is_none()),
            cf::opt(&re, |(pos, l, _, _)| format!("({}, {})", pos, l))));
        jsonl.push_str(&json!({"id": k, "program": t_prog(p), "disciplined": verdict.is_none(), "violation": verdict,
            "requests": who.iter().take(8).map(|ri| json!({"method": d.recs[*ri].method, "path": d.recs[*ri].label, "outcome": d.recs[*ri].outcome, "params": d.recs[*ri].params})).collect::<Vec<_>>()}).to_string());
        jsonl.push('\n');
        if let Some(v) = verdict { violations.push((k, v)); }
    }
    let imports = "From Brc.Model Require Import Base Locks Tie11.\nFrom BrcGen Require Import LockPrograms.";
    let files = cf::write_shards(out, "c11_programs", imports, "lcase", "bad_lcases (written_of programs) order", &cases, 1)?;
    std::fs::write(out.join("c11_cases.jsonl"), jsonl)?;
    let reqlog: String = d.recs.iter().map(|r| format!("{}\n", json!({"step": r.step, "method": r.method, "path": r.label, "outcome": r.outcome, "result": r.result, "lock_events": r.events.len()}))).collect();
    std::fs::write(out.join("c11_requests.jsonl"), reqlog)?;
    // the generated file the proofs used must be the one this drive produces
    let gen_now = lock_programs_v(&d, &a);
    let gen_path = Path::new(env!("CARGO_MANIFEST_DIR")).join("../coq/gen/LockPrograms.v");
    let gen_same = if thorough { None } else { std::fs::read_to_string(&gen_path).ok().map(|s| s == gen_now) };
    if gen_same == Some(false) {
        failures.push(json!({"what": "lock programs are not reproducible: coq/gen/LockPrograms.v (from `hx reflect`) differs from the programs recorded by this drive", "case": {}}));
    }

    // ---- coverage of the recorder ----------------------------------------------------------
    if !a.unobserved.is_empty() {
        failures.push(json!({"what": format!("lock program coverage incomplete: {}", a.unobserved.iter().map(site_str).collect::<Vec<_>>().join(", ")), "case": {"unobserved": a.unobserved.iter().map(site_str).collect::<Vec<_>>()}}));
    }
    if !a.not_in_inventory.is_empty() {
        failures.push(json!({"what": format!("lock program coverage incomplete: the source inventory misses call sites that were observed: {}", a.not_in_inventory.iter().map(site_str).collect::<Vec<_>>().join(", ")), "case": {}}));
    }
    if !a.naming.problems.is_empty() {
        failures.push(json!({"what": format!("lock program coverage incomplete: {}", a.naming.problems.join("; ")), "case": {}}));
    }
    if !a.undriven.is_empty() {
        failures.push(json!({"what": format!("lock program coverage incomplete: RPC methods not driven: {}", a.undriven.join(", ")), "case": {}}));
    }
    let foreign: Vec<&Rec> = d.recs.iter().filter(|r| r.other_threads > 0 && !r.label.contains("meanwhile")).collect();
    let panics: Vec<&Rec> = d.recs.iter().filter(|r| r.outcome == "panic").collect();
    if a.written.contains(&lock_id("cfg")) {
        failures.push(json!({"what": "a request handler writes the configuration lock: the waiver for re-entrant CONFIG reads does not apply", "case": {}}));
    }

    // ---- violations: group by offending pair of call sites, replay one of each ---------------
    struct Group { lock: u64, site1: (String, u32), site2: (String, u32), prog_ids: Vec<usize>, rec: usize, skip: u32, why: String }
    let mut groups: Vec<Group> = vec![];
    let mut other_violations: Vec<Value> = vec![];
    for (k, why) in &violations {
        let who = &a.programs[*k].1;
        let rec = &d.recs[who[0]];
        match first_reentry(&rec.events, &a.naming, &a.written) {
            Some((_, l, i1, i2)) => {
                let (e1, e2) = (&rec.events[i1], &rec.events[i2]);
                let s1 = (rel_file(&e1.file), e1.line);
                let s2 = (rel_file(&e2.file), e2.line);
                let skip = rec.events[..i2].iter().filter(|e| e.acquire && e.line == e2.line && e.file == e2.file).count() as u32;
                match groups.iter_mut().find(|g| g.site1 == s1 && g.site2 == s2 && g.lock == l) {
                    Some(g) => g.prog_ids.push(*k),
                    None => groups.push(Group { lock: l, site1: s1, site2: s2, prog_ids: vec![*k], rec: who[0], skip, why: why.clone() }),
                }
            }
            None => other_violations.push(json!({"program": k, "violation": why, "request": {"method": rec.method, "path": rec.label}})),
        }
    }
    let z32 = format!("0x{}", "00".repeat(32));
    let mut handles = vec![];
    for g in &groups {
        let rec = &d.recs[g.rec];
        let lname = LOCKS[g.lock as usize];
        let spec = if lname == "db" || lname == "lbi" {
            Some(ChildSpec { step: rec.step, park_offender: true, pause_file: g.site2.0.clone(), pause_line: g.site2.1, pause_skip: g.skip,
                writer_method: "brc20_clearCaches".into(), writer_params: json!([]), wait_file: String::new(), wait_line: 0, touch_btc_config: false })
        } else {
            // the only writer of the Bitcoin client statics is brc20_initialise -> update_bitcoin_client
            a.observed.iter().find(|s| s.lock == lname && s.write).map(|w| ChildSpec { step: rec.step, park_offender: false,
                pause_file: w.file.clone(), pause_line: w.line, pause_skip: 0, writer_method: "brc20_initialise".into(),
                writer_params: json!({"genesis_hash": z32, "genesis_timestamp": 1_700_000_000u64, "genesis_height": 0}),
                wait_file: g.site1.0.clone(), wait_line: g.site1.1, touch_btc_config: true })
        };
        handles.push(spec.map(|s| std::thread::spawn(move || run_child(&s))));
    }
    let mut replays = vec![];
    for (g, h) in groups.iter().zip(handles) {
        let report = match h { Some(h) => h.join().unwrap_or(json!({"error": "replay thread panicked"})), None => json!({"error": "no writer of this lock observed"}) };
        let rec = &d.recs[g.rec];
        let lname = LOCKS[g.lock as usize];
        let blocked = report["first"]["completed"].is_null() && report["second"]["completed"].is_null()
            && !report["first"]["blocked_requesting"].is_null() && !report["second"]["blocked_requesting"].is_null();
        let methods: BTreeSet<String> = g.prog_ids.iter().flat_map(|k| a.programs[*k].1.iter().map(|ri| d.recs[*ri].method.clone())).collect();
        let what = format!("re-entrant lock acquisition: {} is requested at {}:{} while the guard taken at {}:{} is still alive (first seen in {} [{}]); {}",
            lname, g.site2.0, g.site2.1, g.site1.0, g.site1.1, rec.method, rec.label,
            if blocked { "replayed on the real code: with a writer queued in between, both requests are still blocked when the watchdog expires" } else { "the replay did not show the blocking" });
        let case = json!({"lock": lname, "first_acquisition": format!("{}:{}", g.site1.0, g.site1.1), "second_acquisition": format!("{}:{}", g.site2.0, g.site2.1),
            "request": {"method": rec.method, "params": rec.params, "path": rec.label, "script_step": rec.step},
            "schedule": if lname == "db" || lname == "lbi" {
                json!(["thread A runs the request up to the second acquisition (pause point)", "thread B issues brc20_clearCaches, which requests the same lock in write mode and queues", "thread A is released and requests the lock again"])
            } else {
                json!(["thread B runs brc20_initialise (credentials changed) up to the write of the lock (pause point)", "thread A runs the request; it takes the read lock, its first RPC attempt fails, it sleeps before retrying", "thread B is released, requests the write lock and queues", "thread A retries and requests the read lock again"])
            },
            "model": g.why, "affected_methods": methods, "programs": g.prog_ids, "replay": report});
        replays.push(case.clone());
        failures.push(json!({"what": what, "case": case}));
    }
    for v in &other_violations {
        failures.push(json!({"what": format!("undisciplined lock program (not a re-entrant acquisition): {}", v["violation"].as_str().unwrap_or("")), "case": v}));
    }
    for r in &panics {
        failures.push(json!({"what": format!("a request panicked while the lock programs were recorded: {} [{}]", r.method, r.label), "case": {"method": r.method, "params": r.params}}));
    }

    // ---- concurrent stress (only meaningful once the programs are disciplined: otherwise it may hang) ----
    let stress_report = if violations.is_empty() {
        let r = if thorough { stress(&d, seed, 8, 30) } else { stress(&d, seed, 4, 3) };
        if r["stalled"].as_bool().unwrap_or(false) {
            failures.push(json!({"what": format!("concurrent stress: requests never came back (blocked for more than 120 s): {}", r["stuck_requests"]), "case": r.clone()}));
        }
        let r2 = stress_race(&d, 4, if thorough { 10 } else { 2 });
        if r2["stalled"].as_bool().unwrap_or(false) {
            failures.push(json!({"what": format!("concurrent stress (one thread finalising blocks, the others reading without a block number): requests never came back (blocked for more than 120 s): {}", r2["stuck_requests"]), "case": r2.clone()}));
        }
        json!({"mixed": r, "race": r2})
    } else { json!({"skipped": "undisciplined programs present"}) };

    // ---- meta ---------------------------------------------------------------------------------
    let nontrivial = progs.iter().filter(|p| !p.is_empty()).count();
    let outcome_counts = d.recs.iter().fold(BTreeMap::new(), |mut m: BTreeMap<String, u64>, r| { *m.entry(r.outcome.clone()).or_insert(0) += 1; m });
    let nested = progs.iter().filter(|p| { let mut depth = 0; let mut mx = 0; for i in p.iter() { match i { Ins::Acq(..) => { depth += 1; mx = mx.max(depth); } Ins::Rel(_) => depth -= 1 } } mx >= 2 }).count();
    let samples: Vec<Value> = a.programs.iter().filter(|(p, _)| p.len() >= 4).take(4).map(|(p, who)| json!({"program": t_prog(p), "request": format!("{} [{}]", d.recs[who[0]].method, d.recs[who[0]].label)})).collect();
    let meta = json!({
        "files": files,
        "evaluations": a.programs.len(),
        "distinct_nontrivial": nontrivial,
        "rule": "every distinct lock program recorded from the running RPC handlers is disciplined (Coq checker = harness checker), its first re-entrant acquisition is the one the harness replays, and the model turns that acquisition into a deadlock; the recorder observed every SharedData call site of the sources",
        "samples": samples,
        "impl_failures": failures,
        "requests_driven": d.recs.len(),
        "methods_registered": d.methods.method_names().count(),
        "methods_driven": d.methods.method_names().count() - a.undriven.len(),
        "outcomes": outcome_counts,
        "programs_with_nesting": nested,
        "undisciplined_programs": violations.iter().map(|(k, w)| json!({"program": k, "why": w})).collect::<Vec<_>>(),
        "written_locks": a.written.iter().map(|l| LOCKS[*l as usize]).collect::<Vec<_>>(),
        "config_written_by_handlers": a.written.contains(&lock_id("cfg")),
        "lock_order": LOCKS.join(" < "),
        "call_sites_in_sources": a.inv.len(),
        "call_sites_observed": a.inv.iter().filter(|s| a.observed.contains(s) || a.startup_sites.contains(s)).count(),
        "call_sites_observed_only_at_startup": a.startup_sites.iter().filter(|s| !a.observed.contains(s)).map(site_str).collect::<Vec<_>>(),
        "unobserved_sites": a.unobserved.iter().map(site_str).collect::<Vec<_>>(),
        "startup_program": t_prog(&a.startup),
        "requests_with_events_from_other_threads": foreign.iter().map(|r| format!("{} [{}]", r.method, r.label)).collect::<Vec<_>>(),
        "replays": replays,
        "concurrent_stress": stress_report,
        "generated_file_matches_this_drive": gen_same,
        "crate_root": a.root.as_ref().map(|p| p.to_string_lossy().to_string()),
        "drive_seconds": drive_s,
        "total_seconds": t0.elapsed().as_secs_f64(),
    });
    std::fs::write(out.join("c11_meta.json"), serde_json::to_string_pretty(&meta)?)?;
    Ok(())
}
