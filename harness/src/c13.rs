//! C13 component tie: drives BlockHistoryCacheData / BlockCachedDatabase / BlockDatabase
//! directly, records what they answer, writes the cases for the Coq model, and runs an
//! independent write-log reference (the "straightforward in-memory model" of the property)
//! next to the implementation to look for concrete failing inputs.
use std::collections::{BTreeMap, HashSet, VecDeque};
use std::panic::{catch_unwind, AssertUnwindSafe};
use std::path::Path;

use brc20_prog::verif_hooks::{
    BlockCachedDatabase, BlockDatabase, BlockHistoryCache, BlockHistoryCacheData, Encode, U64ED,
    MAX_REORG_HISTORY_SIZE,
};
use serde_json::json;

use crate::coqfmt as cf;
use crate::rng::Rng;

type H = BlockHistoryCacheData<U64ED>;
type T = BlockCachedDatabase<U64ED, U64ED, H>;

const W: u64 = MAX_REORG_HISTORY_SIZE;

#[derive(Clone, Debug, PartialEq, Eq, Hash)]
pub enum HOp { Set(u64, u64), Unset(u64), Reorg(u64) }

pub type Entries = Vec<(u64, Option<u64>)>;

fn h_entries(h: &H) -> Entries {
    let b = h.encode_vec();
    let len = u32::from_be_bytes(b[0..4].try_into().unwrap()) as usize;
    let mut off = 4;
    let mut out = Vec::new();
    for _ in 0..len {
        let k = u64::from_be_bytes(b[off..off + 8].try_into().unwrap());
        off += 8;
        let flag = b[off];
        off += 1;
        let v = if flag == 1 {
            let v = u64::from_be_bytes(b[off..off + 8].try_into().unwrap());
            off += 8;
            Some(v)
        } else { None };
        out.push((k, v));
    }
    assert_eq!(off, b.len(), "history encoding not fully consumed");
    out
}

fn h_apply(h: &mut H, op: &HOp) -> bool {
    let r = catch_unwind(AssertUnwindSafe(|| match op {
        HOp::Set(b, v) => h.set(*b, (*v).into()),
        HOp::Unset(b) => h.unset(*b),
        HOp::Reorg(n) => h.reorg(*n),
    }));
    r.is_ok()
}

/// Reference for one history object: the full write log. value_at(n) = last write stamped <= n.
#[derive(Clone)]
struct RefHist { init: Option<u64>, log: Vec<(u64, Option<u64>)>, clock: u64, floor_known: bool }
impl RefHist {
    fn new(init: Option<u64>) -> Self { RefHist { init, log: vec![], clock: 0, floor_known: true } }
    fn latest(&self) -> Option<u64> { self.log.last().map(|x| x.1).unwrap_or(self.init) }
    fn write(&mut self, b: u64, v: Option<u64>) { self.log.push((b, v)); self.clock = self.clock.max(b); }
    fn reorg(&mut self, n: u64) { self.log.retain(|(b, _)| *b <= n); }
}

fn fmt_hop(o: &HOp) -> String {
    match o {
        HOp::Set(b, v) => format!("HSet {} {}", b, v),
        HOp::Unset(b) => format!("HUnset {}", b),
        HOp::Reorg(n) => format!("HReorg {}", n),
    }
}
fn fmt_entries(e: &Entries) -> String {
    cf::list(e, |(k, v)| cf::pair(cf::n(*k), cf::opt(v, |x| cf::n(*x))))
}

pub struct HCase { pub init: Option<u64>, pub ops: Vec<HOp>, pub obs: Vec<Option<Entries>> }

/// Runs one op sequence on a fresh history; stops after a panic. Also checks the property
/// against the write-log reference; returns a description of the first property failure.
fn run_hcase(init: Option<u64>, ops: &[HOp]) -> (HCase, Option<String>) {
    let mut h = H::new(init.map(|x| x.into()));
    let mut r = RefHist::new(init);
    let mut obs = Vec::new();
    let mut done = Vec::new();
    let mut failure = None;
    for op in ops {
        done.push(op.clone());
        let last_key = h_entries(&h).last().map(|x| x.0).unwrap_or(0);
        let ok = h_apply(&mut h, op);
        if !ok {
            obs.push(None);
            // property: a panic is allowed only for a stale stamp or a rollback below the window
            let allowed = match op {
                HOp::Set(b, _) | HOp::Unset(b) => *b < last_key,
                HOp::Reorg(n) => *n + W < r.clock,
            };
            if !allowed && failure.is_none() {
                failure = Some(format!("panic on {:?} inside the window (clock {})", op, r.clock));
            }
            break;
        }
        match op {
            HOp::Set(b, v) => r.write(*b, Some(*v)),
            HOp::Unset(b) => r.write(*b, None),
            HOp::Reorg(n) => r.reorg(*n),
        }
        let e = h_entries(&h);
        let lat: Option<u64> = h.latest().map(|x| x.into());
        if failure.is_none() {
            if lat != r.latest() {
                failure = Some(format!("latest {:?} but the write log says {:?} after {:?}", lat, r.latest(), op));
            } else if e.len() as u64 > W + 1 {
                failure = Some(format!("{} versions kept (> {})", e.len(), W + 1));
            }
        }
        obs.push(Some(e));
    }
    (HCase { init, ops: done, obs }, failure)
}

fn hcase_term(id: usize, c: &HCase) -> String {
    format!(
        "{{| hc_id := {}; hc_init := {}; hc_ops := {}; hc_obs := {} |}}",
        id,
        cf::opt(&c.init, |x| cf::n(*x)),
        cf::list(&c.ops, fmt_hop),
        cf::list(&c.obs, |o| cf::opt(o, fmt_entries)),
    )
}

fn hcase_json(id: usize, c: &HCase) -> serde_json::Value {
    json!({"id": id, "kind": "history", "init": c.init,
           "ops": c.ops.iter().map(|o| format!("{:?}", o)).collect::<Vec<_>>(),
           "impl_obs": c.obs.iter().map(|o| format!("{:?}", o)).collect::<Vec<_>>() })
}

/// Breadth-first closure over (entries, clock) with a 2-value alphabet, jumps chosen so the
/// window edges are reached at small depth.
fn history_bfs(budget: usize) -> Vec<(Option<u64>, Vec<HOp>)> {
    let mut seqs = Vec::new();
    for init in [None, Some(1u64)] {
        let mut seen: HashSet<(Entries, u64)> = HashSet::new();
        let mut q: VecDeque<(Vec<HOp>, u64)> = VecDeque::new();
        q.push_back((vec![], 0));
        while let Some((ops, clock)) = q.pop_front() {
            if seqs.len() >= budget { break; }
            let mut h = H::new(init.map(|x| x.into()));
            let mut alive = true;
            for o in &ops { if !h_apply(&mut h, o) { alive = false; break; } }
            if !alive { continue; }
            let st = (h_entries(&h), clock);
            // normalise: ages relative to the clock, capped
            let norm: Entries = st.0.iter().map(|(k, v)| ((clock.saturating_sub(*k)).min(W + 3), *v)).collect();
            if !seen.insert((norm, 0)) { continue; }
            if !ops.is_empty() { seqs.push((init, ops.clone())); }
            for jump in [0u64, 1, W - 1, W, W + 1] {
                let c = clock + jump;
                for op in [HOp::Set(c, 1), HOp::Set(c, 2), HOp::Unset(c)] {
                    let mut o = ops.clone(); o.push(op); q.push_back((o, c));
                }
            }
            for back in [0u64, 1, W - 1, W, W + 1, W + 2] {
                if back <= clock {
                    let mut o = ops.clone(); o.push(HOp::Reorg(clock - back));
                    // the clock of the object does not move back; later stamps continue from the target
                    q.push_back((o, clock - back));
                }
            }
        }
    }
    seqs
}

fn history_random(rng: &mut Rng, count: usize) -> Vec<(Option<u64>, Vec<HOp>)> {
    let mut out = Vec::new();
    for _ in 0..count {
        let init = if rng.chance(1, 2) { None } else { Some(rng.range(1, 3)) };
        let len = rng.range(5, 45) as usize;
        let mut clock = 0u64;
        let mut ops = Vec::new();
        for _ in 0..len {
            match rng.below(10) {
                0..=4 => {
                    clock += *rng.pick(&[0u64, 0, 1, 1, 1, 2, W - 1, W, W + 1]);
                    ops.push(HOp::Set(clock, rng.range(1, 3)));
                }
                5..=6 => {
                    clock += *rng.pick(&[0u64, 1, 1, 2, W]);
                    ops.push(HOp::Unset(clock));
                }
                7 => {
                    // stale stamp (must panic)
                    let b = clock.saturating_sub(rng.range(1, 3));
                    ops.push(HOp::Set(b, rng.range(1, 3)));
                }
                _ => {
                    let back = *rng.pick(&[0u64, 1, 2, 5, W - 1, W, W, W + 1, W + 2]);
                    let n = clock.saturating_sub(back);
                    ops.push(HOp::Reorg(n));
                    clock = n;
                }
            }
        }
        out.push((init, ops));
    }
    out
}

// ---------------------------------------------------------------------------------------
// versioned table

#[derive(Clone, Debug)]
pub enum TOp { Set(u64, u64, u64), Unset(u64, u64), Commit(u64), Clear, Reopen, Reorg(u64) }

fn fmt_top(o: &TOp) -> String {
    match o {
        TOp::Set(b, k, v) => format!("TSet {} {} {}", b, k, v),
        TOp::Unset(b, k) => format!("TUnset {} {}", b, k),
        TOp::Commit(b) => format!("TCommit {}", b),
        TOp::Clear | TOp::Reopen => "TClear".to_string(),
        TOp::Reorg(n) => format!("TReorg {}", n),
    }
}

#[derive(Clone, Debug, PartialEq)]
pub struct TObs { latest: Vec<Option<u64>>, ranges: Vec<Vec<(u64, u64)>>, all: Vec<(u64, u64)> }

pub struct TCase { keys: Vec<u64>, ranges: Vec<(u64, u64)>, ops: Vec<TOp>, obs: Vec<Option<TObs>> }

fn t_observe(t: &T, keys: &[u64], ranges: &[(u64, u64)]) -> Option<TObs> {
    catch_unwind(AssertUnwindSafe(|| {
        let latest = keys.iter().map(|k| t.latest(&(*k).into()).unwrap().map(|v| v.into())).collect();
        let ranges = ranges.iter().map(|(lo, hi)| {
            t.get_range(&(*lo).into(), &(*hi).into()).unwrap().into_iter()
                .map(|(k, v)| (k.into(), v.into())).collect::<Vec<(u64, u64)>>()
        }).collect();
        let mut all: Vec<(u64, u64)> = t.all().unwrap().into_iter().map(|(k, v)| (k.into(), v.into())).collect();
        all.sort();
        TObs { latest, ranges, all }
    })).ok()
}

/// Reference table: per key the full write log; saved = state at the last commit.
#[derive(Clone, Default)]
struct RefTable { cur: BTreeMap<u64, Vec<(u64, Option<u64>)>>, saved: BTreeMap<u64, Vec<(u64, Option<u64>)>>, clock: u64, saved_clock: u64 }
impl RefTable {
    fn latest(&self, k: u64) -> Option<u64> { self.cur.get(&k).and_then(|l| l.last()).and_then(|x| x.1) }
    fn obs(&self, keys: &[u64], ranges: &[(u64, u64)]) -> TObs {
        let all: Vec<(u64, u64)> = self.cur.keys().filter_map(|k| self.latest(*k).map(|v| (*k, v))).collect();
        TObs {
            latest: keys.iter().map(|k| self.latest(*k)).collect(),
            ranges: ranges.iter().map(|(lo, hi)| all.iter().filter(|(k, _)| lo <= k && k < hi).cloned().collect()).collect(),
            all,
        }
    }
}

fn run_tcase(dir: &Path, keys: &[u64], ranges: &[(u64, u64)], ops: &[TOp]) -> (TCase, Option<String>) {
    let mut t: Option<T> = Some(T::new(dir, "t").unwrap());
    let mut r = RefTable::default();
    let mut obs = Vec::new();
    let mut done = Vec::new();
    let mut failure: Option<String> = None;
    for op in ops {
        done.push(op.clone());
        let in_window;
        let ok = {
            let tt = t.as_mut().unwrap();
            match op {
                TOp::Set(b, k, v) => { in_window = true; catch_unwind(AssertUnwindSafe(|| tt.set(*b, &(*k).into(), (*v).into()).unwrap())).is_ok() }
                TOp::Unset(b, k) => { in_window = true; catch_unwind(AssertUnwindSafe(|| tt.unset(*b, &(*k).into()).unwrap())).is_ok() }
                TOp::Commit(b) => { in_window = true; catch_unwind(AssertUnwindSafe(|| tt.commit(*b).unwrap())).is_ok() }
                TOp::Clear => { in_window = true; tt.clear_cache(); true }
                TOp::Reopen => { in_window = true; t = None; t = Some(T::new(dir, "t").unwrap()); true }
                TOp::Reorg(n) => { in_window = *n + W >= r.clock; catch_unwind(AssertUnwindSafe(|| tt.reorg(*n).unwrap())).is_ok() }
            }
        };
        if !ok {
            obs.push(None);
            // stale stamps are generated on purpose; a panic elsewhere inside the window is a failure
            let stale = matches!(op, TOp::Set(..) | TOp::Unset(..));
            if !stale && in_window && failure.is_none() {
                failure = Some(format!("panic on {:?} inside the window (clock {})", op, r.clock));
            }
            break;
        }
        match op {
            TOp::Set(b, k, v) => { r.cur.entry(*k).or_default().push((*b, Some(*v))); r.clock = r.clock.max(*b); }
            TOp::Unset(b, k) => { r.cur.entry(*k).or_default().push((*b, None)); r.clock = r.clock.max(*b); }
            TOp::Commit(b) => { r.clock = r.clock.max(b.saturating_sub(1)); r.saved = r.cur.clone(); r.saved_clock = r.clock; }
            TOp::Clear | TOp::Reopen => { r.cur = r.saved.clone(); r.clock = r.saved_clock; }
            TOp::Reorg(n) => { for l in r.cur.values_mut() { l.retain(|(b, _)| *b <= *n); } r.saved = r.cur.clone(); r.saved_clock = r.clock; }
        }
        let o = t_observe(t.as_ref().unwrap(), keys, ranges);
        if failure.is_none() {
            match &o {
                None => failure = Some(format!("a read panicked after {:?}", op)),
                Some(o) => {
                    let want = r.obs(keys, ranges);
                    if in_window && *o != want {
                        failure = Some(format!("after {:?}: implementation {:?} but a plain versioned map gives {:?}", op, o, want));
                    }
                }
            }
        }
        let stop = o.is_none();
        obs.push(o);
        if stop { break; }
        if !in_window {
            // below the window the property only forbids silently wrong answers; the known
            // table-level finding (F13) lives here, the sequence ends
            let want = r.obs(keys, ranges);
            if obs.last().unwrap().as_ref() != Some(&want) && failure.is_none() {
                failure = Some(format!("F13-class: rollback below the window after {:?} silently wrong", op));
            }
            break;
        }
    }
    (TCase { keys: keys.to_vec(), ranges: ranges.to_vec(), ops: done, obs }, failure)
}

fn fmt_okv(x: &Vec<(u64, u64)>) -> String { cf::list(x, |(k, v)| cf::pair(cf::n(*k), cf::n(*v))) }
fn tcase_term(id: usize, c: &TCase) -> String {
    format!(
        "{{| tc_id := {}; tc_keys := {}; tc_ranges := {}; tc_ops := {}; tc_obs := {} |}}",
        id,
        cf::list(&c.keys, |k| cf::n(*k)),
        cf::list(&c.ranges, |(a, b)| cf::pair(cf::n(*a), cf::n(*b))),
        cf::list(&c.ops, fmt_top),
        cf::list(&c.obs, |o| cf::opt(o, |o| format!(
            "{{| to_latest := {}; to_ranges := {}; to_all := {} |}}",
            cf::list(&o.latest, |x| cf::opt(x, |v| cf::n(*v))),
            cf::list(&o.ranges, fmt_okv),
            fmt_okv(&o.all)))),
    )
}
fn tcase_json(id: usize, c: &TCase) -> serde_json::Value {
    json!({"id": id, "kind": "table", "keys": c.keys, "ranges": c.ranges,
           "ops": c.ops.iter().map(|o| format!("{:?}", o)).collect::<Vec<_>>(),
           "impl_obs": c.obs.iter().map(|o| format!("{:?}", o)).collect::<Vec<_>>() })
}

/// Scripted sequences: FULL histories (W + 1 versions of one key: W in-window blocks on top of one older
/// version), taken through the disk (commit + reopen) and rolled back to the deepest admissible block.
fn table_scripted() -> Vec<(Vec<u64>, Vec<(u64, u64)>, Vec<TOp>)> {
    let keys = vec![3u64, 256];
    let ranges = vec![(0u64, u64::MAX), (1, 257)];
    let mut out = Vec::new();
    // dense: a write in every block 1 ..= W + 2 with alternating values, commit, reopen, deepest rollback
    for (reopen, back) in [(true, W), (false, W), (true, W - 1), (true, 1)] {
        let mut ops = Vec::new();
        for b in 1..=(W + 2) { ops.push(TOp::Set(b, 3, 1 + (b % 2))); if b % 3 == 0 { ops.push(TOp::Set(b, 256, 1 + (b % 3))); } }
        ops.push(TOp::Commit(W + 3));
        if reopen { ops.push(TOp::Reopen); }
        ops.push(TOp::Reorg(W + 2 - back));
        ops.push(TOp::Set(W + 3 - back, 3, 3));
        out.push((keys.clone(), ranges.clone(), ops));
    }
    // an old value, a long pause, then a burst of W blocks; rollback to just before the burst
    for reopen in [true, false] {
        let mut ops = vec![TOp::Set(3, 3, 3), TOp::Commit(4)];
        for b in 21..=(20 + W) { ops.push(TOp::Set(b, 3, 1 + (b % 2))); }
        ops.push(TOp::Commit(21 + W));
        if reopen { ops.push(TOp::Reopen); }
        ops.push(TOp::Reorg(20));
        out.push((keys.clone(), ranges.clone(), ops));
    }
    out
}

fn table_random(rng: &mut Rng, count: usize) -> Vec<(Vec<u64>, Vec<(u64, u64)>, Vec<TOp>)> {
    let mut out = table_scripted();
    for i in 0..count {
        // boundary keys for range scans: 255/256 (byte order), u32/u64 edges
        let pool: Vec<u64> = vec![0, 1, 2, 3, 7, 255, 256, 257, 65535, 65536, 1 << 32, (1 << 32) + 1, u64::MAX - 1];
        let nkeys = rng.range(2, 7) as usize;
        let mut keys: Vec<u64> = Vec::new();
        while keys.len() < nkeys { let k = *rng.pick(&pool); if !keys.contains(&k) { keys.push(k); } }
        let mut ranges = vec![(0u64, u64::MAX), (1, 257), (256, 65536), (2, 3)];
        let a = *rng.pick(&keys); let b = *rng.pick(&keys);
        ranges.push((a.min(b), a.max(b)));
        ranges.push((a.min(b), a.max(b).saturating_add(1)));
        let len = rng.range(6, 50) as usize;
        let mut clock = 0u64;
        let mut saved_clock = 0u64;
        let mut ops = Vec::new();
        let deep_ok = i % 4 == 0; // a quarter of the sequences end with a rollback below the window
        for _ in 0..len {
            match rng.below(20) {
                0..=8 => {
                    clock += *rng.pick(&[0u64, 0, 0, 1, 1, 1, 2, W - 1, W, W + 1]);
                    ops.push(TOp::Set(clock, *rng.pick(&keys), rng.range(1, 3)));
                }
                9..=11 => {
                    clock += *rng.pick(&[0u64, 0, 1, 1, W]);
                    ops.push(TOp::Unset(clock, *rng.pick(&keys)));
                }
                12..=14 => { ops.push(TOp::Commit(clock + 1)); saved_clock = clock; }
                // clear / reopen drop the uncommitted blocks: the table is back at the height of
                // its last commit (a reorg target above it would be refused by the engine)
                15 => { ops.push(TOp::Clear); clock = saved_clock; }
                16 => { ops.push(TOp::Reopen); clock = saved_clock; }
                17 => {
                    if rng.chance(1, 4) { ops.push(TOp::Set(clock.saturating_sub(1), *rng.pick(&keys), 1)); }
                    else { ops.push(TOp::Commit(clock + 1)); saved_clock = clock; }
                }
                _ => {
                    let back = *rng.pick(&[0u64, 1, 2, 3, W - 1, W, W]);
                    let n = clock.saturating_sub(back);
                    ops.push(TOp::Reorg(n));
                    // clock (newest block the table was told about) does not go back for the window,
                    // but later stamps restart from n
                    clock = n.max(clock.saturating_sub(back));
                    saved_clock = clock;
                }
            }
        }
        if deep_ok { ops.push(TOp::Reorg(clock.saturating_sub(W + 1 + rng.below(3)))); }
        out.push((keys, ranges, ops));
    }
    out
}

// ---------------------------------------------------------------------------------------
// block table

#[derive(Clone, Debug)]
pub enum BOp { Set(u64, u64), Commit, Clear, Reopen, Reorg(u64) }
fn fmt_bop(o: &BOp) -> String {
    match o {
        BOp::Set(k, v) => format!("BSet {} {}", k, v),
        BOp::Commit => "BCommit".into(),
        BOp::Clear | BOp::Reopen => "BClear".into(),
        BOp::Reorg(n) => format!("BReorg {}", n),
    }
}
pub struct BCase { keys: Vec<u64>, ops: Vec<BOp>, obs: Vec<(Vec<Option<u64>>, Option<u64>)> }

fn run_bcase(dir: &Path, keys: &[u64], ops: &[BOp]) -> (BCase, Option<String>) {
    let mut t: Option<BlockDatabase<U64ED>> = Some(BlockDatabase::new(dir, "b").unwrap());
    let mut cur: BTreeMap<u64, u64> = BTreeMap::new();
    let mut saved: BTreeMap<u64, u64> = BTreeMap::new();
    let mut obs = Vec::new();
    let mut failure = None;
    for op in ops {
        match op {
            BOp::Set(k, v) => { t.as_mut().unwrap().set(*k, (*v).into()); cur.insert(*k, *v); }
            BOp::Commit => { t.as_mut().unwrap().commit().unwrap(); saved = cur.clone(); }
            BOp::Clear => { t.as_mut().unwrap().clear_cache(); cur = saved.clone(); }
            BOp::Reopen => { t = None; t = Some(BlockDatabase::new(dir, "b").unwrap()); cur = saved.clone(); }
            BOp::Reorg(n) => { t.as_mut().unwrap().reorg(*n).unwrap(); cur.retain(|k, _| k <= n); saved.retain(|k, _| k <= n); }
        }
        let tt = t.as_ref().unwrap();
        let got: Vec<Option<u64>> = keys.iter().map(|k| tt.get(*k).unwrap().map(|v| v.into())).collect();
        let last = tt.last_key().unwrap();
        let want: Vec<Option<u64>> = keys.iter().map(|k| cur.get(k).cloned()).collect();
        let want_last = cur.keys().last().cloned();
        if failure.is_none() && (got != want || last != want_last) {
            failure = Some(format!("after {:?}: block table {:?}/{:?} but a plain map gives {:?}/{:?}", op, got, last, want, want_last));
        }
        obs.push((got, last));
    }
    (BCase { keys: keys.to_vec(), ops: ops.to_vec(), obs }, failure)
}

fn bcase_term(id: usize, c: &BCase) -> String {
    format!(
        "{{| bc_id := {}; bc_keys := {}; bc_ops := {}; bc_obs := {} |}}",
        id, cf::list(&c.keys, |k| cf::n(*k)), cf::list(&c.ops, fmt_bop),
        cf::list(&c.obs, |(g, l)| format!("{{| bo_get := {}; bo_last := {} |}}",
            cf::list(g, |x| cf::opt(x, |v| cf::n(*v))), cf::opt(l, |v| cf::n(*v)))),
    )
}

fn block_random(rng: &mut Rng, count: usize) -> Vec<(Vec<u64>, Vec<BOp>)> {
    let mut out = Vec::new();
    for _ in 0..count {
        let keys: Vec<u64> = (0..14).collect();
        let mut next = 0u64;
        let mut ops = Vec::new();
        for _ in 0..rng.range(5, 40) {
            match rng.below(10) {
                0..=4 => { ops.push(BOp::Set(next, rng.range(1, 9))); if rng.chance(4, 5) { next += 1; } if next > 13 { next = 13; } }
                5..=6 => ops.push(BOp::Commit),
                7 => ops.push(if rng.chance(1, 2) { BOp::Clear } else { BOp::Reopen }),
                _ => { let n = next.saturating_sub(rng.range(0, 4)); ops.push(BOp::Reorg(n)); next = n + 1; }
            }
        }
        out.push((keys, ops));
    }
    out
}

// ---------------------------------------------------------------------------------------

pub fn run(out: &Path, seed: u64, thorough: bool) -> Result<(), Box<dyn std::error::Error>> {
    std::panic::set_hook(Box::new(|_| {}));
    let mut rng = Rng::new(seed);
    let (bfs_budget, hrand, trand, brand) = if thorough { (40_000, 20_000, 6_000, 2_000) } else { (3_000, 2_000, 600, 200) };
    let mut failures: Vec<serde_json::Value> = Vec::new();
    let mut jsonl = String::new();

    // history
    let mut hseqs = history_bfs(bfs_budget);
    let n_bfs = hseqs.len();
    hseqs.extend(history_random(&mut rng.fork(), hrand));
    let mut hterms = Vec::new();
    let mut distinct: HashSet<String> = HashSet::new();
    let mut op_hist: BTreeMap<&'static str, u64> = BTreeMap::new();
    let mut n_panics = 0u64;
    for (i, (init, ops)) in hseqs.iter().enumerate() {
        let (c, f) = run_hcase(*init, ops);
        for o in &c.ops { *op_hist.entry(match o { HOp::Set(..) => "h.set", HOp::Unset(..) => "h.unset", HOp::Reorg(..) => "h.reorg" }).or_default() += 1; }
        if c.obs.last().map(|x| x.is_none()).unwrap_or(false) { n_panics += 1; }
        if c.ops.len() >= 2 { distinct.insert(format!("{:?}{:?}", c.init, c.ops)); }
        if let Some(f) = f { failures.push(json!({"case": hcase_json(i, &c), "what": f})); }
        hterms.push(hcase_term(i, &c));
        jsonl.push_str(&hcase_json(i, &c).to_string()); jsonl.push('\n');
    }
    // table
    let tmp = tempfile::tempdir()?;
    let tseqs = table_random(&mut rng.fork(), trand);
    let mut tterms = Vec::new();
    let mut t_deep = 0u64;
    for (i, (keys, ranges, ops)) in tseqs.iter().enumerate() {
        let d = tmp.path().join(format!("t{}", i));
        std::fs::create_dir_all(&d)?;
        let (c, f) = run_tcase(&d, keys, ranges, ops);
        for o in &c.ops { *op_hist.entry(match o { TOp::Set(..) => "t.set", TOp::Unset(..) => "t.unset", TOp::Commit(..) => "t.commit", TOp::Clear => "t.clear", TOp::Reopen => "t.reopen", TOp::Reorg(..) => "t.reorg" }).or_default() += 1; }
        if c.obs.last().map(|x| x.is_none()).unwrap_or(false) { n_panics += 1; }
        if c.ops.len() >= 2 { distinct.insert(format!("{:?}{:?}", c.keys, c.ops)); }
        let id = 1_000_000 + i;
        if let Some(f) = f {
            if f.starts_with("F13-class") { t_deep += 1; }
            failures.push(json!({"case": tcase_json(id, &c), "what": f}));
        }
        tterms.push(tcase_term(id, &c));
        jsonl.push_str(&tcase_json(id, &c).to_string()); jsonl.push('\n');
        let _ = std::fs::remove_dir_all(&d);
    }
    // block table
    let bseqs = block_random(&mut rng.fork(), brand);
    let mut bterms = Vec::new();
    for (i, (keys, ops)) in bseqs.iter().enumerate() {
        let d = tmp.path().join(format!("b{}", i));
        std::fs::create_dir_all(&d)?;
        let (c, f) = run_bcase(&d, keys, ops);
        for o in &c.ops { *op_hist.entry(match o { BOp::Set(..) => "b.set", BOp::Commit => "b.commit", BOp::Clear => "b.clear", BOp::Reopen => "b.reopen", BOp::Reorg(..) => "b.reorg" }).or_default() += 1; }
        distinct.insert(format!("{:?}", c.ops));
        let id = 2_000_000 + i;
        if let Some(f) = f { failures.push(json!({"case": {"id": id, "kind": "block", "ops": c.ops.iter().map(|o| format!("{:?}", o)).collect::<Vec<_>>()}, "what": f})); }
        bterms.push(bcase_term(id, &c));
        let _ = std::fs::remove_dir_all(&d);
    }

    let imports = "From Brc.Model Require Import Base History Table BlockTable Tie13.\nFrom BrcGen Require Import Consts.";
    let shards = 16;
    let mut files = cf::write_shards(out, "c13_h", imports, "hcase", "bad_hcases W", &hterms, shards)?;
    files.extend(cf::write_shards(out, "c13_t", imports, "tcase", "bad_tcases W", &tterms, shards)?);
    files.extend(cf::write_shards(out, "c13_b", imports, "bcase", "bad_bcases", &bterms, 4)?);
    std::fs::write(out.join("c13_cases.jsonl"), jsonl)?;
    let samples: Vec<serde_json::Value> = vec![
        hcase_json(0, &run_hcase(hseqs[n_bfs.min(hseqs.len() - 1)].0, &hseqs[n_bfs.min(hseqs.len() - 1)].1).0),
    ];
    let meta = json!({
        "files": files,
        "evaluations": hterms.len() + tterms.len() + bterms.len(),
        "distinct_nontrivial": distinct.len(),
        "rule": "history: breadth-first closure over a 2-value alphabet with jumps {0,1,W-1,W,W+1} and rollbacks {0,1,W-1,W,W+1,W+2} back, states normalised to ages (budgeted), plus random sequences; table / block table: random sequences over boundary keys with commit, clear, reopen, rollback. A case is non-trivial when it has at least 2 operations; distinct = distinct (initial value, op sequence).",
        "history_bfs_cases": n_bfs,
        "history_cases": hterms.len(), "table_cases": tterms.len(), "block_cases": bterms.len(),
        "cases_ending_in_panic": n_panics,
        "table_rollbacks_below_window_silently_wrong": t_deep,
        "op_distribution": op_hist,
        "samples": samples,
        "impl_failures": failures,
    });
    std::fs::write(out.join("c13_meta.json"), serde_json::to_string_pretty(&meta)?)?;
    Ok(())
}
