//! C19 — contracts see exactly the block context the indexer supplied.
//!
//! (1) Environment samples: histories on the real engine under three network configurations
//!     (regtest; signet and mainnet started just below their Prague activation heights) with the
//!     EVM recorder on; every sample becomes a case of Model/TieEnv.v (inputs + recorded env).
//! (2) Implementation-level check (independent of the model and of the hook): the probe action
//!     0x08 of the multi-tool contract SSTOREs every context opcode and the current-txid helper's
//!     answer; the slots are read back with eth_getStorageAt and compared with what was sent.
use std::path::Path;
use std::time::Instant;

use alloy::primitives::Address;
use serde_json::{json, Value};

use crate::coqfmt as cf;
use crate::envs::{self, Drv, NetCfg, Ti};
use crate::rng::Rng;
use crate::sim::{self, cd, Hx, PKSCRIPTS};

fn rnd_hash(rng: &mut Rng) -> Hx {
    let mut v = Vec::with_capacity(32);
    for _ in 0..4 { v.extend_from_slice(&rng.next().to_be_bytes()); }
    Hx(v)
}
fn maybe_zero_hash(rng: &mut Rng) -> Hx { if rng.chance(1, 3) { Hx::zero32() } else { rnd_hash(rng) } }

pub struct Expect { pub number: u64, pub ts: u64, pub hash: Hx, pub caller: Address, pub origin: Address, pub txid: Hx }

/// Reads the twelve context slots of `probe` and compares them with what the harness sent.
pub fn check_probe(d: &mut Drv, probe: Address, e: &Expect, what: &str, fails: &mut Vec<Value>, checked: &mut u64) {
    let prague = d.cfg.prague_at(e.number);
    let zero = Hx::zero32();
    let bh = |d: &Drv, n: Option<u64>| n.and_then(|n| d.hashes.get(&n).cloned()).unwrap_or(Hx::zero32());
    let want: Vec<(&str, Hx)> = vec![
        ("NUMBER", Hx::n32(e.number)),
        ("TIMESTAMP", Hx::n32(e.ts)),
        ("PREVRANDAO", sim::resolve_hash(e.number, &e.hash)),
        ("CHAINID", Hx::n32(d.cfg.chain_id)),
        ("BASEFEE", zero.clone()),
        ("GASPRICE", zero.clone()),
        ("COINBASE", zero.clone()),
        ("CALLER", { let mut v = vec![0u8; 12]; v.extend_from_slice(e.caller.as_slice()); Hx(v) }),
        ("ORIGIN", { let mut v = vec![0u8; 12]; v.extend_from_slice(e.origin.as_slice()); Hx(v) }),
        ("BLOCKHASH(n-1)", bh(d, e.number.checked_sub(1))),
        ("BLOCKHASH(n-2)", bh(d, e.number.checked_sub(2))),
        ("getTxId()", if prague { e.txid.clone() } else { zero.clone() }),
    ];
    for (i, (name, w)) in want.iter().enumerate() {
        let got = d.storage(probe, sim::SLOT_CTX + i as u64);
        *checked += 1;
        if &got != w {
            fails.push(json!({"what": format!("C19: {} seen by the contract differs from what the indexer supplied ({})", name, what),
                "case": {"network": d.cfg.network, "height": e.number, "slot": name, "got": got.hex0x(), "want": w.hex0x(), "prague": prague, "history": d.log.clone()}}));
        }
    }
}

/// One history under one configuration. Returns (probe checks made).
fn scenario(cfg: NetCfg, rng: &mut Rng, rounds: u64, fails: &mut Vec<Value>, all: &mut envs::Cases, stats: &mut serde_json::Map<String, Value>) -> u64 {
    let mut d = Drv::new(cfg.clone());
    let mut checked = 0u64;
    let t0 = 1_700_000_000u64 + rng.below(1000);
    // a genesis above 0 needs its parent: empty blocks up to there (committed in chunks)
    if cfg.genesis_height > 0 {
        d.next = 0;
        let mut left = cfg.genesis_height;
        while left > 0 {
            let k = left.min(25_000);
            if d.mine(k, t0 - 1).is_err() { fails.push(json!({"what": "C19: brc20_mine failed while preparing the chain", "case": {"network": cfg.network}})); return 0; }
            let _ = d.commit();
            left -= k;
        }
    }
    let g_hash = maybe_zero_hash(rng);
    let r = d.initialise(&g_hash, t0);
    if d.next != cfg.genesis_height + 1 { fails.push(json!({"what": "C19: brc20_initialise did not create genesis", "case": {"network": cfg.network, "answer": format!("{:?}", r)}})); return 0; }
    let pk = |i: usize| PKSCRIPTS[i % PKSCRIPTS.len()];
    let addr_of = |i: usize| sim::pkscript_address(PKSCRIPTS[i % PKSCRIPTS.len()]);
    let mut ts = t0;
    let big = 400u64; // inscription length: 4.8M gas, enough for deployment and the probe action

    // --- three probe contracts, in one block with an explicit hash (or a generated one) ---
    let mut probes: Vec<Address> = vec![];
    ts += 600;
    let h = maybe_zero_hash(rng);
    for i in 0..3 {
        let txid = rnd_hash(rng);
        let (r, _) = d.deploy(pk(i), &sim::multitool_init(), big, &txid, ts, &h);
        match r.ok().and_then(|v| v.get("contractAddress").and_then(|a| a.as_str()).map(|s| Hx::from_hex(s).to_address())) {
            Some(a) if a != Address::ZERO => probes.push(a),
            _ => { fails.push(json!({"what": "C19: probe contract deployment failed", "case": {"network": cfg.network, "history": d.log.clone()}})); return checked; }
        }
    }
    let _ = d.finalise(ts, &h);

    for round in 0..rounds {
        // a few empty blocks now and then (generated hashes), commits now and then
        if rng.chance(1, 3) { ts += 600; let _ = d.mine(rng.range(1, 2), ts); }
        if rng.chance(1, 3) { let _ = d.commit(); }

        // --- block with inscription calls of the probe action, each with its own txid ---
        ts += 600;
        let h = maybe_zero_hash(rng);
        let k = rng.range(1, 3) as usize;
        let mut expects = vec![];
        for j in 0..k {
            let txid = rnd_hash(rng);
            let who = rng.below(4) as usize;
            let number = d.next;
            let (r, ss) = d.call(pk(who), Some(probes[j]), Some(&cd::context()), big, &txid, ts, &h);
            if r.is_err() || ss.first().map(|s| !s.ok()).unwrap_or(true) { fails.push(json!({"what": "C19: probe call did not succeed", "case": {"network": cfg.network, "answer": format!("{:?}", r), "history": d.log.clone()}})); continue; }
            expects.push((probes[j], Expect { number, ts, hash: h.clone(), caller: addr_of(who), origin: addr_of(who), txid }));
        }
        // read back while the block is still open (storage reads do not wait) ...
        for (p, e) in &expects { check_probe(&mut d, *p, e, "inscription call, open block", fails, &mut checked); }
        // a deposit and a withdrawal in the same block: indexer address, zero txid (seen in the samples and in the receipt)
        if round % 2 == 0 {
            let (r, ss) = d.deposit(pk(0), "ordi", 1000 + round, ts, &h, false);
            let from_ok = r.as_ref().ok().and_then(|v| v.get("from").and_then(|f| f.as_str()).map(|s| s.trim_start_matches("0x").eq_ignore_ascii_case(sim::INDEXER))).unwrap_or(false);
            checked += 1;
            if !from_ok { fails.push(json!({"what": "C19: deposit receipt is not from the indexer address", "case": {"network": cfg.network, "answer": format!("{:?}", r)}})); }
            if let Some(s) = ss.first() {
                checked += 1;
                if s.env["op_return_tx_id"].as_str().map(|x| x.chars().all(|c| c == '0')) != Some(true) { fails.push(json!({"what": "C19: deposit ran with a non-zero current txid", "case": {"env": s.env}})); }
            }
            let (r2, _) = d.deposit(pk(0), "ordi", 10, ts, &h, true);
            let from_ok = r2.as_ref().ok().and_then(|v| v.get("from").and_then(|f| f.as_str()).map(|s| s.trim_start_matches("0x").eq_ignore_ascii_case(sim::INDEXER))).unwrap_or(false);
            checked += 1;
            if !from_ok { fails.push(json!({"what": "C19: withdraw receipt is not from the indexer address", "case": {"network": cfg.network, "answer": format!("{:?}", r2)}})); }
        }
        let _ = d.finalise(ts, &h);
        // ... and after it was finalised
        for (p, e) in &expects { check_probe(&mut d, *p, e, "inscription call, finalised block", fails, &mut checked); }

        // --- signed transactions: park nonce+2 and nonce+1 in two different blocks, then nonce ---
        let si = (round % sim::SIGNERS as u64) as usize;
        let sa = sim::signer_address(si);
        let n0 = d.nonce(sa);
        let (t2, t1, tnow) = (rnd_hash(rng), rnd_hash(rng), rnd_hash(rng));
        ts += 600;
        let h1 = maybe_zero_hash(rng);
        let (r, ss) = d.transact(si, n0 + 2, Some(probes[2]), &cd::context(), big, &t2, ts, &h1);
        if r.is_err() || !ss.is_empty() { fails.push(json!({"what": "C19: parking a future-nonce transaction failed or executed", "case": {"answer": format!("{:?}", r), "history": d.log.clone()}})); }
        let _ = d.finalise(ts, &h1);
        if rng.chance(1, 2) { let _ = d.commit(); }
        ts += 600;
        let h2 = maybe_zero_hash(rng);
        let (r, ss) = d.transact(si, n0 + 1, Some(probes[1]), &cd::context(), big + 7, &t1, ts, &h2);
        if r.is_err() || !ss.is_empty() { fails.push(json!({"what": "C19: parking a future-nonce transaction failed or executed", "case": {"answer": format!("{:?}", r), "history": d.log.clone()}})); }
        let _ = d.finalise(ts, &h2);
        ts += 600;
        let h3 = maybe_zero_hash(rng);
        let number = d.next;
        // an inscription call first, so that the signed ones are not at index 0
        let lead_txid = rnd_hash(rng);
        if rng.chance(1, 2) { let _ = d.call(pk(3), Some(probes[0]), Some(&cd::sstore(alloy::primitives::U256::from(1), alloy::primitives::U256::from(round))), 50, &lead_txid, ts, &h3); }
        let (r, ss) = d.transact(si, n0, Some(probes[0]), &cd::context(), big, &tnow, ts, &h3);
        checked += 1;
        if r.is_err() || ss.len() != 3 || ss.iter().any(|s| !s.ok()) {
            fails.push(json!({"what": "C19: signed transaction with two parked successors did not execute all three", "case": {"network": cfg.network, "answer": format!("{:?}", r), "executions": ss.len(), "history": d.log.clone()}}));
        } else {
            // each one saw the context of *this* block and the txid supplied with *it*
            for (p, txid, what) in [(probes[0], &tnow, "signed transaction"), (probes[1], &t1, "parked transaction drained one block later"), (probes[2], &t2, "parked transaction drained two blocks later")] {
                check_probe(&mut d, p, &Expect { number, ts, hash: h3.clone(), caller: sa, origin: sa, txid: txid.clone() }, what, fails, &mut checked);
            }
        }
        let _ = d.finalise(ts, &h3);

        // --- a re-parking discarded by clearCaches: the surviving (committed) parking's txid counts ---
        {
            let si2 = ((round + 1) % sim::SIGNERS as u64) as usize;
            let sa2 = sim::signer_address(si2);
            let m0 = d.nonce(sa2);
            let (ta, tb, tnow2) = (rnd_hash(rng), rnd_hash(rng), rnd_hash(rng));
            ts += 600;
            let hp = maybe_zero_hash(rng);
            let (r, ss) = d.transact(si2, m0 + 1, Some(probes[1]), &cd::context(), big, &ta, ts, &hp);
            if r.is_err() || !ss.is_empty() { fails.push(json!({"what": "C19: parking a future-nonce transaction failed or executed", "case": {"answer": format!("{:?}", r), "history": d.log.clone()}})); }
            let _ = d.finalise(ts, &hp);
            if d.commit().is_ok() {
                ts += 600;
                let hq = maybe_zero_hash(rng);
                // the byte-identical signed transaction, inscribed again with another Bitcoin txid, in a block
                // that is then discarded
                let _ = d.transact(si2, m0 + 1, Some(probes[1]), &cd::context(), big, &tb, ts, &hq);
                let _ = d.clear();
                ts += 600;
                let hr = maybe_zero_hash(rng);
                let number = d.next;
                let (r, ss) = d.transact(si2, m0, Some(probes[0]), &cd::context(), big, &tnow2, ts, &hr);
                checked += 1;
                if r.is_err() || ss.len() != 2 || ss.iter().any(|s| !s.ok()) {
                    fails.push(json!({"what": "C19: after clearCaches a signed transaction with one committed parked successor did not execute both", "case": {"network": cfg.network, "answer": format!("{:?}", r), "executions": ss.len(), "history": d.log.clone()}}));
                } else {
                    check_probe(&mut d, probes[0], &Expect { number, ts, hash: hr.clone(), caller: sa2, origin: sa2, txid: tnow2.clone() }, "signed transaction after clearCaches", fails, &mut checked);
                    check_probe(&mut d, probes[1], &Expect { number, ts, hash: hr.clone(), caller: sa2, origin: sa2, txid: ta.clone() }, "parked transaction whose re-parking was discarded by clearCaches", fails, &mut checked);
                }
                let _ = d.finalise(ts, &hr);
            }
        }

        // --- reads at the block boundary -------------------------------------------------
        // eth_call of the probe action (environment sample only: a simulation leaves no storage)
        let _ = d.eth_call(Some(addr_of(1)), Some(probes[0]), &cd::context(), None);
        let _ = d.eth_call(None, None, &sim::child_init(), None);
        let past = d.next.saturating_sub(2).max(cfg.genesis_height);
        let _ = d.eth_call(Some(addr_of(2)), Some(probes[1]), &cd::sload(alloy::primitives::U256::from(sim::SLOT_CTX)), Some((format!("0x{:x}", past), past)));
        let _ = d.eth_call(Some(addr_of(2)), Some(probes[1]), &cd::sload(alloy::primitives::U256::from(sim::SLOT_CTX)), Some(("latest".into(), d.next - 1)));
        let _ = d.estimate_gas(Some(addr_of(1)), Some(probes[0]), &cd::context());
        // explicit heights around the activation heights of this network (the spec follows the given height)
        if round == 0 {
            let (pm, ps, _, _) = brc20_prog::verif_hooks::verif_fork_heights();
            for hgt in [pm - 1, pm, ps - 1, ps, 0] {
                let _ = d.eth_call(Some(addr_of(0)), Some(probes[0]), &cd::sload(alloy::primitives::U256::from(1)), Some((format!("0x{:x}", hgt), hgt)));
            }
            let calls = vec![Ti { from: addr_of(0), to: Some(probes[0]), data: cd::context() }, Ti { from: addr_of(0), to: Some(probes[0]), data: cd::sload(alloy::primitives::U256::from(sim::SLOT_CTX + 11)) }];
            for hgt in [ps - 1, ps] {
                let id = rnd_hash(rng);
                let (r, _) = d.eth_call_many(&calls, Some(&[id.clone()]), Some((format!("{}", hgt), hgt)));
                // the helper answers only where the Prague rules are in force at the *given* height
                let want = if cfg.prague_at(hgt) { id.clone() } else { Hx::zero32() };
                let got = r.as_ref().ok().and_then(|v| v.get(1).and_then(|x| x.as_str()).map(Hx::from_hex));
                checked += 1;
                if got.as_ref() != Some(&want) { fails.push(json!({"what": "C19: current-txid helper at an explicit height does not follow the activation height", "case": {"network": cfg.network, "height": hgt, "got": format!("{:?}", got), "want": want.hex0x()}})); }
            }
        }
        // eth_callMany: the probe action, then reads of what it stored in the same batch (the journal is
        // shared); several calls of one sender, per-index txids
        let who = addr_of(rng.below(4) as usize);
        let other = addr_of(3);
        let mut calls = vec![Ti { from: who, to: Some(probes[0]), data: cd::context() }];
        for i in 0..sim::CTX_SLOTS { calls.push(Ti { from: if i % 3 == 2 { other } else { who }, to: Some(probes[0]), data: cd::sload(alloy::primitives::U256::from(sim::SLOT_CTX + i)) }); }
        let ids: Vec<Hx> = (0..3).map(|_| rnd_hash(rng)).collect();
        let number = d.next;
        let lo = envs::now_secs();
        let (r, ss) = d.eth_call_many(&calls, Some(&ids), None);
        let hi = envs::now_secs();
        checked += 1;
        match r.as_ref().ok().and_then(|v| v.as_array().cloned()) {
            Some(outs) if outs.len() == calls.len() => {
                let word = |i: usize| Hx::from_hex(outs[1 + i].as_str().unwrap_or(""));
                let prague = cfg.prague_at(number);
                let bh = |n: Option<u64>| n.and_then(|n| d.hashes.get(&n).cloned()).unwrap_or(Hx::zero32());
                let mut pad = vec![0u8; 12]; pad.extend_from_slice(who.as_slice());
                let tsw = word(1).0.get(24..32).map(|s| u64::from_be_bytes(s.try_into().unwrap_or([0; 8]))).unwrap_or(0);
                let want: Vec<(&str, bool)> = vec![
                    ("NUMBER", word(0) == Hx::n32(number)), ("TIMESTAMP", tsw >= lo && tsw <= hi), ("PREVRANDAO", word(2).is_zero()),
                    ("CHAINID", word(3) == Hx::n32(cfg.chain_id)), ("BASEFEE", word(4).is_zero()), ("GASPRICE", word(5).is_zero()), ("COINBASE", word(6).is_zero()),
                    ("CALLER", word(7) == Hx(pad.clone())), ("ORIGIN", word(8) == Hx(pad.clone())),
                    ("BLOCKHASH(n-1)", word(9) == bh(number.checked_sub(1))), ("BLOCKHASH(n-2)", word(10) == bh(number.checked_sub(2))),
                    ("getTxId()", word(11) == if prague { ids[0].clone() } else { Hx::zero32() }),
                ];
                for (name, ok) in want {
                    checked += 1;
                    if !ok { fails.push(json!({"what": format!("C19: {} seen by a simulated call (eth_callMany) differs from the supplied context", name), "case": {"network": cfg.network, "height": number, "outputs": outs, "ids": ids.iter().map(|h| h.hex0x()).collect::<Vec<_>>()}})); }
                }
            }
            _ => fails.push(json!({"what": "C19: eth_callMany of the probe batch failed", "case": {"network": cfg.network, "answer": format!("{:?}", r), "samples": ss.len()}})),
        }

        // --- a reorg now and then: rebuild with other hashes, the probe must see the new ones ---
        if round % 3 == 2 && d.next > cfg.genesis_height + 4 {
            let back = rng.range(1, 3);
            let target = d.next - 1 - back;
            let r = d.reorg(target);
            if r.is_err() { fails.push(json!({"what": "C19: reorg inside the window refused", "case": {"network": cfg.network, "target": target, "answer": format!("{:?}", r)}})); }
            ts += 600;
            let hn = rnd_hash(rng);
            let txid = rnd_hash(rng);
            let _ = d.mine(1, ts);
            let number = d.next;
            let (r, _) = d.call(pk(1), Some(probes[1]), Some(&cd::context()), big, &txid, ts, &hn);
            if r.is_ok() {
                check_probe(&mut d, probes[1], &Expect { number, ts, hash: hn.clone(), caller: addr_of(1), origin: addr_of(1), txid }, "after a reorg", fails, &mut checked);
            } else {
                // the probe contracts may have been deployed above the reorg target
                let gone = d.code(probes[1]).map(|c| c.0.is_empty()).unwrap_or(true);
                if !gone { fails.push(json!({"what": "C19: probe call after reorg failed", "case": {"answer": format!("{:?}", r)}})); }
            }
            let _ = d.finalise(ts, &hn);
        }
    }
    stats.insert(format!("final_height_{}", cfg.network), json!(d.next - 1));
    // merge this scenario's cases
    let base = all.terms.len();
    for (i, t) in d.cases.terms.iter().enumerate() {
        // renumber: the id is the first argument after the constructor name
        let mut parts = t.splitn(3, ' ');
        let (c, _old, rest) = (parts.next().unwrap_or(""), parts.next(), parts.next().unwrap_or(""));
        all.terms.push(format!("{} {} {}", c, base + i, rest));
        let mut j = d.cases.jsonl[i].clone();
        j["id"] = json!(base + i);
        j["network"] = json!(cfg.network);
        all.jsonl.push(j);
    }
    for (k, v) in &d.cases.by_kind { *all.by_kind.entry(format!("{}/{}", cfg.network, k)).or_insert(0) += v; }
    for p in d.cases.problems.drain(..) { fails.push(p); }
    checked
}

/// BLOCKHASH over the whole 256-block window: a chain of 300 blocks (mined, part committed, part not), a
/// contract that stores BLOCKHASH(NUMBER - d) at slot d, called for d at and around the edges; read back
/// with eth_getStorageAt and compared with the hashes of the finalised blocks.
fn blockhash_window(rng: &mut Rng, fails: &mut Vec<Value>) -> u64 {
    let cfg = NetCfg::regtest();
    let mut d = Drv::new(cfg.clone());
    d.record_cases = false;
    let t0 = 1_700_000_000u64;
    let _ = d.initialise(&Hx::zero32(), t0);
    if d.next != cfg.genesis_height + 1 { fails.push(json!({"what": "C19: brc20_initialise did not create genesis", "case": {}})); return 0; }
    // runtime: d = calldata[0..32]; sstore(d, blockhash(number - d))
    let runtime = vec![0x5f, 0x35, 0x80, 0x43, 0x03, 0x40, 0x90, 0x55, 0x00];
    let h = rnd_hash(rng);
    let (r, _) = d.deploy(PKSCRIPTS[0], &sim::init_returning(&runtime), 400, &rnd_hash(rng), t0 + 600, &h);
    let Some(probe) = r.ok().and_then(|v| v.get("contractAddress").and_then(|a| a.as_str()).map(|s| Hx::from_hex(s).to_address())) else {
        fails.push(json!({"what": "C19: BLOCKHASH probe deployment failed", "case": {"history": d.log.clone()}})); return 0;
    };
    let _ = d.finalise(t0 + 600, &h);
    let mut checked = 0u64;
    let mut ts = t0 + 1200;
    // 150 blocks, commit, 150 more uncommitted: the window spans committed and uncommitted rows
    let _ = d.mine(150, ts); let _ = d.commit(); ts += 600;
    let _ = d.mine(150, ts); ts += 600;
    for phase in ["uncommitted tail", "after commit"] {
        let number = d.next;
        let hb = maybe_zero_hash(rng);
        let dists: Vec<u64> = vec![1, 2, 3, 128, 149, 150, 151, 255, 256, 257, 300, number, number + 1];
        for dist in &dists {
            let _ = d.call(PKSCRIPTS[1], Some(probe), Some(&alloy::primitives::U256::from(*dist).to_be_bytes::<32>()), 100, &rnd_hash(rng), ts, &hb);
        }
        let _ = d.finalise(ts, &hb);
        for dist in &dists {
            let want = if *dist >= 1 && *dist <= 256 && *dist <= number { d.hashes.get(&(number - dist)).cloned().unwrap_or(Hx::zero32()) } else { Hx::zero32() };
            let got = d.storage(probe, *dist);
            checked += 1;
            if got != want {
                fails.push(json!({"what": format!("C19: BLOCKHASH(NUMBER - {}) seen by a transaction at height {} ({}) is not the hash of that finalised block (zero beyond the 256-block window)", dist, number, phase),
                    "case": {"distance": dist, "height": number, "got": got.hex0x(), "want": want.hex0x(), "history_tail": d.log.iter().rev().take(6).collect::<Vec<_>>()}}));
            }
        }
        let _ = d.commit();
        ts += 600;
    }
    checked
}

pub fn run(out: &Path, seed: u64, thorough: bool) -> Result<(), Box<dyn std::error::Error>> {
    let t0 = Instant::now();
    let mut rng = Rng::new(seed ^ 0xC19);
    let (pm, ps, _, _) = brc20_prog::verif_hooks::verif_fork_heights();
    let rounds = if thorough { 18 } else { 5 };
    let mut fails: Vec<Value> = vec![];
    let mut all = envs::Cases::default();
    let mut stats = serde_json::Map::new();
    let mut checked = 0;
    let reps = if thorough { 3 } else { 1 };
    for rep in 0..reps {
        let mut cfgs = vec![NetCfg::regtest(), NetCfg::signet(0), NetCfg::mainnet(0)];
        // crossing the activation height: signet in every run, mainnet (923k empty blocks first) in the thorough tier
        if rep == 0 { cfgs.push(NetCfg::signet(ps.saturating_sub(6))); }
        if rep == 0 && thorough { cfgs.push(NetCfg::mainnet(pm.saturating_sub(7))); }
        for cfg in cfgs {
            checked += scenario(cfg, &mut rng, rounds, &mut fails, &mut all, &mut stats);
        }
    }
    checked += blockhash_window(&mut rng, &mut fails);
    let shards = (all.terms.len() / 20).max(1).min(16);
    let files = cf::write_shards(out, "c19_env", envs::TIE_IMPORTS, "ecase", envs::TIE_EVAL, &all.terms, shards)?;
    let mut jl = String::new();
    for j in &all.jsonl { jl.push_str(&j.to_string()); jl.push('\n'); }
    std::fs::write(out.join("c19_cases.jsonl"), jl)?;
    fails.truncate(40);
    let meta = json!({
        "files": files,
        "evaluations": all.terms.len() as u64 + checked,
        "distinct_nontrivial": all.terms.len(),
        "rule": "environment samples: every BlockEnv/CfgEnv/TxEnv captured by the hook at add_tx_to_block / read_contract / read_contract_multi must equal what Model/Env.v computes from the inputs of the call (TieEnv.bad_env_cases = []); probe contract: every context opcode and the current-txid helper's answer stored by the contract, read back with eth_getStorageAt, must equal what the harness supplied",
        "samples": all.jsonl.iter().take(3).cloned().collect::<Vec<_>>(),
        "impl_failures": fails,
        "env_cases_by_network_and_kind": all.by_kind,
        "probe_slot_checks": checked,
        "networks": ["regtest", "signet from 0 (Cancun)", "mainnet from 0 (Cancun)", format!("signet from {} (crosses the Prague activation)", ps.saturating_sub(6)), format!("thorough: mainnet from {}", pm.saturating_sub(7))],
        "stats": stats,
        "harness_seconds": t0.elapsed().as_secs_f64(),
    });
    std::fs::write(out.join("c19_meta.json"), serde_json::to_string_pretty(&meta)?)?;
    Ok(())
}

/// Ad-hoc experiments on the real engine (`hx envprobe --what NAME`), used for timings and for
/// the demonstrations quoted in docs/C16_C17_C19_notes.md.
pub fn probe(args: &[String]) -> Result<(), Box<dyn std::error::Error>> {
    let what = args.iter().position(|a| a == "--what").and_then(|i| args.get(i + 1).cloned()).unwrap_or_default();
    match what.as_str() {
        "mine" => {
            let n: u64 = args.iter().position(|a| a == "--n").and_then(|i| args.get(i + 1)).and_then(|s| s.parse().ok()).unwrap_or(10_000);
            let mut d = Drv::new(NetCfg::signet(0));
            let t = Instant::now();
            let r = d.mine(n, 1_700_000_000);
            println!("mine({}) -> {:?} in {:?}; height {}", n, r.is_ok(), t.elapsed(), d.block_number());
            let t = Instant::now();
            let r = d.commit();
            println!("commit -> {:?} in {:?}", r.is_ok(), t.elapsed());
        }
        "estimate-overflow" => {
            // EVM_CALL_GAS_LIMIT = u64::MAX: the first midpoint (21000 + u64::MAX) / 2 does not fit
            let mut cfg = NetCfg::regtest();
            cfg.cap = u64::MAX;
            let mut d = Drv::new(cfg);
            let _ = d.initialise(&Hx::zero32(), 1_700_000_000);
            let to = Address::from_slice(&[0x77; 20]);
            let (r, ss) = d.estimate_gas(Some(sim::pkscript_address(PKSCRIPTS[0])), Some(to), &[1, 2, 3]);
            println!("eth_estimateGas with evm_call_gas_limit = u64::MAX -> {:?} after {} simulated runs", r, ss.len());
        }
        "explicit-height" => {
            let mut d = Drv::new(NetCfg::regtest());
            let _ = d.initialise(&Hx::zero32(), 1_700_000_000);
            let z = Hx::zero32();
            let (r, _) = d.deploy(PKSCRIPTS[0], &sim::multitool_init(), 400, &z, 1_700_000_600, &z);
            let tool = Hx::from_hex(r.unwrap()["contractAddress"].as_str().unwrap()).to_address();
            let _ = d.finalise(1_700_000_600, &z);
            for (i, v) in [(0u64, 5u64), (1, 6)] {
                let _ = d.call(PKSCRIPTS[0], Some(tool), Some(&cd::sstore(alloy::primitives::U256::from(1), alloy::primitives::U256::from(v))), 50, &z, 1_700_001_200 + 600 * i, &z);
                let _ = d.finalise(1_700_001_200 + 600 * i, &z);
            }
            println!("slot 1 := 5 in block 2, := 6 in block 3; height now {}", d.block_number());
            let me = sim::pkscript_address(PKSCRIPTS[0]);
            for b in [None, Some("pending"), Some("latest"), Some("0x2"), Some("0x1")] {
                let calls = vec![Ti { from: me, to: Some(tool), data: cd::context() }, Ti { from: me, to: Some(tool), data: cd::sload(alloy::primitives::U256::from(sim::SLOT_CTX)) },
                                 Ti { from: me, to: Some(tool), data: cd::sload(alloy::primitives::U256::from(1)) }];
                let (r, ss) = d.eth_call_many(&calls, None, b.map(|x| (x.to_string(), 0)));
                let v = r.unwrap_or(Value::Null);
                println!("eth_callMany block={:?}: NUMBER seen = {}, slot 1 = {}, nonce used = {}", b, envs::hexu(&json!(v[1].as_str().unwrap_or("").trim_start_matches("0x").trim_start_matches('0'))),
                    envs::hexu(&json!(v[2].as_str().unwrap_or("").trim_start_matches("0x").trim_start_matches('0'))), ss.first().map(|s| s.env["tx"]["nonce"].clone()).unwrap_or(Value::Null));
            }
            println!("account nonce now {}", d.nonce(me));
        }
        "f14" => {
            // allowance below the intrinsic gas: revm refuses the transaction
            let mut d = Drv::new(NetCfg::regtest());
            let _ = d.initialise(&Hx::zero32(), 1_700_000_000);
            let z = Hx::zero32();
            let me = sim::pkscript_address(PKSCRIPTS[0]);
            let to = Address::from_slice(&[0x77; 20]);
            for k in 0..2 {
                let n0 = d.nonce(me);
                let (r, ss) = d.call(PKSCRIPTS[0], Some(to), Some(&[9, 9]), 1, &z, 1_700_000_600, &z);
                let v = r.unwrap_or(Value::Null);
                println!("call #{} with byte_len 1: status {} gasUsed {} txHash {} idx {}; revm said {:?}; nonce {} -> {}", k, v["status"], v["gasUsed"], v["transactionHash"], v["transactionIndex"],
                    ss.first().map(|s| s.result["reason"].clone()), n0, d.nonce(me));
            }
            let (r, _) = d.rpc("eth_getBlockTransactionCountByNumber", json!(["pending"]));
            println!("finalise with 2 -> {:?}; block 1 tx count {:?}", d.finalise(1_700_000_600, &z).is_ok(), r);
            let (r, _) = d.rpc("eth_getBlockByNumber", json!(["0x1", false]));
            println!("block 1 transactions: {}", r.unwrap_or(Value::Null)["transactions"]);
        }
        "genesis-high" => {
            let mut d = Drv::new(NetCfg::signet(5));
            let (r, ss) = d.rpc("brc20_initialise", json!([Hx::zero32().hex0x(), 1_700_000_000u64, 5]));
            println!("brc20_initialise(height 5) on an empty database -> {:?}; executions {}", r, ss.len());
            let (r, _) = d.rpc("brc20_commitToDatabase", json!([]));
            println!("commit afterwards -> {:?}", r);
            let (r, _) = d.rpc("eth_getCode", json!([format!("0x{}", sim::CONTROLLER)]));
            println!("controller code present: {:?}", r.map(|v| v.as_str().map(|s| s.len() > 2)));
        }
        _ => println!("unknown probe"),
    }
    Ok(())
}
