//! C09 -- no request can crash, hang or wedge the server.
//!
//! (a) component tie: generated inputs for every function of Model/Requests.v; the real
//!     function's outcome (through the real JSON-RPC method table, `sim::Inst::rpc`, or a direct
//!     call under `catch_unwind` where the function is exported) goes into Coq case files and is
//!     compared with the model's by Model/Tie09.v.
//! (b) implementation-level search: a malformed-request stream over every registered method,
//!     arbitrary bytes as init code / runtime code / call data, calls into the precompiles with
//!     ABI-valid and invalid data and Bitcoin-transaction overrides. Every request is followed
//!     by a liveness probe (reads + one write round); a panic, a hang or a failed probe is an
//!     `impl_failure`.
//!
//! The stream runs in worker processes (`hx c09-stream`): a hung request cannot be cancelled, the
//! worker records it and exits, the parent restarts it behind the offending case. In the
//! thorough tier the parent also builds the release profile (overflow checks off) and runs the
//! same stream there.
use std::collections::BTreeMap;
use std::io::Write as _;
use std::panic::{catch_unwind, AssertUnwindSafe};
use std::path::{Path, PathBuf};
use std::time::{Duration, Instant};

use alloy::primitives::{Address, Bytes, B256, U256};
use alloy::sol_types::{sol, SolCall};
use base64::prelude::BASE64_STANDARD_NO_PAD;
use base64::Engine as _;
use brc20_prog::verif_hooks as vh;
use serde_json::{json, Value};

use crate::coqfmt as cf;
use crate::rng::Rng;
use crate::sim::{self, cd, Inst, RpcFail};

type R<T> = Result<T, Box<dyn std::error::Error>>;

pub const PC_BIP322: &str = "0x00000000000000000000000000000000000000fe";
pub const PC_TXDETAILS: &str = "0x00000000000000000000000000000000000000fd";
pub const PC_LASTSAT: &str = "0x00000000000000000000000000000000000000fc";
pub const PC_LOCKED: &str = "0x00000000000000000000000000000000000000fb";
pub const PC_OPRETURN: &str = "0x00000000000000000000000000000000000000fa";

sol! {
    function getLockedPkscript(bytes pkscript, uint256 lock_block_count) returns (bytes locked_pkscript);
    function getTxDetails(bytes32 txid) returns (uint256 block_height, bytes32[] vin_txids, uint256[] vin_vouts , bytes[] vin_scriptPubKeys, uint256[] vin_values, bytes[] vout_scriptPubKeys, uint256[] vout_values);
    function getLastSatLocation(bytes32 txid, uint256 vout, uint256 sat) returns (bytes32 last_txid, uint256 last_vout, uint256 last_sat, bytes old_pkscript, bytes new_pkscript);
    function verify(bytes pkscript, bytes message, bytes signature) returns (bool success);
    function getTxId() returns (bytes32);
}

const PK: &str = "5120e0e224cd541454519b62047aa0891ea7b81a16598556aeb83a412a0b06a20aab";
const TS: u64 = 1_700_000_000;

fn hx0(b: &[u8]) -> String { format!("0x{}", hex::encode(b)) }
fn h32(x: u64) -> String { format!("0x{:064x}", x) }

// ------------------------------------------------------------------------------------------
// outcome of one request
// ------------------------------------------------------------------------------------------

#[derive(Clone, Debug, PartialEq)]
pub enum Out { Ok(Value), Err(i64, String), Panic(String), Hang }
impl Out {
    fn of(r: Result<Value, RpcFail>) -> Out {
        match r {
            Ok(v) => Out::Ok(v),
            Err(RpcFail::Err { code, message }) => Out::Err(code, message),
            Err(RpcFail::Panic(m)) => Out::Panic(m),
            Err(RpcFail::Hang) => Out::Hang,
        }
    }
    /// 0 = Ok, 1 = Err, 2 = Panic, 3 = Hang
    fn class(&self) -> u64 { match self { Out::Ok(_) => 0, Out::Err(..) => 1, Out::Panic(_) => 2, Out::Hang => 3 } }
    fn class_name(&self) -> &'static str { ["Ok", "Err", "Panic", "Hang"][self.class() as usize] }
    fn brief(&self) -> String {
        match self {
            Out::Ok(v) => { let s = v.to_string(); format!("Ok {}", if s.len() > 120 { format!("{}..({}B)", &s[..120.min(s.len())], s.len()) } else { s }) }
            Out::Err(c, m) => format!("Err {} {}", c, if m.len() > 160 { &m[..160] } else { m }),
            Out::Panic(m) => format!("Panic {}", m),
            Out::Hang => "Hang".into(),
        }
    }
    fn is_fatal(&self) -> bool { matches!(self, Out::Panic(_) | Out::Hang) }
    /// the environment fault that is out of scope: no Bitcoin node behind the configured URL
    fn is_env(&self) -> bool { matches!(self, Out::Panic(m) if m.starts_with("Bitcoin RPC unreachable")) }
}

// ------------------------------------------------------------------------------------------
// an engine in a known state + the liveness probe
// ------------------------------------------------------------------------------------------

pub struct Eng {
    pub inst: Inst,
    /// address of the multi-tool contract (empty on an `empty` engine)
    pub tool: String,
    pub tool_insc: String,
    /// a transaction hash / block hash that exist
    pub tx_hash: String,
    pub block1_hash: String,
    pub empty: bool,
    pub requests: u64,
}

fn tail(idx: u64, insc: &str, byte_len: u64) -> Value { json!([TS, h32(0), idx, insc, byte_len, h32(0)]) }

impl Eng {
    /// engine on an empty database
    pub fn empty() -> Eng {
        Eng { inst: Inst::temp(), tool: String::new(), tool_insc: String::new(), tx_hash: h32(0), block1_hash: h32(0), empty: true, requests: 0 }
    }

    /// initialised engine: controller deployed (block 0), multi-tool deployed and used (storage, logs,
    /// a created child) in block 1, 13 more blocks, all committed
    pub fn standard() -> R<Eng> {
        let mut e = Eng::empty();
        e.empty = false;
        let must = |e: &mut Eng, m: &str, p: Value| -> R<Value> {
            match e.inst.rpc(m, p.clone()) { Ok(v) => Ok(v), Err(f) => Err(format!("standard state: {} {} answered {:?}", m, p, f).into()) }
        };
        // the Bitcoin node is absent: initialise deploys and finalises, then reports the node as unreachable
        let _ = e.inst.rpc("brc20_initialise", json!([h32(0), TS, 0]));
        let rec = must(&mut e, "brc20_deploy", json!([PK, hx0(&sim::multitool_init()), null, TS, h32(0), 0, "c09_tool_i0", 100000, h32(0)]))?;
        e.tool = rec["contractAddress"].as_str().ok_or("no contractAddress")?.to_string();
        e.tool_insc = "c09_tool_i0".into();
        e.tx_hash = rec["transactionHash"].as_str().ok_or("no transactionHash")?.to_string();
        e.block1_hash = rec["blockHash"].as_str().ok_or("no blockHash")?.to_string();
        let calls: Vec<Vec<u8>> = vec![
            cd::sstore(U256::from(7u64), U256::from(0xC09u64)),
            cd::log(&[U256::from(1u64), U256::from(2u64)], U256::from(3u64)),
            cd::create(),
        ];
        for (i, c) in calls.iter().enumerate() {
            let tool = e.tool.clone();
            must(&mut e, "brc20_call", json!([PK, tool, null, hx0(c), null, TS, h32(0), 1 + i as u64, format!("c09_call_i{}", i), 100000, h32(0)]))?;
        }
        must(&mut e, "brc20_finaliseBlock", json!([TS, h32(0), 4]))?;
        // everything committed and more than the reorg window above the block the probe's canary lives in
        must(&mut e, "brc20_mine", json!([13, TS]))?;
        must(&mut e, "brc20_commitToDatabase", json!([]))?;
        Ok(e)
    }

    pub fn rpc(&mut self, m: &str, p: Value) -> Out { self.requests += 1; Out::of(self.inst.rpc(m, p)) }

    fn height(&mut self) -> Result<u64, String> {
        match self.rpc("eth_blockNumber", json!([])) {
            Out::Ok(Value::String(s)) => u64::from_str_radix(s.trim_start_matches("0x"), 16).map_err(|e| format!("eth_blockNumber answered {}: {}", s, e)),
            o => Err(format!("eth_blockNumber: {}", o.brief())),
        }
    }

    /// The liveness probe. Reads: eth_blockNumber, eth_getBlockByNumber(that height), the value the
    /// standard state stored (through the EVM: read_contract takes the store out of its slot).
    /// Write round: brc20_mine(1) (after brc20_clearCaches if the request left a block open), and the
    /// height must have advanced by exactly one.
    pub fn probe(&mut self) -> Result<(), String> {
        let h = self.height()?;
        let has_genesis = match self.rpc("eth_getBlockByNumber", json!([format!("0x{:x}", h), false])) {
            Out::Ok(b) => {
                if b["number"].as_str().map(|s| s.to_lowercase()) != Some(format!("0x{:x}", h)) { return Err(format!("eth_getBlockByNumber({}) answered block {}", h, b["number"])); }
                true
            }
            Out::Err(_, m) if m.contains("Block not found") && h == 0 => false,
            o => return Err(format!("eth_getBlockByNumber({}): {}", h, o.brief())),
        };
        // a request may leave a block open (a transaction-carrying indexer call that succeeded): reads
        // through the EVM then wait for it (5 s, by design); the indexer's way out is brc20_clearCaches
        let waiting = match self.rpc("verif_probe", json!({})) { Out::Ok(v) => v["waiting"].as_u64().unwrap_or(0), o => return Err(format!("verif_probe: {}", o.brief())) };
        if waiting != 0 {
            match self.rpc("brc20_clearCaches", json!([])) { Out::Ok(_) => {}, o => return Err(format!("brc20_clearCaches: {}", o.brief())) }
        }
        if !self.empty {
            if !has_genesis { return Err("block 0 disappeared".into()); }
            let want = format!("0x{:064x}", 0xC09u64);
            match self.rpc("eth_call", json!([{"to": self.tool, "data": hx0(&cd::sload(U256::from(7u64)))}, "latest"])) {
                Out::Ok(Value::String(s)) if s == want => {}
                o => return Err(format!("canary eth_call: {}", o.brief())),
            }
        }
        // write round
        let mut h0 = self.height()?;
        let mut mined = self.rpc("brc20_mine", json!([1, TS]));
        if let Out::Err(_, m) = &mined {
            if m.contains("waiting txes") {
                match self.rpc("brc20_clearCaches", json!([])) { Out::Ok(_) => {}, o => return Err(format!("brc20_clearCaches: {}", o.brief())) }
                h0 = self.height()?;
                mined = self.rpc("brc20_mine", json!([1, TS]));
            }
        }
        match mined { Out::Ok(_) => {}, o => return Err(format!("brc20_mine(1): {}", o.brief())) }
        let h1 = self.height()?;
        let want = if !has_genesis && h0 == 0 { 0 } else { h0 + 1 };
        if h1 != want { return Err(format!("height after brc20_mine(1) is {}, expected {}", h1, want)); }
        Ok(())
    }
}

// ------------------------------------------------------------------------------------------
// development probe: hx c09-probe --file requests.json   ([{"state":"std|empty","method":..,"params":..}])
// ------------------------------------------------------------------------------------------

pub fn probe_main(args: &[String]) -> R<()> {
    let file = args.iter().position(|a| a == "--file").and_then(|i| args.get(i + 1)).ok_or("--file")?;
    let reqs: Vec<Value> = serde_json::from_str(&std::fs::read_to_string(file)?)?;
    let mut eng: Option<Eng> = None;
    for r in reqs {
        let state = r["state"].as_str().unwrap_or("std");
        if eng.is_none() || r["fresh"].as_bool().unwrap_or(false) || eng.as_ref().map(|e| e.empty != (state == "empty")).unwrap_or(false) {
            eng = Some(if state == "empty" { Eng::empty() } else { Eng::standard()? });
        }
        let e = eng.as_mut().unwrap();
        let mut p = r["params"].clone();
        subst(&mut p, e);
        let t = Instant::now();
        let o = e.rpc(r["method"].as_str().unwrap_or(""), p);
        let dt = t.elapsed();
        let live = e.probe();
        println!("{} {} -> {}   [{:?}] probe: {:?}", r["method"], r["note"], o.brief(), dt, live);
        if live.is_err() { eng = None; }
    }
    Ok(())
}

/// "$TOOL", "$TX", "$BLOCK1" placeholders in probe files
fn subst(v: &mut Value, e: &Eng) {
    match v {
        Value::String(s) => {
            if s == "$TOOL" { *s = e.tool.clone(); } else if s == "$TX" { *s = e.tx_hash.clone(); } else if s == "$BLOCK1" { *s = e.block1_hash.clone(); }
        }
        Value::Array(a) => for x in a { subst(x, e); },
        Value::Object(o) => for (_, x) in o.iter_mut() { subst(x, e); },
        _ => {}
    }
}


// ------------------------------------------------------------------------------------------
// Bitcoin transactions for the bitcoinTxHexes override (legacy serialisation, written by hand)
// ------------------------------------------------------------------------------------------

fn varint(n: u64, out: &mut Vec<u8>) {
    if n < 0xfd { out.push(n as u8) } else if n <= 0xffff { out.push(0xfd); out.extend_from_slice(&(n as u16).to_le_bytes()) }
    else if n <= 0xffff_ffff { out.push(0xfe); out.extend_from_slice(&(n as u32).to_le_bytes()) }
    else { out.push(0xff); out.extend_from_slice(&n.to_le_bytes()) }
}
/// inputs: (previous txid in serialisation order, vout); outputs: (value, script)
pub fn btc_tx(ins: &[([u8; 32], u32)], outs: &[(u64, Vec<u8>)]) -> Vec<u8> {
    let mut b = 2u32.to_le_bytes().to_vec();
    varint(ins.len() as u64, &mut b);
    for (t, v) in ins { b.extend_from_slice(t); b.extend_from_slice(&v.to_le_bytes()); varint(0, &mut b); b.extend_from_slice(&[0xff; 4]); }
    varint(outs.len() as u64, &mut b);
    for (val, sc) in outs { b.extend_from_slice(&val.to_le_bytes()); varint(sc.len() as u64, &mut b); b.extend_from_slice(sc); }
    b.extend_from_slice(&[0u8; 4]);
    b
}
/// key under which the precompiles look a previous transaction up: the txid bytes reversed
fn rev32(t: &[u8; 32]) -> [u8; 32] { let mut r = *t; r.reverse(); r }
fn pd(op_returns: &[String], txs: &[([u8; 32], Vec<u8>)]) -> Value {
    let mut m = serde_json::Map::new();
    for (k, v) in txs { m.insert(hx0(k), json!(hx0(v))); }
    json!({"opReturnTxIds": op_returns, "bitcoinTxHexes": Value::Object(m)})
}

// ------------------------------------------------------------------------------------------
// the stream
// ------------------------------------------------------------------------------------------

#[derive(Clone, Debug, PartialEq)]
pub enum St { Std, Empty }

#[derive(Clone, Debug)]
pub struct Case {
    pub id: u64,
    pub st: St,
    pub kind: String,
    pub method: String,
    pub params: Value,
    /// start from a fresh engine (the case depends on the exact height / an untouched store)
    pub fresh: bool,
    /// the request is expected to need the absent Bitcoin node (5 retries of 1 s, then the
    /// documented "Bitcoin RPC unreachable" panic): environment fault, out of scope
    pub env: bool,
}

struct Cases { v: Vec<Case> }
impl Cases {
    fn add(&mut self, st: St, kind: &str, method: &str, params: Value) -> &mut Case {
        let id = self.v.len() as u64;
        self.v.push(Case { id, st, kind: kind.to_string(), method: method.to_string(), params, fresh: false, env: false });
        self.v.last_mut().unwrap()
    }
    fn std(&mut self, kind: &str, method: &str, params: Value) -> &mut Case { self.add(St::Std, kind, method, params) }
    fn empty(&mut self, kind: &str, method: &str, params: Value) -> &mut Case { let c = self.add(St::Empty, kind, method, params); c.fresh = true; c }
}

/// parameter types of the registered methods (positional)
#[derive(Clone, Copy, Debug, PartialEq)]
enum T { U64, OptU64, Pk, Str, Tag, OptTag, HashOrNum, Hash32, Addr, OptAddr, Big, OptStr, OptRaw, OptB64, Raw, OptBool, Call, Calls, OptPd, Filter }

fn schema(m: &str) -> Option<Vec<T>> {
    use T::*;
    Some(match m {
        "brc20_version" | "brc20_commitToDatabase" | "brc20_clearCaches" | "eth_blockNumber" | "eth_chainId"
        | "eth_maxPriorityFeePerGas" | "eth_blobBaseFee" | "net_version" | "web3_clientVersion" | "eth_accounts"
        | "eth_gasPrice" | "eth_syncing" | "txpool_content" => vec![],
        "brc20_mine" => vec![U64, U64],
        "brc20_deploy" => vec![Pk, OptRaw, OptB64, U64, Hash32, U64, Str, U64, Hash32],
        "brc20_call" => vec![Pk, OptAddr, OptStr, OptRaw, OptB64, U64, Hash32, U64, Str, U64, Hash32],
        "brc20_transact" => vec![OptRaw, OptB64, U64, Hash32, U64, Str, U64, Hash32],
        "brc20_deposit" | "brc20_withdraw" => vec![Pk, Str, Big, U64, Hash32, U64, Str],
        "brc20_balance" => vec![Pk, Str],
        "brc20_initialise" => vec![Hash32, U64, U64],
        "brc20_getTxReceiptByInscriptionId" => vec![Str],
        "brc20_getInscriptionIdByTxHash" | "eth_getBlockTransactionCountByHash" | "eth_getTransactionReceipt"
        | "debug_traceTransaction" | "eth_getTransactionByHash" | "eth_getUncleCountByBlockHash" => vec![Hash32],
        "brc20_getInscriptionIdByContractAddress" | "eth_getCode" | "txpool_contentFrom" => vec![Addr],
        "brc20_finaliseBlock" => vec![U64, Hash32, U64],
        "brc20_reorg" | "eth_getUncleCountByBlockNumber" => vec![U64],
        "eth_getBlockByNumber" => vec![Tag, OptBool],
        "eth_getBlockByHash" => vec![Hash32, OptBool],
        "eth_getTransactionCount" | "eth_getBalance" => vec![Addr, Tag],
        "eth_getBlockTransactionCountByNumber" | "debug_getBlockTraceString" | "debug_getBlockTraceHash" => vec![Tag],
        "eth_getLogs" => vec![Filter],
        "eth_call" | "eth_estimateGas" => vec![Call, OptTag],
        "eth_callMany" | "eth_estimateGasMany" => vec![Calls, OptTag, OptPd],
        "eth_getStorageAt" => vec![Addr, Big],
        "eth_getTransactionByBlockNumberAndIndex" | "eth_getUncleByBlockNumberAndIndex" => vec![U64, OptU64],
        "eth_getTransactionByBlockHashAndIndex" | "eth_getUncleByBlockHashAndIndex" => vec![Hash32, OptU64],
        "web3_sha3" => vec![Raw],
        "debug_getRawHeader" | "debug_getRawBlock" | "debug_getRawReceipts" => vec![HashOrNum],
        _ => return None,
    })
}

pub const BOUNDARY_U64: [u64; 14] = [0, 1, 2, 255, 65535, 65536, (1 << 31) - 1, 1 << 31, (1 << 32) - 1, 1 << 32, (1u64 << 53) + 1, (1u64 << 63) - 1, 1u64 << 63, u64::MAX - 1];

/// strings offered wherever a block number / tag is expected
pub fn tag_strings() -> Vec<String> {
    let mut v: Vec<String> = ["latest", "safe", "finalized", "pending", "earliest", "LATEST", "Latest", "latest ", " latest", "", " ", "0", "1", "5", "007",
        "+1", "-1", "-0", "+", "-", "++1", "1_000", "1e3", "1.0", "0x", "0x0", "0x1", "0x5", "0X5", "0x+5", "0x-5", "0x+", "0x-", "0x 5", "0x5 ", "0xg",
        "0x0x5", "0xffffffffffffffff", "0xfffffffffffffffe", "0x10000000000000000", "0x00000000000000000000000000000005", "0xFFFFFFFFFFFFFFFF",
        "18446744073709551615", "18446744073709551614", "18446744073709551616", "99999999999999999999999999", "0b101", "0o7", "foo", "null", "\u{0}", "0x\u{0}",
        "\u{e9}", "0x\u{e9}", "0\u{e9}", "0x\u{20ac}", "0x5\u{20ac}", "0\u{78}\u{301}5", "\u{ff10}\u{ff58}\u{ff15}", "\u{661}", "0x\u{1f600}", "\u{1f600}", "0\u{1f600}", "x", "0", "00x5",
        "\u{feff}5", "5\n", "\t5", "0x5\u{0}"].iter().map(|s| s.to_string()).collect();
    v.push(format!("0x{}", "0".repeat(300)));
    v.push(format!("0x{}5", "0".repeat(300)));
    v.push("9".repeat(300));
    v
}

fn junk_values() -> Vec<Value> {
    vec![Value::Null, json!(true), json!(0), json!(-1), json!(1.5), json!(1e308), json!(-9223372036854775808i64), json!(18446744073709551615u64),
        json!(""), json!("x"), json!("0x"), json!("\u{0}"), json!([]), json!([[]]), json!({}), json!({"a": {"b": []}}), json!([null, null]), json!("\u{1f600}\u{e9}")]
}

fn nested(depth: usize, obj: bool) -> Value {
    let mut v = Value::Null;
    for _ in 0..depth {
        v = if obj { let mut m = serde_json::Map::new(); m.insert("a".into(), v); Value::Object(m) } else { Value::Array(vec![v]) };
    }
    v
}

/// values offered at a position of type `t`: boundary, malformed and ill-typed ones
fn values_for(t: T, big: &str) -> Vec<Value> {
    use T::*;
    let mut v: Vec<Value> = vec![];
    let u64s = |v: &mut Vec<Value>| {
        for x in BOUNDARY_U64 { v.push(json!(x)); }
        v.push(json!(u64::MAX));
        for s in ["$H", "$H-1", "$H+1", "$H-10", "$H-11"] { v.push(json!(s)); }
        v.push(serde_json::from_str("18446744073709551616").unwrap());
        v.push(serde_json::from_str("1e19").unwrap());
        v.push(serde_json::from_str("340282366920938463463374607431768211456").unwrap());
        for x in [json!(-1), json!(0.5), json!(1.0), json!("5"), json!("0x5"), json!(true), json!([]), json!([5]), json!({}), Value::Null] { v.push(x); }
    };
    let hexes = |v: &mut Vec<Value>, n: usize| {
        for s in [format!("0x{}", "00".repeat(n)), format!("0x{}", "ff".repeat(n)), format!("0x{}", "Ab".repeat(n)), "ab".repeat(n), format!("0X{}", "ab".repeat(n)),
            format!("0x{}", "ab".repeat(n - 1)), format!("0x{}", "ab".repeat(n + 1)), format!("0x{}a", "ab".repeat(n - 1)), format!("0x{}", "zz".repeat(n)),
            "0x".to_string(), String::new(), "0".to_string(), format!("0x{}\u{e9}", "ab".repeat(n - 1)), format!(" 0x{}", "ab".repeat(n)), format!("0x0x{}", "ab".repeat(n - 1))] {
            v.push(json!(s));
        }
        for x in [json!(0), json!(-1), json!([]), json!({}), json!(true), Value::Null, json!(big)] { v.push(x); }
    };
    match t {
        U64 => u64s(&mut v),
        OptU64 => { u64s(&mut v); }
        Tag | OptTag | HashOrNum => {
            for s in tag_strings() { v.push(json!(s)); }
            if t == HashOrNum { for s in ["$BLOCK1", "\"$BLOCK1\"", "\"0x00\"", "\"", "\"\"", "[]", "{}", "nul", "null", "1e400", "[[[[[[[[[[[[[[[["] { v.push(json!(s)); } v.push(json!(format!("{}", "[".repeat(100000)))); v.push(json!(format!("\"{}", "\\".repeat(99999)))); }
            for x in [json!(0), json!(5), json!(-1), json!([]), json!({}), json!(true), Value::Null, json!(big)] { v.push(x); }
        }
        Hash32 => hexes(&mut v, 32),
        Addr | OptAddr => hexes(&mut v, 20),
        Big => {
            for s in ["0x0", "0x1", "0", "1", "0xffffffffffffffff", "0x10000000000000000", "115792089237316195423570985008687907853269984665640564039457584007913129639935",
                "115792089237316195423570985008687907853269984665640564039457584007913129639936", "0xffffffffffffffffffffffffffffffffffffffffffffffffffffffffffffffff",
                "0x10000000000000000000000000000000000000000000000000000000000000000", "", "0x", "-1", "+1", "1e3", "0b1", "0o7", "\u{e9}", "0x\u{e9}", " 1", "1 "] { v.push(json!(s)); }
            for x in [json!(0), json!(5), json!(u64::MAX), json!(-1), json!(1.5), json!([]), json!({}), json!(true), Value::Null, json!(big)] { v.push(x); }
            v.push(serde_json::from_str("18446744073709551616").unwrap());
        }
        Pk => {
            for s in [PK, "", "0", "00", "0x00", "zz", "51", "\u{e9}", "5120\u{e9}", " 5120", "0X51"] { v.push(json!(s)); }
            v.push(json!("ab".repeat(100000)));
            for x in [json!(0), json!([]), json!({}), Value::Null, json!(big)] { v.push(x); }
        }
        Str | OptStr => {
            for s in ["", "a", "ordi", "ORDI", "\u{0}", "\u{130}", "\u{df}\u{1e9e}", "\u{1f600}", "c09_tool_i0", "c09_call_i1", "nope", "a\u{301}", "\u{feff}", "i\u{307}", "\u{3a3}\u{3c2}"] { v.push(json!(s)); }
            for x in [json!(0), json!([]), json!({}), json!(true), Value::Null, json!(big)] { v.push(x); }
        }
        OptRaw | Raw => {
            for s in ["0x", "", "0x0", "0x00", "00", "0X00", "0xzz", "0x0g", "\u{e9}", "0x\u{e9}\u{e9}", "0x00 ", " 0x00", "0x0x00", "0x6000", "6000", "0xfe", "0xEF00",
                      // multi-byte characters straddling every small byte offset (a byte-indexed slice of the string panics inside one)
                      "\u{20ac}", "a\u{e9}", "0\u{20ac}1234", "\u{1f600}", "0\u{1f600}", "0x\u{20ac}", "0x0\u{e9}", "ab\u{1f600}", "\u{e9}\u{20ac}", "0X\u{e9}"] { v.push(json!(s)); }
            v.push(json!(format!("0x{}", "00".repeat(70000))));
            v.push(json!(format!("0x{}", "5b".repeat(500000))));
            for x in [json!(0), json!([]), json!([0, 1]), json!({}), json!(true), Value::Null, json!(big)] { v.push(x); }
        }
        OptB64 => {
            for s in ["", "=", "==", "A", "AA", "AA=", "AA==", "AAA", "AAAA", "AQ", "Ag", "Aw", "/w", "//8", "!!", "AA AA", "AA\nAA", "\u{e9}", "A\u{e9}==", "AA=\u{e9}", "=AAAA", "A=AA", "AQD/", "AQD/AA", "AQD//w", "Av///w", "AijEsvYgBA", "AAECAwQ"] { v.push(json!(s)); }
            for p in 0u8..=8 { v.push(json!(BASE64_STANDARD_NO_PAD.encode([p, 0x60, 0x00, 0x60, 0x00, 0xf3]))); v.push(json!(BASE64_STANDARD_NO_PAD.encode([p]))); }
            for p in [0x7fu8, 0x80, 0xfe, 0xff] { v.push(json!(BASE64_STANDARD_NO_PAD.encode([p, 1, 2, 3]))); }
            // zstd frames whose header declares an absurd content size (the size must not drive an allocation)
            for declared in [1u64 << 63, u64::MAX - 1, (1u64 << 62) + 12345] {
                let mut f: Vec<u8> = vec![2, 0x28, 0xB5, 0x2F, 0xFD, 0xE0];
                f.extend_from_slice(&declared.to_le_bytes());
                f.extend_from_slice(&[0x01, 0x00, 0x00]);
                v.push(json!(BASE64_STANDARD_NO_PAD.encode(&f)));
            }
            for x in [json!(0), json!([]), json!({}), json!(true), Value::Null, json!(big)] { v.push(x); }
        }
        OptBool => { for x in [json!(true), json!(false), Value::Null, json!(0), json!(1), json!("true"), json!([]), json!({})] { v.push(x); } }
        Call => {
            for x in [json!({}), json!({"data": null}), json!({"input": "0x"}), json!({"data": "0x", "input": "0x"}), json!({"data": "zz"}), json!({"data": 5}), json!({"data": []}),
                json!({"to": null, "data": "0x"}), json!({"to": "0x00", "data": "0x"}), json!({"to": 5, "data": "0x"}), json!({"from": "nope", "to": "nope", "data": "0x"}),
                json!({"from": [], "data": "0x"}), json!({"data": "0x", "gas": "0x1", "value": "0x1", "gasPrice": 5, "extra": {"a": []}}), json!({"to": "$TOOL", "data": "0x04"}),
                json!({"to": "$TOOL", "data": "0x03"}), json!({"to": "$TOOL"}), json!([]), json!(["0x"]), json!("0x"), json!(5), Value::Null, json!({"to": "$TOOL", "data": big})] { v.push(x); }
        }
        Calls => {
            for x in [json!([]), json!([{}]), json!([{"data": "0x"}]), json!([{"data": "0x"}, {}]), json!([{"data": "0x"}, null]), json!([null]), json!([[]]), json!([5]), json!({}), json!("x"), Value::Null,
                json!([{"to": "$TOOL", "data": "0x03"}, {"to": "$TOOL", "data": "0x04"}]), json!([{"to": "$TOOL", "data": "0x04"}, {"to": "$TOOL", "data": "0x03"}])] { v.push(x); }
            v.push(Value::Array((0..300).map(|_| json!({"data": "0x"})).collect()));
        }
        OptPd => {
            let z = h32(0);
            for x in [Value::Null, json!({}), json!({"opReturnTxIds": []}), json!({"bitcoinTxHexes": {}}), json!({"opReturnTxIds": [], "bitcoinTxHexes": {}}), json!({"opReturnTxIds": [z.clone(), z.clone(), z.clone()], "bitcoinTxHexes": {}}),
                json!({"opReturnTxIds": ["0x00"], "bitcoinTxHexes": {}}), json!({"opReturnTxIds": [5], "bitcoinTxHexes": {}}), json!({"opReturnTxIds": null, "bitcoinTxHexes": null}),
                json!({"opReturnTxIds": [], "bitcoinTxHexes": {"0x00": "0x00"}}), json!({"opReturnTxIds": [], "bitcoinTxHexes": {z.clone(): "zz"}}), json!({"opReturnTxIds": [], "bitcoinTxHexes": {z.clone(): 5}}),
                json!({"opReturnTxIds": [], "bitcoinTxHexes": {z.clone(): null}}), json!({"opReturnTxIds": [], "bitcoinTxHexes": {z.clone(): "0x"}}), json!({"opReturnTxIds": [], "bitcoinTxHexes": []}),
                json!({"opReturnTxIds": [], "bitcoinTxHexes": {z.clone(): "\u{20ac}"}}), json!({"opReturnTxIds": [], "bitcoinTxHexes": {z.clone(): "a\u{e9}"}}), json!({"opReturnTxIds": [], "bitcoinTxHexes": {z.clone(): "0\u{1f600}00"}}),
                json!({"opReturnTxIds": {}, "bitcoinTxHexes": {}}), json!([]), json!(5), json!("x"), json!({"opReturnTxIds": [], "bitcoinTxHexes": {z.clone(): big}})] { v.push(x); }
        }
        Filter => {
            for x in [json!({}), Value::Null, json!([]), json!(5), json!({"fromBlock": 5}), json!({"fromBlock": "0x1", "toBlock": "0x0"}), json!({"fromBlock": "0x0", "toBlock": "0xffffffffffffffff"}),
                json!({"fromBlock": "0xffffffffffffffff", "toBlock": "0xffffffffffffffff"}), json!({"fromBlock": "0xffffffffffffffff"}), json!({"toBlock": "0xffffffffffffffff"}), json!({"fromBlock": "0xfffffffffffffffa", "toBlock": "0xffffffffffffffff"}),
                json!({"fromBlock": "0x0", "toBlock": "0x5"}), json!({"fromBlock": "0x0", "toBlock": "0x6"}), json!({"fromBlock": "pending", "toBlock": "earliest"}), json!({"fromBlock": "garbage", "toBlock": "\u{e9}"}),
                json!({"address": "nope"}), json!({"address": []}), json!({"address": ["$TOOL"]}), json!({"topics": []}), json!({"topics": [null]}), json!({"topics": [[]]}), json!({"topics": [[null]]}), json!({"topics": [[[]]]}),
                json!({"topics": ["0x00"]}), json!({"topics": [5]}), json!({"topics": {}}), json!({"topics": "x"}), json!({"topics": [h32(1), [h32(2), null], null, [], h32(3), h32(4), h32(5)]}),
                json!({"fromBlock": "0x1", "toBlock": "0x1", "topics": [null, null, null, null, null, null, null, null, h32(1)]}), json!({"blockHash": "$BLOCK1"}), json!({"fromBlock": "0x1", "toBlock": "0x1", "address": "$TOOL", "topics": [[h32(1), h32(9)], h32(2)]})] { v.push(x); }
            v.push(json!({"fromBlock": "0x1", "toBlock": "0x1", "topics": (0..5000).map(|i| json!([h32(i), null])).collect::<Vec<_>>()}));
        }
    }
    v
}

/// a well-formed value for a position (the "valid baseline" the other positions are varied around)
fn baseline(m: &str, i: usize, t: T) -> Value {
    use T::*;
    match t {
        U64 => match (m, i) { ("brc20_mine", 0) => json!(1), ("brc20_reorg", _) => json!("$H"), ("brc20_initialise", 2) => json!(0), ("brc20_deploy", 7) | ("brc20_call", 9) | ("brc20_transact", 6) => json!(2000), ("brc20_deploy", 5) | ("brc20_call", 7) | ("brc20_transact", 4) | ("brc20_deposit", 5) | ("brc20_withdraw", 5) | ("brc20_finaliseBlock", 2) => json!(0), ("eth_getTransactionByBlockNumberAndIndex", 0) => json!(1), _ => json!(TS) },
        OptU64 => json!(0),
        Pk => json!(PK),
        Str => match m { "brc20_deposit" | "brc20_withdraw" | "brc20_balance" if i == 1 => json!("ordi"), "brc20_getTxReceiptByInscriptionId" => json!("c09_tool_i0"), _ => json!("c09_stream_insc") },
        Tag | OptTag => json!("latest"),
        HashOrNum => json!("0x1"),
        Hash32 => match m { "brc20_getInscriptionIdByTxHash" | "eth_getTransactionReceipt" | "debug_traceTransaction" | "eth_getTransactionByHash" => json!("$TX"), "eth_getBlockByHash" | "eth_getBlockTransactionCountByHash" | "eth_getTransactionByBlockHashAndIndex" => json!("$BLOCK1"), _ => json!(h32(0)) },
        Addr | OptAddr => json!("$TOOL"),
        Big => json!("0x7"),
        OptStr => Value::Null,
        OptRaw | Raw => json!("0x0600000000000000000000000000000000000000000000000000000000000000007"),
        OptB64 => Value::Null,
        OptBool => json!(true),
        Call => json!({"to": "$TOOL", "data": hx0(&cd::sload(U256::from(7u64)))}),
        Calls => json!([{"to": "$TOOL", "data": hx0(&cd::sload(U256::from(7u64)))}, {"to": "$TOOL", "data": hx0(&cd::log(&[U256::from(5u64)], U256::from(6u64)))}]),
        OptPd => Value::Null,
        Filter => json!({"fromBlock": "0x1", "toBlock": "0x1"}),
    }
}

fn random_bytes(rng: &mut Rng, n: usize) -> Vec<u8> { (0..n).map(|_| rng.next() as u8).collect() }

/// byte strings offered as init code, runtime code and call data
fn code_corpus(rng: &mut Rng, n_random: usize) -> Vec<(String, Vec<u8>)> {
    use sim::opc::*;
    let mut v: Vec<(String, Vec<u8>)> = vec![];
    let mut add = |k: &str, b: Vec<u8>| v.push((k.to_string(), b));
    add("empty", vec![]);
    for b in 0u16..=255 { add(&format!("op{:02x}", b), vec![b as u8]); }
    for b in [0x5fu8, 0x60, 0x7f, 0x80, 0x8f, 0x90, 0x9f, 0xa4, 0xf0, 0xf1, 0xf2, 0xf4, 0xf5, 0xfa, 0xff, 0x56, 0x57, 0x37, 0x39, 0x3e, 0x51, 0x52, 0x53, 0x20, 0x0a, 0x5e, 0x49, 0x4a, 0x5c, 0x5d] {
        // the opcode behind two maximal words on the stack
        let mut c = vec![]; for _ in 0..7 { c.push(0x7f); c.extend_from_slice(&[0xff; 32]); } c.push(b); add(&format!("maxargs_{:02x}", b), c);
        let mut c = vec![]; for _ in 0..7 { c.push(PUSH0); } c.push(b); add(&format!("zeroargs_{:02x}", b), c);
    }
    add("truncated_push32", vec![0x7f, 1, 2, 3]);
    add("eof_magic", vec![0xef, 0x00, 0x01, 0x01, 0x00, 0x04]);
    add("garbage", sim::init_garbage());
    add("revert", sim::init_reverting());
    add("jump_self", vec![JUMPDEST, PUSH0, JUMP]);
    add("spin_balance", { let mut a = sim::Asm::new(); a.label("l").op(PUSH0).op(BALANCE).op(POP).jump("l"); a.finish() });
    add("mem_2_64", { let mut a = sim::Asm::new(); a.push(&[0xff; 8]).op(MLOAD).op(STOP); a.finish() });
    add("mem_2_32", { let mut a = sim::Asm::new(); a.push(&[0xff; 4]).op(MLOAD).op(STOP); a.finish() });
    add("return_huge", { let mut a = sim::Asm::new(); a.push(&[0xff; 4]).op(PUSH0).op(RETURN); a.finish() });
    add("return_24577", { let mut a = sim::Asm::new(); a.pushn(24577).op(PUSH0).op(RETURN); a.finish() });
    add("return_1mb", { let mut a = sim::Asm::new(); a.pushn(1 << 20).op(PUSH0).op(RETURN); a.finish() });
    add("returndatacopy_oob", { let mut a = sim::Asm::new(); a.pushn(32).op(PUSH0).op(PUSH0).op(RETURNDATACOPY).op(STOP); a.finish() });
    add("stack_overflow", { let mut c = vec![JUMPDEST, PUSH0, PUSH0, JUMP]; c.insert(0, PUSH0); c });
    add("deep_recursion", { // call self with all gas until the depth limit
        let mut a = sim::Asm::new(); a.op(PUSH0).op(PUSH0).op(PUSH0).op(PUSH0).op(PUSH0).op(0x30 /*ADDRESS*/).op(GAS).op(CALL).op(STOP); a.finish() });
    add("create_loop", { let mut a = sim::Asm::new(); a.label("l").op(PUSH0).op(PUSH0).op(PUSH0).op(CREATE).op(POP).jump("l"); a.finish() });
    add("log_loop", { let mut a = sim::Asm::new(); a.label("l").pushn(32).op(PUSH0).op(LOG0).jump("l"); a.finish() });
    add("sstore_loop", { let mut a = sim::Asm::new(); a.op(PUSH0).label("l").pushn(1).op(ADD).op(DUP1).op(DUP1).op(SSTORE).jump("l"); a.finish() });
    add("selfdestruct", vec![PUSH0, SELFDESTRUCT]);
    add("init_of_init", sim::init_returning(&sim::init_returning(&[STOP])));
    add("init_ef", sim::init_returning(&[0xef, 0x00]));
    add("init_big", sim::init_returning(&vec![JUMPDEST; 30000]));
    add("multitool_init", sim::multitool_init());
    for pc in 1u64..=0x11 { // call every standard precompile with 0, 1 and 213 bytes of 0xff
        for len in [0u64, 1, 213] {
            let mut a = sim::Asm::new();
            a.push(&[0xff; 32]).op(PUSH0).op(MSTORE).push(&[0xff; 32]).pushn(32).op(MSTORE).push(&[0xff; 32]).pushn(64).op(MSTORE).push(&[0xff; 32]).pushn(96).op(MSTORE);
            a.pushn(32).op(PUSH0).pushn(len).op(PUSH0).pushn(pc).op(GAS).op(STATICCALL).op(STOP);
            add(&format!("pc{:02x}_len{}", pc, len), a.finish());
        }
    }
    for i in 0..n_random {
        let n = match i % 4 { 0 => rng.range(1, 8), 1 => rng.range(8, 64), 2 => rng.range(64, 400), _ => rng.range(1, 40) } as usize;
        let mut b = random_bytes(rng, n);
        if i % 4 == 3 { // bias towards real opcodes with pushes
            for x in b.iter_mut() { if *x > 0xa4 && *x < 0xf0 { *x = 0x60 + (*x % 0x20); } }
        }
        add(&format!("random{}", i), b);
    }
    v
}

fn abi_corpus(rng: &mut Rng) -> Vec<(String, &'static str, Vec<u8>)> {
    let mut v: Vec<(String, &'static str, Vec<u8>)> = vec![];
    let pk = hex::decode(PK).unwrap();
    // ---- getLockedPkscript ----
    let counts: Vec<U256> = vec![U256::ZERO, U256::from(1u64), U256::from(16u64), U256::from(17u64), U256::from(127u64), U256::from(128u64), U256::from(255u64), U256::from(256u64), U256::from(32767u64), U256::from(32768u64),
        U256::from(65535u64), U256::from(65536u64), U256::from(u64::MAX), U256::from(1u64) << 64, (U256::from(1u64) << 64) + U256::from(5u64), (U256::from(1u64) << 128) + U256::from(5u64), U256::MAX];
    for c in &counts { v.push((format!("locked_n{}", c), PC_LOCKED, getLockedPkscriptCall::new((Bytes::from(pk.clone()), *c)).abi_encode())); }
    for len in [0usize, 1, 2, 3, 33, 34, 35, 75, 76, 77, 255, 256, 520, 521, 65535, 65536, 100000] {
        for c in [1u64, 17, 65535] {
            v.push((format!("locked_pk{}_n{}", len, c), PC_LOCKED, getLockedPkscriptCall::new((Bytes::from(vec![0x51u8; len]), U256::from(c))).abi_encode()));
        }
    }
    // ---- bip322 verify ----
    let p2wpkh = hex::decode("00142b05d564e6a7a33c087f16e0f730d1440123799d").unwrap();
    let mut wit = vec![2u8, 71]; wit.extend_from_slice(&[0x30; 71]); wit.push(33); wit.extend_from_slice(&[0x02; 33]);
    let mut wit1 = vec![1u8, 64]; wit1.extend_from_slice(&[0x11; 64]);
    // [DER signature + sighash byte, uncompressed public key]
    let g_uncompressed = hex::decode("0479be667ef9dcbbac55a06295ce870b07029bfcdb2dce28d959f2815b16f81798483ada7726a3c4655da4fbfc0e1108a8fd17b448a68554199c47d08ffb10d4b8").unwrap();
    let g_compressed = hex::decode("0279be667ef9dcbbac55a06295ce870b07029bfcdb2dce28d959f2815b16f81798").unwrap();
    let mut der = vec![0x30u8, 0x44, 0x02, 0x20]; der.extend_from_slice(&[0x11; 32]); der.extend_from_slice(&[0x02, 0x20]); der.extend_from_slice(&[0x22; 32]); der.push(0x01);
    let mut wit_unc = vec![2u8, der.len() as u8]; wit_unc.extend_from_slice(&der); wit_unc.push(65); wit_unc.extend_from_slice(&g_uncompressed);
    let mut wit_cmp = vec![2u8, der.len() as u8]; wit_cmp.extend_from_slice(&der); wit_cmp.push(33); wit_cmp.extend_from_slice(&g_compressed);
    let mut wit_3 = vec![3u8, der.len() as u8]; wit_3.extend_from_slice(&der); wit_3.push(33); wit_3.extend_from_slice(&g_compressed); wit_3.push(0);
    let mut wit_65 = vec![1u8, 65]; wit_65.extend_from_slice(&[0x11; 64]); wit_65.push(0x01);
    let sigs: Vec<Vec<u8>> = vec![vec![], vec![0], vec![1], vec![1, 0], wit.clone(), wit1.clone(), wit_unc, wit_cmp, wit_3, wit_65, vec![2, 0, 0], vec![2, 1, 0, 0], vec![0xff; 9], vec![0xfe, 0xff, 0xff, 0xff, 0xff], vec![0xfd, 0xff, 0xff, 1, 2], vec![2, 0xfe, 0, 0, 0x40, 0], random_bytes(rng, 107), vec![0xff, 0xff, 0xff, 0xff, 0xff, 0xff, 0xff, 0xff, 0xff]];
    let scripts: Vec<Vec<u8>> = vec![p2wpkh.clone(), pk.clone(), vec![], vec![0x6a], vec![0x51], hex::decode("76a9142b05d564e6a7a33c087f16e0f730d1440123799d88ac").unwrap(), hex::decode("a9142b05d564e6a7a33c087f16e0f730d1440123799d87").unwrap(),
        { let mut s = vec![0x00, 0x20]; s.extend_from_slice(&[0x33; 32]); s }, { let mut s = vec![0x52, 0x02]; s.extend_from_slice(&[0x33; 2]); s }, vec![0x00, 0x14], vec![0xff; 40]];
    for (i, sc) in scripts.iter().enumerate() { for (j, sg) in sigs.iter().enumerate() {
        v.push((format!("bip322_s{}_w{}", i, j), PC_BIP322, verifyCall::new((Bytes::from(sc.clone()), Bytes::from(b"Hello World".to_vec()), Bytes::from(sg.clone()))).abi_encode()));
    } }
    v.push(("bip322_32768".into(), PC_BIP322, verifyCall::new((Bytes::from(p2wpkh.clone()), Bytes::from(vec![0x41; 32768 - 4 - 32 * 8 - 64]), Bytes::from(wit.clone()))).abi_encode()));
    v.push(("bip322_too_long".into(), PC_BIP322, verifyCall::new((Bytes::from(p2wpkh.clone()), Bytes::from(vec![0x41; 40000]), Bytes::from(wit.clone()))).abi_encode()));
    v.push(("bip322_empty_message".into(), PC_BIP322, verifyCall::new((Bytes::from(p2wpkh.clone()), Bytes::new(), Bytes::from(wit.clone()))).abi_encode()));
    // ---- op return ----
    v.push(("opreturn".into(), PC_OPRETURN, getTxIdCall::new(()).abi_encode()));
    // ---- ABI-invalid data for every custom precompile ----
    let good_locked = getLockedPkscriptCall::new((Bytes::from(pk.clone()), U256::from(6u64))).abi_encode();
    let good_verify = verifyCall::new((Bytes::from(p2wpkh), Bytes::from(b"m".to_vec()), Bytes::from(wit))).abi_encode();
    let good_details = getTxDetailsCall::new((B256::from([0x11; 32]),)).abi_encode();
    let good_lastsat = getLastSatLocationCall::new((B256::from([0x11; 32]), U256::ZERO, U256::ZERO)).abi_encode();
    for (name, addr, good) in [("locked", PC_LOCKED, good_locked), ("verify", PC_BIP322, good_verify), ("details", PC_TXDETAILS, good_details), ("lastsat", PC_LASTSAT, good_lastsat), ("opreturn", PC_OPRETURN, getTxIdCall::new(()).abi_encode())] {
        v.push((format!("abi_{}_empty", name), addr, vec![]));
        v.push((format!("abi_{}_selector_only", name), addr, good[..4.min(good.len())].to_vec()));
        v.push((format!("abi_{}_wrong_selector", name), addr, { let mut g = good.clone(); if !g.is_empty() { g[0] ^= 0xff; } g }));
        for cut in [1usize, 5, 31, 32, 33, 36, 63, 64, 67, 68, 69, 99, 100, 101, 131, 132, 133, 164] { if cut < good.len() { v.push((format!("abi_{}_cut{}", name, cut), addr, good[..cut].to_vec())); } }
        v.push((format!("abi_{}_trailing", name), addr, { let mut g = good.clone(); g.extend_from_slice(&[0xee; 37]); g }));
        // every head word replaced by an offset / length that points nowhere
        let words = (good.len().saturating_sub(4)) / 32;
        for w in 0..words.min(8) {
            for val in [U256::from(u64::MAX), U256::MAX, U256::from(1u64) << 255, U256::from(good.len() as u64), U256::from(good.len() as u64 - 4), U256::from(31u64), U256::from(1u64 << 32), U256::from((1u64 << 63) - 1)] {
                let mut g = good.clone(); g[4 + 32 * w..4 + 32 * w + 32].copy_from_slice(&val.to_be_bytes::<32>());
                v.push((format!("abi_{}_word{}_{:x}", name, w, val), addr, g));
            }
        }
        for _ in 0..6 { let n = rng.range(4, 200) as usize; let mut g = good[..4.min(good.len())].to_vec(); g.extend(random_bytes(rng, n)); v.push((format!("abi_{}_random", name), addr, g)); }
    }
    v
}

/// Bitcoin-transaction scenarios for getTxDetails / getLastSatLocation: (kind, calldata, target, overrides, needs the absent node)
fn btc_corpus(rng: &mut Rng) -> Vec<(String, &'static str, Vec<u8>, Value, bool)> {
    let mut v = vec![];
    let t1 = [0x11u8; 32];
    let p1 = [0xaau8; 32];
    let p2 = [0xabu8; 32];
    let null_prev = [0u8; 32];
    let sc = vec![0x51u8];
    let prev_small = btc_tx(&[([0xbb; 32], 0)], &[(1000, sc.clone()), (2000, vec![0x52])]);
    let prev_max = btc_tx(&[([0xbb; 32], 0)], &[(u64::MAX, sc.clone())]);
    let details = |t: &[u8; 32]| getTxDetailsCall::new((B256::from(*t),)).abi_encode();
    let lastsat = |t: &[u8; 32], vout: U256, sat: U256| getLastSatLocationCall::new((B256::from(*t), vout, sat)).abi_encode();
    let u = |x: u64| U256::from(x);
    // a plain two-in two-out transaction, everything overridden
    let plain = btc_tx(&[(p1, 0), (p2, 1)], &[(600, sc.clone()), (900, vec![0x52, 0x53])]);
    let full = |main: &Vec<u8>, prevs: &[([u8; 32], Vec<u8>)]| { let mut txs = vec![(t1, main.clone())]; for (k, t) in prevs { txs.push((rev32(k), t.clone())); } pd(&[], &txs) };
    let both = [(p1, prev_small.clone()), (p2, prev_small.clone())];
    v.push(("btc_details_plain".to_string(), PC_TXDETAILS, details(&t1), full(&plain, &both), false));
    for (vout, sat) in [(0u64, 0u64), (0, 600), (0, 601), (1, 0), (1, 900), (1, 901), (2, 0), (3, 0), (u32::MAX as u64, 0), (1u64 << 32, 0), (u64::MAX, 0), (0, u64::MAX)] {
        v.push((format!("btc_lastsat_plain_v{}_s{}", vout, sat), PC_LASTSAT, lastsat(&t1, u(vout), u(sat)), full(&plain, &both), false));
    }
    // the low limb is what the code looks at
    v.push(("btc_lastsat_vout_2_64".into(), PC_LASTSAT, lastsat(&t1, U256::from(1u64) << 64, u(5)), full(&plain, &both), false));
    v.push(("btc_lastsat_sat_2_64_plus".into(), PC_LASTSAT, lastsat(&t1, u(0), (U256::from(1u64) << 64) + u(5)), full(&plain, &both), false));
    v.push(("btc_lastsat_all_max".into(), PC_LASTSAT, lastsat(&t1, U256::MAX, U256::MAX), full(&plain, &both), false));
    // sums that do not fit 64 bits
    let big_outs = btc_tx(&[(p1, 0)], &[(u64::MAX, sc.clone()), (5, sc.clone()), (u64::MAX, sc.clone())]);
    let one = [(p1, prev_small.clone())];
    let one_max = [(p1, prev_max.clone())];
    for (vout, sat) in [(0u64, 0u64), (0, u64::MAX), (1, 0), (1, 1), (1, 5), (2, 0), (2, 1), (2, u64::MAX)] {
        v.push((format!("btc_lastsat_bigouts_v{}_s{}", vout, sat), PC_LASTSAT, lastsat(&t1, u(vout), u(sat)), full(&big_outs, &one), false));
        v.push((format!("btc_lastsat_bigouts_bigin_v{}_s{}", vout, sat), PC_LASTSAT, lastsat(&t1, u(vout), u(sat)), full(&big_outs, &one_max), false));
    }
    let two_in = btc_tx(&[(p1, 0), (p2, 0)], &[(3000, sc.clone())]);
    v.push(("btc_lastsat_vin_sum_overflow".into(), PC_LASTSAT, lastsat(&t1, u(0), u(3000)), full(&two_in, &[(p1, prev_small.clone()), (p2, prev_max.clone())]), false));
    v.push(("btc_lastsat_vin_max_first".into(), PC_LASTSAT, lastsat(&t1, u(0), u(3000)), full(&two_in, &[(p1, prev_max.clone()), (p2, prev_max.clone())]), false));
    v.push(("btc_details_bigouts".into(), PC_TXDETAILS, details(&t1), full(&big_outs, &one_max), false));
    // shapes
    let coinbase = btc_tx(&[(null_prev, u32::MAX)], &[(50, sc.clone())]);
    let null_second = btc_tx(&[(p1, 0), (null_prev, u32::MAX)], &[(5000, sc.clone())]);
    let no_out = btc_tx(&[(p1, 0)], &[]);
    let no_in = btc_tx(&[], &[(5, sc.clone())]);
    let prev_vout_oob = btc_tx(&[(p1, 7)], &[(5, sc.clone())]);
    let prev_vout_max = btc_tx(&[(p1, u32::MAX - 1)], &[(5, sc.clone())]);
    let many_in = btc_tx(&(0..300).map(|_| (p1, 0u32)).collect::<Vec<_>>(), &[(250_000, sc.clone())]);
    let many_out = btc_tx(&[(p1, 0)], &(0..3000).map(|i| (i as u64, sc.clone())).collect::<Vec<_>>());
    let big_script = btc_tx(&[(p1, 0)], &[(5, vec![0x6a; 100_000])]);
    for (k, t) in [("coinbase", &coinbase), ("null_second", &null_second), ("no_out", &no_out), ("no_in", &no_in), ("prev_vout_oob", &prev_vout_oob), ("prev_vout_max", &prev_vout_max), ("many_in", &many_in), ("many_out", &many_out), ("big_script", &big_script)] {
        v.push((format!("btc_details_{}", k), PC_TXDETAILS, details(&t1), full(t, &one), false));
        v.push((format!("btc_lastsat_{}", k), PC_LASTSAT, lastsat(&t1, u(0), u(1)), full(t, &one), false));
    }
    v.push(("btc_lastsat_many_out_last".into(), PC_LASTSAT, lastsat(&t1, u(2999), u(0)), full(&many_out, &[(p1, btc_tx(&[([0xbb; 32], 0)], &[(10_000_000, sc.clone())]))]), false));
    // broken transaction bytes
    let mut seg = plain.clone(); seg.splice(4..4, [0u8, 1]);
    for (k, bytes) in [("empty", vec![]), ("one_byte", vec![2u8]), ("truncated", plain[..plain.len() - 7].to_vec()), ("trailing", { let mut b = plain.clone(); b.push(0); b }), ("segwit_flag_no_witness", seg),
        ("huge_in_count", vec![2, 0, 0, 0, 0xff, 0xff, 0xff, 0xff, 0xff, 0xff, 0xff, 0xff, 0xff]), ("huge_script_len", { let mut b = vec![2u8, 0, 0, 0, 1]; b.extend_from_slice(&[0xaa; 36]); b.extend_from_slice(&[0xfe, 0xff, 0xff, 0xff, 0x7f]); b }),
        ("random", random_bytes(rng, 90)), ("zeros", vec![0u8; 64])] {
        v.push((format!("btc_details_bytes_{}", k), PC_TXDETAILS, details(&t1), pd(&[], &[(t1, bytes.clone())]), false));
        v.push((format!("btc_lastsat_bytes_{}", k), PC_LASTSAT, lastsat(&t1, u(0), u(0)), pd(&[], &[(t1, bytes.clone())]), false));
        // broken previous transaction behind a good one
        v.push((format!("btc_details_prevbytes_{}", k), PC_TXDETAILS, details(&t1), pd(&[], &[(t1, plain.clone()), (rev32(&p1), bytes.clone()), (rev32(&p2), prev_small.clone())]), false));
        v.push((format!("btc_lastsat_prevbytes_{}", k), PC_LASTSAT, lastsat(&t1, u(0), u(0)), pd(&[], &[(t1, plain.clone()), (rev32(&p1), bytes), (rev32(&p2), prev_small.clone())]), false));
    }
    for i in 0..40 { // mutated good transaction
        // (the bytes naming the previous transactions stay: a changed name is a lookup at the absent node)
        let mut b = plain.clone(); let n = 1 + rng.below(3);
        for _ in 0..n { let p = rng.below(b.len() as u64) as usize; if (5..37).contains(&p) || (46..78).contains(&p) { continue; } b[p] = rng.next() as u8; }
        v.push((format!("btc_mut{}", i), if i % 2 == 0 { PC_TXDETAILS } else { PC_LASTSAT }, if i % 2 == 0 { details(&t1) } else { lastsat(&t1, u(rng.below(3)), u(rng.below(700))) }, full(&b, &both), false));
    }
    v
}

/// overrides that keep a decodable request for transaction `key` away from the (absent) Bitcoin node
fn std_overrides(key: [u8; 32]) -> Value {
    let p1 = [0xaau8; 32];
    let p2 = [0xabu8; 32];
    let prev = btc_tx(&[([0xbb; 32], 0)], &[(1000, vec![0x51]), (2000, vec![0x52])]);
    let plain = btc_tx(&[(p1, 0), (p2, 1)], &[(600, vec![0x51]), (900, vec![0x52, 0x53])]);
    pd(&[], &[(key, plain), (rev32(&p1), prev.clone()), (rev32(&p2), prev)])
}

pub fn stream_cases(seed: u64, thorough: bool) -> Vec<Case> {
    let mut rng = Rng::new(seed ^ 0xC09);
    let mut c = Cases { v: vec![] };
    let big = "A".repeat(1 << 20);
    let names = method_names();
    let t0 = Instant::now();
    let dbg = std::env::var("HX_C09_TIMING").is_ok();

    // 1. every registered method: junk parameter shapes
    for m in &names {
        for j in junk_values() { c.std("junk_params", m, j); }
        c.std("junk_params", m, json!([Value::Null, Value::Null, Value::Null, Value::Null, Value::Null, Value::Null, Value::Null, Value::Null, Value::Null, Value::Null, Value::Null, Value::Null, Value::Null]));
        c.std("junk_params", m, Value::Array((0..2000).map(|i| json!(i)).collect()));
        c.std("junk_params", m, json!([big.clone()]));
        c.std("junk_params", m, json!([nested(100, false)]));
        c.std("junk_params", m, json!([nested(100, true)]));
        c.std("junk_params", m, json!({"block": "latest", "a": 1}));
    }
    // nesting beyond serde_json's recursion limit has to be sent as text: the request builder of the
    // driver serialises a Value, which is fine (serialisation is not depth limited)
    for m in ["eth_call", "eth_getLogs", "brc20_mine", "eth_blockNumber"] {
        c.std("deep_json", m, nested(5000, false));
        c.std("deep_json", m, json!([nested(5000, true)]));
    }

    if dbg { eprintln!("gen: {} cases after {:?} before section 2.", c.v.len(), t0.elapsed()); }
    // 2. every position of every method with a known signature: boundary / malformed / ill-typed values
    //    around a well-formed baseline; wrong arity
    for m in &names {
        let Some(sig) = schema(m) else { continue };
        let base: Vec<Value> = sig.iter().enumerate().map(|(i, t)| baseline(m, i, *t)).collect();
        c.std("baseline", m, Value::Array(base.clone()));
        if !sig.is_empty() {
            c.std("arity_minus", m, Value::Array(base[..base.len() - 1].to_vec()));
            c.std("arity_zero", m, json!([]));
        }
        c.std("arity_plus", m, { let mut b = base.clone(); b.push(json!(1)); Value::Array(b) });
        for (i, t) in sig.iter().enumerate() {
            for val in values_for(*t, &big) {
                // brc20_mine(n) is linear in n with no cap (finding F15, measured separately): only small counts here
                if m == "brc20_mine" && i == 0 && (val.as_u64().map(|x| x > 300).unwrap_or(false) || val.as_str().map(|s| s.starts_with("$H")).unwrap_or(false)) { continue; }
                let mut p = base.clone();
                p[i] = val;
                // a base64 payload is only decoded when the hex field beside it is absent (both = refused before
                // any decoding): every other base64 value goes out alone
                let alone = if *t == T::OptB64 && i > 0 && sig[i - 1] == T::OptRaw && p[i].is_string() { let mut q = p.clone(); q[i - 1] = Value::Null; Some(q) } else { None };
                let heavy = p[i].as_str().map(|s| s.len() > 100_000).unwrap_or(false);
                if heavy && !thorough && rng.chance(2, 3) { continue; }
                c.std(&format!("pos{}_{:?}", i, t), m, Value::Array(p));
                if let Some(q) = alone { c.std(&format!("pos{}_{:?}_alone", i, t), m, Value::Array(q)); }
            }
        }
        // two positions at once (integers at both ends)
        let ints: Vec<usize> = sig.iter().enumerate().filter(|(_, t)| **t == T::U64).map(|(i, _)| i).collect();
        if ints.len() >= 2 {
            for a in [0u64, 1, u64::MAX] { for b in [0u64, u64::MAX] {
                if m == "brc20_mine" && a > 300 { continue; }
                let mut p = base.clone();
                p[ints[0]] = json!(a); p[*ints.last().unwrap()] = json!(b);
                c.std("two_ints", m, Value::Array(p));
            } }
        }
    }

    if dbg { eprintln!("gen: {} cases after {:?} before section 3.", c.v.len(), t0.elapsed()); }
    // 3. arbitrary bytes as init code / runtime code / call data
    let corpus = code_corpus(&mut rng, if thorough { 1500 } else { 260 });
    for (i, (k, code)) in corpus.iter().enumerate() {
        let insc = format!("c09_code_{}", i);
        // as init code through the write path (the block is left open; the probe closes it)
        c.std(&format!("deploy_{}", k), "brc20_deploy", json!([PK, hx0(code), null, TS, h32(0), 0, insc, 3000, h32(0)]));
        // as init code through the read paths
        if i % 2 == 0 { c.std(&format!("call_create_{}", k), "eth_call", json!([{"data": hx0(code)}, null])); }
        if i % 5 == 0 { c.std(&format!("estimate_create_{}", k), "eth_estimateGas", json!([{"data": hx0(code)}, null])); }
        // as call data
        if i % 2 == 1 { c.std(&format!("calldata_tool_{}", k), "eth_call", json!([{"to": "$TOOL", "data": hx0(code)}, null])); }
        if i % 3 == 0 { c.std(&format!("calldata_controller_{}", k), "eth_call", json!([{"to": format!("0x{}", sim::CONTROLLER), "data": hx0(code)}, null])); }
        if i % 7 == 0 { c.std(&format!("brc20_call_tool_{}", k), "brc20_call", json!([PK, "$TOOL", null, hx0(code), null, TS, h32(0), 0, insc, 3000, h32(0)])); }
        if i % 11 == 0 { c.std(&format!("transact_{}", k), "brc20_transact", json!([hx0(code), null, TS, h32(0), 0, insc, 3000, h32(0)])); }
        if i % 11 == 1 { c.std(&format!("transact_b64_{}", k), "brc20_transact", json!([null, BASE64_STANDARD_NO_PAD.encode([&[0u8][..], code].concat()), TS, h32(0), 0, insc, 3000, h32(0)])); }
    }
    // as runtime code: deploy init_returning(code) and call it (callMany runs both against one journal)
    for (i, (k, code)) in corpus.iter().enumerate() {
        if code.len() > 20000 { continue; }
        let init = sim::init_returning(code);
        let from = format!("0x{}", "c0".repeat(20));
        // the address a CREATE from `from` with nonce 0 gets
        let created = Address::from_slice(&[0xc0; 20]).create(0);
        let data = random_bytes(&mut rng, (i % 70) as usize);
        c.std(&format!("runtime_{}", k), "eth_callMany", json!([[{"from": from, "data": hx0(&init)}, {"from": from, "to": format!("{:#x}", created), "data": hx0(&data)}], null, null]));
        if i % 9 == 0 { c.std(&format!("runtime_estimate_{}", k), "eth_estimateGasMany", json!([[{"from": from, "data": hx0(&init)}, {"from": from, "to": format!("{:#x}", created), "data": hx0(&data)}], null, null])); }
    }
    // signed transactions: well-formed for another chain id, future nonces, truncated RLP
    for (k, raw) in [("signed_ok", sim::sign_legacy(0, 0, None, sim::child_init(), sim::CHAIN_ID)), ("signed_other_chain", sim::sign_legacy(0, 0, None, vec![], 1)), ("signed_future", sim::sign_legacy(1, 5, None, vec![], sim::CHAIN_ID)),
        ("signed_far_future", sim::sign_legacy(1, u64::MAX, None, vec![], sim::CHAIN_ID)), ("signed_nonce_max_minus_1", sim::sign_legacy(2, u64::MAX - 1, None, vec![], sim::CHAIN_ID))] {
        c.std(k, "brc20_transact", json!([hx0(&raw), null, TS, h32(0), 0, k, 3000, h32(0)]));
        for cut in [1usize, 2, 9, raw.len() / 2, raw.len() - 1] { c.std(&format!("{}_cut{}", k, cut), "brc20_transact", json!([hx0(&raw[..cut]), null, TS, h32(0), 0, k, 3000, h32(0)])); }
        for _ in 0..6 { let mut b = raw.clone(); let p = rng.below(b.len() as u64) as usize; b[p] ^= 1 << rng.below(8); c.std(&format!("{}_bitflip", k), "brc20_transact", json!([hx0(&b), null, TS, h32(0), 0, k, 3000, h32(0)])); }
    }

    if dbg { eprintln!("gen: {} cases after {:?} before section 4.", c.v.len(), t0.elapsed()); }
    // 4. the custom precompiles: ABI-valid and ABI-invalid data, directly and through a contract, on the
    //    read paths and (those that need no Bitcoin node) on the write path
    for (i, (k, addr, data)) in abi_corpus(&mut rng).into_iter().enumerate() {
        let needs_node = addr == PC_TXDETAILS || addr == PC_LASTSAT;
        if needs_node {
            // a decodable getTxDetails / getLastSatLocation asks the Bitcoin node for its txid unless the
            // request overrides it: override whatever txid the data names (and the inputs of that transaction)
            let mut key = [0u8; 32];
            if data.len() >= 36 { key.copy_from_slice(&data[4..36]); }
            let over = std_overrides(key);
            c.std(&format!("pc_direct_{}", k), "eth_callMany", json!([[{"to": addr, "data": hx0(&data)}], null, over.clone()]));
            if i % 3 == 0 { c.std(&format!("pc_via_tool_{}", k), "eth_callMany", json!([[{"to": "$TOOL", "data": hx0(&cd::call(addr.parse().unwrap(), &data))}], null, over.clone()])); }
            if i % 4 == 0 { c.std(&format!("pc_estimate_{}", k), "eth_estimateGasMany", json!([[{"to": addr, "data": hx0(&data)}], null, over])); }
            continue;
        }
        c.std(&format!("pc_direct_{}", k), "eth_call", json!([{"to": addr, "data": hx0(&data)}, null]));
        if i % 3 == 0 { c.std(&format!("pc_via_tool_{}", k), "eth_call", json!([{"to": "$TOOL", "data": hx0(&cd::call(addr.parse().unwrap(), &data))}, null])); }
        if i % 4 == 0 { c.std(&format!("pc_estimate_{}", k), "eth_estimateGas", json!([{"to": addr, "data": hx0(&data)}, null])); }
        if i % 2 == 0 {
            c.std(&format!("pc_write_{}", k), "brc20_call", json!([PK, addr, null, hx0(&data), null, TS, h32(0), 0, format!("c09_pc_{}", i), 3000, h32(0)]));
        }
    }
    for (i, (k, addr, data, over, may_need_node)) in btc_corpus(&mut rng).into_iter().enumerate() {
        let cs = c.std(&k, "eth_callMany", json!([[{"to": addr, "data": hx0(&data)}], null, over.clone()]));
        cs.env = may_need_node;
        if i % 4 == 0 {
            let cs = c.std(&format!("{}_via_tool", k), "eth_callMany", json!([[{"to": "$TOOL", "data": hx0(&cd::call(addr.parse().unwrap(), &data))}], null, over.clone()]));
            cs.env = may_need_node;
        }
        if i % 6 == 0 && !may_need_node {
            c.std(&format!("{}_estimate", k), "eth_estimateGasMany", json!([[{"to": addr, "data": hx0(&data)}], null, over]));
        }
    }
    // op return ids: fewer / more ids than calls
    for n in [0usize, 1, 3] {
        let ids: Vec<String> = (0..n).map(|i| h32(0x1000 + i as u64)).collect();
        c.std("opreturn_ids", "eth_callMany", json!([[{"to": PC_OPRETURN, "data": hx0(&getTxIdCall::new(()).abi_encode())}, {"to": PC_OPRETURN, "data": "0x"}], null, pd(&ids, &[])]));
    }
    // one request that needs the absent node: documents the environment fault (5 s of retries, then the panic)
    {
        let cs = c.std("env_no_bitcoin_node", "eth_call", json!([{"to": PC_TXDETAILS, "data": hx0(&getTxDetailsCall::new((B256::from([0x77; 32]),)).abi_encode())}, null]));
        cs.env = true;
    }

    if dbg { eprintln!("gen: {} cases after {:?} before section 5.", c.v.len(), t0.elapsed()); }
    // 5. an empty database: every method once with its baseline, the indexer methods at their boundaries
    for m in &names {
        let Some(sig) = schema(m) else { continue };
        let base: Vec<Value> = sig.iter().enumerate().map(|(i, t)| baseline(m, i, *t)).collect();
        c.empty("empty_db_baseline", m, Value::Array(base));
    }
    for n in [0u64, 1, 2, 11, 12] { for ts in [0u64, u64::MAX] { c.empty("empty_db_mine", "brc20_mine", json!([n, ts])); } }
    for height in [0u64, 1, 2, u64::MAX - 1, u64::MAX] { for hash in [h32(0), h32(1), format!("0x{}", "ff".repeat(32))] { for ts in [0u64, u64::MAX] {
        c.empty("empty_db_initialise", "brc20_initialise", json!([hash, ts, height]));
    } } }
    for idx in [0u64, 1, u64::MAX] { for bl in [0u64, 1, u64::MAX] {
        c.empty("empty_db_deploy", "brc20_deploy", json!([PK, "0x00", null, TS, h32(0), idx, "e", bl, h32(0)]));
        c.empty("empty_db_finalise", "brc20_finaliseBlock", json!([TS, h32(0), idx]));
    } }
    for n in [0u64, 1, u64::MAX] { c.empty("empty_db_reorg", "brc20_reorg", json!([n])); }

    if dbg { eprintln!("gen: {} cases after {:?} before section 6.", c.v.len(), t0.elapsed()); }
    // 6. (standard state) integers of the indexer methods against the live height, byte lengths
    for bl in BOUNDARY_U64.iter().copied().chain([u64::MAX]) {
        // a transaction that stops at once: the gas limit byte_len * 12000 (saturating) is not consumed
        c.std("byte_len", "brc20_deploy", json!([PK, "0x00", null, TS, h32(0), 0, format!("c09_bl_{}", bl), bl, h32(0)]));
        c.std("byte_len", "brc20_call", json!([PK, "$TOOL", null, hx0(&cd::sload(U256::from(7u64))), null, TS, h32(0), 0, format!("c09_blc_{}", bl), bl, h32(0)]));
    }
    // 7. (thorough) the two unrepaired findings, demonstrated: each costs the watchdog time and a worker
    if thorough {
        c.std("known_f15_mine_max", "brc20_mine", json!([u64::MAX, TS]));
        let spin = corpus.iter().find(|(k, _)| k == "spin_balance").map(|(_, b)| b.clone()).unwrap_or_default();
        c.std("known_f18_spin_unbounded_gas", "brc20_deploy", json!([PK, hx0(&spin), null, TS, h32(0), 0, "c09_f18", u64::MAX, h32(0)]));
    }
    c.v
}

/// names of the registered methods (the harness's own `verif_probe` excluded)
pub fn method_names() -> Vec<String> {
    let mut e = Eng::empty();
    let mut v: Vec<String> = e.inst.method_names().into_iter().filter(|m| m != "verif_probe").collect();
    v.sort();
    v
}


// ------------------------------------------------------------------------------------------
// the worker: runs cases [from..] of the stream, one JSON line per case, exits 10 after a hang
// ------------------------------------------------------------------------------------------

fn resolve_placeholders(v: &mut Value, e: &mut Eng, height: &mut Option<u64>) {
    match v {
        Value::String(s) => {
            if s == "$TOOL" { *s = e.tool.clone(); }
            else if s == "$TX" { *s = e.tx_hash.clone(); }
            else if s == "$BLOCK1" { *s = e.block1_hash.clone(); }
            else if s == "\"$BLOCK1\"" { *s = format!("\"{}\"", e.block1_hash); }
            else if s.starts_with("$H") {
                if height.is_none() { *height = Some(e.height().unwrap_or(0)); }
                let h = height.unwrap();
                let n = match &s[2..] { "" => h, "-1" => h.saturating_sub(1), "+1" => h + 1, "-10" => h.saturating_sub(10), "-11" => h.saturating_sub(11), _ => h };
                *v = json!(n);
            }
        }
        Value::Array(a) => for x in a { resolve_placeholders(x, e, height); },
        Value::Object(o) => for (_, x) in o.iter_mut() { resolve_placeholders(x, e, height); },
        _ => {}
    }
}

fn brief_params(p: &Value) -> Value {
    fn cut(v: &Value, depth: usize) -> Value {
        match v {
            Value::String(s) if s.len() > 300 => json!(format!("{}..({} bytes)", s.chars().take(120).collect::<String>(), s.len())),
            Value::Array(a) if depth > 40 => json!(format!("[..nested, {} items]", a.len())),
            Value::Object(_) if depth > 40 => json!("{..nested}"),
            Value::Array(a) if a.len() > 40 => { let mut b: Vec<Value> = a.iter().take(6).map(|x| cut(x, depth + 1)).collect(); b.push(json!(format!("..({} items)", a.len()))); Value::Array(b) }
            Value::Array(a) => Value::Array(a.iter().map(|x| cut(x, depth + 1)).collect()),
            Value::Object(o) => Value::Object(o.iter().map(|(k, x)| (k.clone(), cut(x, depth + 1))).collect()),
            _ => v.clone(),
        }
    }
    cut(p, 0)
}

pub fn stream_main(args: &[String], out: &Path, seed: u64, thorough: bool) -> R<()> {
    let arg = |n: &str| args.iter().position(|a| a == n).and_then(|i| args.get(i + 1).cloned());
    let from: u64 = arg("--from").and_then(|s| s.parse().ok()).unwrap_or(0);
    let upto: u64 = arg("--upto").and_then(|s| s.parse().ok()).unwrap_or(u64::MAX);
    let name = arg("--name").unwrap_or_else(|| "dev".into());
    let only = arg("--only");
    let cases = stream_cases(seed, thorough);
    let path = out.join(format!("c09_stream_{}.jsonl", name));
    let mut f = std::fs::OpenOptions::new().create(true).append(true).open(&path)?;
    let mut std_eng: Option<Eng> = None;
    for c in cases.iter().filter(|c| c.id >= from && c.id < upto) {
        if let Some(o) = &only { if !c.kind.contains(o.as_str()) && &c.method != o { continue; } }
        writeln!(f, "{}", json!({"start": c.id}))?;
        f.flush()?;
        let mut fresh_empty;
        let e: &mut Eng = match c.st {
            St::Empty => { fresh_empty = Eng::empty(); &mut fresh_empty }
            St::Std => {
                if c.fresh || std_eng.is_none() { std_eng = Some(Eng::standard()?); }
                std_eng.as_mut().unwrap()
            }
        };
        let mut params = c.params.clone();
        let mut h = None;
        resolve_placeholders(&mut params, e, &mut h);
        let t = Instant::now();
        let o = e.rpc(&c.method, params.clone());
        let ms = t.elapsed().as_secs_f64() * 1000.0;
        let live = if matches!(o, Out::Hang) { Err("hung".to_string()) } else { e.probe() };
        let rec = json!({"id": c.id, "kind": c.kind, "state": format!("{:?}", c.st), "method": c.method, "class": o.class_name(), "brief": o.brief(), "ms": (ms * 10.0).round() / 10.0,
            "env": c.env, "live": live.as_ref().err(), "params": if o.is_fatal() || live.is_err() { brief_params(&params) } else { Value::Null }});
        writeln!(f, "{}", rec)?;
        f.flush()?;
        if matches!(o, Out::Hang) { std::process::exit(10); }
        if o.is_fatal() || live.is_err() {
            if c.st == St::Std {
                // a wedged engine cannot always be dropped cleanly (poisoned locks): leak it
                if let Some(old) = std_eng.take() { std::mem::forget(old); }
            }
        }
    }
    Ok(())
}


// ------------------------------------------------------------------------------------------
// (a) the component tie: cases for Model/Tie09.v
// ------------------------------------------------------------------------------------------

/// dev profile: overflow checks on (mode 0 = Checked); release profile: off (mode 1 = Wrapping)
pub fn overflow_checks_on() -> bool {
    let prev = std::panic::take_hook();
    std::panic::set_hook(Box::new(|_| {}));
    let r = catch_unwind(|| { let x: u64 = std::hint::black_box(u64::MAX); std::hint::black_box(x + std::hint::black_box(1)) }).is_err();
    std::panic::set_hook(prev);
    r
}

pub struct Tie {
    pub base: u64,
    pub terms: Vec<String>,
    pub jsonl: Vec<Value>,
    pub counters: BTreeMap<String, u64>,
    pub distinct: std::collections::BTreeSet<String>,
    pub notes: Vec<String>,
}
impl Tie {
    fn add(&mut self, kind: &str, term: impl FnOnce(u64) -> String, j: Value) {
        let id = self.base + self.terms.len() as u64;
        self.terms.push(term(id));
        let key = format!("{}:{}", kind, j);
        if key.len() > kind.len() + 3 { self.distinct.insert(sha256::digest(key)); }
        let mut j = j;
        j["id"] = json!(id);
        j["kind"] = json!(kind);
        self.jsonl.push(j);
        *self.counters.entry(kind.to_string()).or_insert(0) += 1;
    }
}

fn cbytes(b: &[u8]) -> String { cf::bytes(b) }
fn cstr(s: &str) -> String { cf::bytes(s.as_bytes()) }
fn copt_str(s: &Option<String>) -> String { match s { Some(x) => format!("(Some {})", cstr(x)), None => "None".into() } }
fn cobs(o: &PcObs) -> String {
    match o {
        PcObs::Out(w) => format!("(OOut {})", cf::list(w, |x| x.clone())),
        PcObs::Err => "OErr".into(), PcObs::Oog => "OOog".into(), PcObs::Panic => "OPanic".into(),
    }
}
fn key_n(k: &[u8; 32]) -> String { U256::from_be_bytes(*k).to_string() }

#[derive(Clone, Debug, PartialEq)]
pub enum PcObs { Out(Vec<String>), Err, Oog, Panic }

/// classify the answer of eth_call / eth_callMany with a single call to a precompile
fn observe_pc(o: &Out, decode: impl Fn(&[u8]) -> Option<Vec<String>>) -> Option<PcObs> {
    match o {
        Out::Ok(v) => {
            let s = match v { Value::String(s) => s.clone(), Value::Array(a) => a.get(0)?.as_str()?.to_string(), _ => return None };
            let bytes = hex::decode(s.trim_start_matches("0x")).ok()?;
            Some(PcObs::Out(decode(&bytes)?))
        }
        Out::Err(_, m) if m.contains("PrecompileError") => Some(PcObs::Err),
        Out::Err(_, m) if m.contains("OutOfGas") => Some(PcObs::Oog),
        Out::Panic(_) => Some(PcObs::Panic),
        _ => None,
    }
}

fn intrinsic_gas(data: &[u8]) -> u64 { 21000 + data.iter().map(|b| if *b == 0 { 4 } else { 16 }).sum::<u64>() }

/// a Bitcoin transaction the way the model sees it
#[derive(Clone)]
struct MTx { ins: Vec<([u8; 32], u32)>, outs: Vec<(u64, Vec<u8>)> }
impl MTx {
    fn bytes(&self) -> Vec<u8> { btc_tx(&self.ins, &self.outs) }
    fn coq(&self) -> String {
        let ins = cf::list(&self.ins, |(t, v)| format!("({}, {}, {})", key_n(&rev32(t)), v, cf::boolean(t.iter().all(|b| *b == 0) && *v == u32::MAX)));
        let outs = cf::list(&self.outs, |(val, sc)| format!("({}, {})", val, sc.len()));
        format!("{{| tx_ins := {}; tx_outs := {} |}}", ins, outs)
    }
}

fn db_write_sections(evs: &[sim::Ev]) -> u64 {
    evs.iter().filter(|e| matches!(e, sim::Ev::Lock { write: true, acquire: true, ty, file, .. } if ty.contains("Brc20ProgDatabase") && file.ends_with("engine.rs"))).count() as u64
}

pub fn tie_cases(seed: u64, thorough: bool, base: u64) -> R<Tie> {
    let mut t = Tie { base, terms: vec![], jsonl: vec![], counters: BTreeMap::new(), distinct: Default::default(), notes: vec![] };
    let mut rng = Rng::new(seed ^ 0x7109);
    let mode: u64 = if overflow_checks_on() { 0 } else { 1 };
    t.notes.push(format!("overflow checks {}", if mode == 0 { "on (Checked)" } else { "off (Wrapping)" }));

    // ---- utf8_valid vs std::str::from_utf8 ----
    let mut byte_strings: Vec<Vec<u8>> = tag_strings().into_iter().map(|s| s.into_bytes()).collect();
    let edge: [u8; 23] = [0x00, 0x7f, 0x80, 0x8f, 0x90, 0x9f, 0xa0, 0xbf, 0xc0, 0xc1, 0xc2, 0xdf, 0xe0, 0xe1, 0xec, 0xed, 0xee, 0xef, 0xf0, 0xf1, 0xf3, 0xf4, 0xf5];
    for a in edge { byte_strings.push(vec![a]); for b in edge { byte_strings.push(vec![a, b]); } }
    let edge3: [u8; 13] = [0x7f, 0x80, 0x8f, 0x90, 0x9f, 0xa0, 0xbf, 0xc2, 0xe0, 0xed, 0xef, 0xf0, 0xf4];
    for a in edge3 { for b in edge3 { for c in edge3 { byte_strings.push(vec![a, b, c]); } } }
    let edge4: [u8; 8] = [0x80, 0x8f, 0x90, 0xbf, 0xe0, 0xf0, 0xf4, 0x41];
    for a in edge4 { for b in edge4 { for c in edge4 { for d in edge4 { byte_strings.push(vec![a, b, c, d]); } } } }
    for _ in 0..(if thorough { 4000 } else { 600 }) { let n = rng.range(1, 7) as usize; byte_strings.push(random_bytes(&mut rng, n)); }
    for s in ["0x\u{e9}", "0x\u{20ac}", "0x\u{1f600}"] { let mut b = s.as_bytes().to_vec(); byte_strings.push(b.clone()); b.truncate(b.len() - 1); byte_strings.push(b.clone()); b.remove(2); byte_strings.push(b); }
    for b in &byte_strings {
        let valid = std::str::from_utf8(b).is_ok();
        t.add("utf8", |id| format!("CUtf8 {} {} {}", id, cbytes(b), cf::boolean(valid)), json!({"bytes": hex::encode(b), "valid": valid}));
    }

    // ---- from_str_radix ----
    let mut nums: Vec<String> = tag_strings();
    for s in tag_strings() { if let Some(r) = s.strip_prefix("0x") { nums.push(r.to_string()); } }
    for c in 0u8..128 { nums.push((c as char).to_string()); }
    let alpha = ['+', '-', '0', '9', 'a', 'f', 'A', 'F', 'g', 'G', 'z', 'Z', '_', ' ', 'x'];
    for a in alpha { for b in alpha { nums.push(format!("{}{}", a, b)); for c in ['0', 'f', '+'] { nums.push(format!("{}{}{}", a, b, c)); } } }
    for k in [u64::MAX as u128 - 1, u64::MAX as u128, u64::MAX as u128 + 1, u64::MAX as u128 * 10, (u64::MAX as u128) * 16 + 15, 1u128 << 63, (1u128 << 64) + 5, 1u128 << 100] {
        for s in [format!("{}", k), format!("{:x}", k), format!("{:X}", k), format!("+{}", k), format!("000{:x}", k), format!("-{}", k)] { nums.push(s); }
    }
    for _ in 0..(if thorough { 3000 } else { 500 }) {
        let n = rng.range(1, 24) as usize;
        let hexy = rng.chance(1, 2);
        nums.push((0..n).map(|_| { let d = rng.below(if hexy { 16 } else { 10 }) as u32; std::char::from_digit(d, 16).unwrap() }).collect());
    }
    for s in &nums { for radix in [10u32, 16] {
        let out = u64::from_str_radix(s, radix).ok();
        t.add("radix", |id| format!("CRadix {} {} {} {}", id, radix, cstr(s), cf::opt(&out, |x| x.to_string())), json!({"s": s, "radix": radix, "out": out}));
    } }

    // ---- select_bytes ----
    {
        let raws: Vec<Option<Option<String>>> = vec![None, Some(None), Some(Some("".into())), Some(Some("0x".into())), Some(Some("0x00".into())), Some(Some("zz".into())), Some(Some("0x0".into())), Some(Some("\u{e9}".into()))];
        let mut b64s: Vec<Option<Option<String>>> = vec![None, Some(None)];
        for s in ["", "=", "A", "AA", "AAAA", "AQ", "Ag", "Aw", "BA", "/w", "!!", "AQD/", "AA==", "AQD//w", "Av///w", "AijEsvYgBA", "\u{e9}"] { b64s.push(Some(Some(s.to_string()))); }
        for p in 0u8..=5 { b64s.push(Some(Some(BASE64_STANDARD_NO_PAD.encode([p, 1, 2, 3, 0, 0, 0xff, 4])))); }
        for r in &raws { for b in &b64s {
            let rr = r.as_ref().map(|o| match o { Some(s) => vh::RawBytes::new(s.clone()), None => vh::RawBytes::empty() });
            let bb = b.as_ref().map(|o| match o { Some(s) => vh::Base64Bytes::new(s.clone()), None => vh::Base64Bytes::empty() });
            let c = match catch_unwind(AssertUnwindSafe(|| vh::select_bytes(&rr, &bb).map(|_| ()).map_err(|_| ()))) { Ok(Ok(())) => 0, Ok(Err(())) => 1, Err(_) => 2 };
            let co = |o: &Option<Option<String>>| match o { None => "None".to_string(), Some(None) => "(Some None)".to_string(), Some(Some(s)) => format!("(Some (Some {}))", cstr(s)) };
            t.add("select", |id| format!("CSelect {} {} {} {}", id, co(r), co(b), c), json!({"raw": r, "b64": b, "class": c}));
        } }
    }

    // ---- through the method table: one standard engine ----
    vh::set_lock_recording(true);
    let mut e = Eng::standard()?;
    let h = e.height().map_err(|m| m)?;
    let (latest, next) = (h, h + 1);
    let mut tags = tag_strings();
    for x in [h.saturating_sub(1), h, h + 1, h + 2] { tags.push(format!("{}", x)); tags.push(format!("0x{:x}", x)); tags.push(format!("0X{:x}", x)); tags.push(format!("+{}", x)); tags.push(format!("0x+{:x}", x)); tags.push(format!("0x{:X}", x)); tags.push(format!("0x000{:x}", x)); }
    for s in &tags {
        let o = e.rpc("eth_getBlockByNumber", json!([s, false]));
        let (code, val) = match &o {
            Out::Ok(b) => (0u64, b["number"].as_str().and_then(|x| u64::from_str_radix(x.trim_start_matches("0x"), 16).ok()).unwrap_or(u64::MAX)),
            Out::Err(_, m) if m.contains("Block not found") => (1, 0),
            Out::Err(_, m) if m.contains("Invalid block number") => (2, 0),
            Out::Panic(_) => (3, 0),
            other => { t.notes.push(format!("eth_getBlockByNumber({:?}) answered {}", s, other.brief())); continue; }
        };
        t.add("parse", |id| format!("CParse {} {} {} {} {} {}", id, latest, next, cstr(s), code, val), json!({"s": s, "latest": latest, "out": code, "val": val}));
        let o = e.rpc("eth_getBlockTransactionCountByNumber", json!([s]));
        if o.class() <= 2 { t.add("txcount", |id| format!("CTxCount {} {} {} {} {} {}", id, mode, latest, next, cstr(s), o.class()), json!({"s": s, "class": o.class(), "brief": o.brief()})); }
    }
    {
        let ends: Vec<Option<String>> = [None, Some("latest"), Some("pending"), Some("earliest"), Some("0x0"), Some("0x1"), Some("0x5"), Some("0x6"), Some("0x7"), Some("garbage"), Some("0x"), Some("\u{e9}"), Some("0x\u{e9}"),
            Some("0xffffffffffffffff"), Some("0xfffffffffffffffe"), Some("0xfffffffffffffffa"), Some("0xfffffffffffffff9"), Some("18446744073709551615"), Some("0x10000000000000000"), Some("$H"), Some("$H-1"), Some("$H-5"), Some("$H-6"), Some("$H+1"), Some("$H+5"), Some("$H+6")]
            .iter().map(|o| o.map(|s| if let Some(r) = s.strip_prefix("$H") { let d: i64 = if r.is_empty() { 0 } else { r.parse().unwrap() }; format!("0x{:x}", (h as i64 + d) as u64) } else { s.to_string() })).collect();
        for f in &ends { for to in &ends {
            let mut flt = serde_json::Map::new();
            if let Some(x) = f { flt.insert("fromBlock".into(), json!(x)); }
            if let Some(x) = to { flt.insert("toBlock".into(), json!(x)); }
            let o = e.rpc("eth_getLogs", json!([Value::Object(flt)]));
            if o.class() <= 2 { t.add("logs", |id| format!("CLogs {} {} {} {} {} {} {}", id, mode, latest, next, copt_str(f), copt_str(to), o.class()), json!({"from": f, "to": to, "class": o.class(), "brief": o.brief()})); }
        } }
    }
    // eth_estimateGas: the answer and the number of executions
    {
        let mut calls: Vec<Value> = vec![json!({"data": "0x"}), json!({"data": hx0(&sim::child_init())}), json!({"to": e.tool, "data": hx0(&cd::sload(U256::from(7u64)))}),
            json!({"to": e.tool, "data": hx0(&cd::log(&[U256::from(1u64)], U256::from(2u64)))}), json!({"to": e.tool, "data": hx0(&cd::sstore(U256::from(9u64), U256::from(1u64)))}),
            json!({"to": e.tool, "data": hx0(&cd::create())}), json!({"to": e.tool, "data": hx0(&cd::context())}), json!({"to": PC_OPRETURN, "data": hx0(&getTxIdCall::new(()).abi_encode())}),
            json!({"to": PC_LOCKED, "data": hx0(&getLockedPkscriptCall::new((Bytes::from(hex::decode(PK).unwrap()), U256::from(6u64))).abi_encode())}), json!({"data": hx0(&sim::multitool_init())})];
        for _ in 0..(if thorough { 60 } else { 14 }) { let n = rng.range(0, 1500) as usize; calls.push(json!({"to": format!("0x{}", "77".repeat(20)), "data": hx0(&random_bytes(&mut rng, n))})); }
        for c in calls {
            let _ = e.inst.events();
            let o = e.rpc("eth_estimateGas", json!([c, null]));
            let reads = db_write_sections(&e.inst.events());
            if let Out::Ok(Value::String(g)) = &o {
                let g = u64::from_str_radix(g.trim_start_matches("0x"), 16).unwrap_or(0);
                t.add("bisect", |id| format!("CBisect {} {} {} {} {}", id, sim::CALL_GAS_LIMIT, vh::GAS_PER_BYTE, g, reads), json!({"call": brief_params(&c), "gas": g, "reads": reads}));
            }
        }
    }
    // brc20_mine on the standard engine: closed block, then an open one
    for count in [0u64, 1, 2, 3, 7] {
        let nh = e.height().map_err(|m| m)? + 1;
        let _ = e.inst.events();
        let o = e.rpc("brc20_mine", json!([count, TS]));
        let calls = db_write_sections(&e.inst.events());
        t.add("mine", |id| format!("CMine {} {} false false {} {} {} {}", id, mode, nh, count, o.class(), calls), json!({"empty": false, "open": false, "next": nh, "count": count, "class": o.class(), "calls": calls}));
    }
    {
        let nh = e.height().map_err(|m| m)? + 1;
        let _ = e.rpc("brc20_deploy", json!([PK, "0x00", null, TS, h32(0), 0, "c09_tie_open", 1000, h32(0)]));
        for count in [0u64, 1, 5] {
            let _ = e.inst.events();
            let o = e.rpc("brc20_mine", json!([count, TS]));
            let calls = db_write_sections(&e.inst.events());
            t.add("mine", |id| format!("CMine {} {} false true {} {} {} {}", id, mode, nh, count, o.class(), calls), json!({"empty": false, "open": true, "next": nh, "count": count, "class": o.class(), "calls": calls}));
        }
        let _ = e.rpc("brc20_clearCaches", json!([]));
    }

    // ---- the precompiles ----
    let pk = hex::decode(PK).unwrap();
    let dec_words = |n: usize| move |b: &[u8]| -> Option<Vec<String>> { if b.len() >= 32 * n { Some(vec![]) } else { None } };
    // getLockedPkscript
    {
        let mut inputs: Vec<(Option<(Vec<u8>, U256)>, Vec<u8>)> = vec![];
        for len in [0usize, 1, 2, 3, 33, 34, 35, 75, 76, 255, 256, 520, 521, 10000] { for c in [0u64, 1, 16, 17, 127, 128, 255, 256, 32767, 32768, 65535, 65536] {
            let p = vec![0x51u8; len];
            inputs.push((Some((p.clone(), U256::from(c))), getLockedPkscriptCall::new((Bytes::from(p), U256::from(c))).abi_encode()));
        } }
        for c in [U256::from(u64::MAX), U256::from(1u64) << 64, (U256::from(1u64) << 64) + U256::from(5u64), U256::MAX] {
            inputs.push((Some((pk.clone(), c)), getLockedPkscriptCall::new((Bytes::from(pk.clone()), c)).abi_encode()));
            inputs.push((Some((vec![0x51], c)), getLockedPkscriptCall::new((Bytes::from(vec![0x51u8]), c)).abi_encode()));
        }
        let good = getLockedPkscriptCall::new((Bytes::from(pk.clone()), U256::from(6u64))).abi_encode();
        for cut in [0usize, 3, 4, 36, 68, 100, good.len() - 1] { inputs.push((None, good[..cut].to_vec())); }
        for (dec, data) in inputs {
            // the decode oracle: the same library call the precompile makes
            let lib = getLockedPkscriptCall::abi_decode(&data).ok().map(|c| (c.pkscript.to_vec(), c.lock_block_count));
            if dec.is_some() && lib != dec { t.notes.push(format!("getLockedPkscript decode oracle differs from the construction for {}", hx0(&data))); }
            let o = e.rpc("eth_call", json!([{"to": PC_LOCKED, "data": hx0(&data)}, null]));
            let Some(obs) = observe_pc(&o, |_| Some(vec![])) else { t.notes.push(format!("getLockedPkscript: unclassified answer {}", o.brief())); continue };
            let gas = sim::CALL_GAS_LIMIT - intrinsic_gas(&data);
            let d = match &lib { Some((p, n)) => format!("(Some ({}, {}))", cbytes(p), n), None => "None".into() };
            t.add("locked", |id| format!("CLocked {} {} {} {} {}", id, mode, gas, d, cobs(&obs)), json!({"data": hx0(&data), "obs": format!("{:?}", obs)}));
            if obs == PcObs::Panic { e = Eng::standard()?; }
        }
    }
    // getTxDetails / getLastSatLocation with every transaction overridden
    {
        let k1 = [0x11u8; 32];
        let (p1, p2, p3) = ([0xaau8; 32], [0xabu8; 32], [0xacu8; 32]);
        let sc = vec![0x51u8];
        let grand = [0xbbu8; 32];
        let prev_small = MTx { ins: vec![(grand, 0)], outs: vec![(1000, sc.clone()), (2000, vec![0x52, 0x53])] };
        let prev_max = MTx { ins: vec![(grand, 0)], outs: vec![(u64::MAX, sc.clone())] };
        let prev_big = MTx { ins: vec![(grand, 0)], outs: vec![(10_000_000, sc.clone()), (7, sc.clone())] };
        let null_prev = ([0u8; 32], u32::MAX);
        let mut scen: Vec<(&str, MTx, Vec<([u8; 32], MTx)>)> = vec![
            ("plain", MTx { ins: vec![(p1, 0), (p2, 1)], outs: vec![(600, sc.clone()), (900, vec![0x52, 0x53])] }, vec![(p1, prev_small.clone()), (p2, prev_small.clone())]),
            ("three_in", MTx { ins: vec![(p1, 0), (p2, 1), (p3, 0)], outs: vec![(2500, sc.clone()), (400, sc.clone()), (100, sc.clone())] }, vec![(p1, prev_small.clone()), (p2, prev_small.clone()), (p3, prev_small.clone())]),
            ("bigouts", MTx { ins: vec![(p1, 0)], outs: vec![(u64::MAX, sc.clone()), (5, sc.clone()), (u64::MAX, sc.clone())] }, vec![(p1, prev_small.clone())]),
            ("bigouts_bigin", MTx { ins: vec![(p1, 0)], outs: vec![(u64::MAX, sc.clone()), (5, sc.clone()), (u64::MAX, sc.clone())] }, vec![(p1, prev_max.clone())]),
            ("vin_sum", MTx { ins: vec![(p1, 0), (p2, 0)], outs: vec![(3000, sc.clone())] }, vec![(p1, prev_small.clone()), (p2, prev_max.clone())]),
            ("vin_max_first", MTx { ins: vec![(p1, 0), (p2, 0)], outs: vec![(3000, sc.clone())] }, vec![(p1, prev_max.clone()), (p2, prev_max.clone())]),
            ("coinbase", MTx { ins: vec![null_prev], outs: vec![(50, sc.clone())] }, vec![]),
            ("null_second", MTx { ins: vec![(p1, 0), null_prev], outs: vec![(5000, sc.clone())] }, vec![(p1, prev_small.clone())]),
            ("null_first", MTx { ins: vec![null_prev, (p1, 0)], outs: vec![(500, sc.clone())] }, vec![(p1, prev_small.clone())]),
            ("no_out", MTx { ins: vec![(p1, 0)], outs: vec![] }, vec![(p1, prev_small.clone())]),
            ("prev_vout_oob", MTx { ins: vec![(p1, 7)], outs: vec![(5, sc.clone())] }, vec![(p1, prev_small.clone())]),
            ("prev_vout_max", MTx { ins: vec![(p1, u32::MAX - 1)], outs: vec![(5, sc.clone())] }, vec![(p1, prev_small.clone())]),
            ("insufficient", MTx { ins: vec![(p1, 0)], outs: vec![(5000, sc.clone())] }, vec![(p1, prev_small.clone())]),
        ];
        for k in [47usize, 48, 49, 50, 120] {
            scen.push((Box::leak(format!("many_in_{}", k).into_boxed_str()), MTx { ins: (0..k).map(|_| (p1, 0u32)).collect(), outs: vec![(k as u64 * 900, sc.clone()), (1, sc.clone())] }, vec![(p1, prev_big.clone())]));
        }
        scen.push(("many_out", MTx { ins: vec![(p1, 0)], outs: (0..400).map(|i| (i as u64, sc.clone())).collect() }, vec![(p1, prev_big.clone())]));
        for (name, main, prevs) in &scen {
            let mut txs: Vec<([u8; 32], Vec<u8>)> = vec![(k1, main.bytes())];
            let mut coq_txs = vec![format!("({}, {})", key_n(&k1), main.coq())];
            for (k, ptx) in prevs { txs.push((rev32(k), ptx.bytes())); coq_txs.push(format!("({}, {})", key_n(&rev32(k)), ptx.coq())); }
            let over = pd(&[], &txs);
            let coq_txs = format!("[{}]", coq_txs.join("; "));
            let bn = e.height().map_err(|m| m)? + 1;
            // getTxDetails
            let data = getTxDetailsCall::new((B256::from(k1),)).abi_encode();
            let o = e.rpc("eth_callMany", json!([[{"to": PC_TXDETAILS, "data": hx0(&data)}], null, over.clone()]));
            let dec = |b: &[u8]| getTxDetailsCall::abi_decode_returns(b).ok().map(|r| {
                let mut w = vec![r.block_height.to_string(), r.vin_txids.len().to_string()];
                w.extend(r.vin_vouts.iter().map(|x| x.to_string())); w.extend(r.vin_values.iter().map(|x| x.to_string())); w.extend(r.vout_values.iter().map(|x| x.to_string())); w });
            match observe_pc(&o, dec) {
                Some(obs) => {
                    let gas = sim::CALL_GAS_LIMIT - intrinsic_gas(&data);
                    t.add("details", |id| format!("CDetails {} {} {} {} (Some {}) {} {}", id, mode, gas, bn, key_n(&k1), coq_txs, cobs(&obs)), json!({"scenario": name, "obs": format!("{:?}", obs)}));
                    if obs == PcObs::Panic { e = Eng::standard()?; }
                }
                None => t.notes.push(format!("getTxDetails {}: unclassified answer {}", name, o.brief())),
            }
            // getLastSatLocation over a grid of (vout, sat)
            let n_out = main.outs.len() as u64;
            let mut grid: Vec<(U256, U256)> = vec![];
            for vout in [0u64, 1, 2, n_out.saturating_sub(1), n_out, n_out + 1, u32::MAX as u64, u64::MAX] { for sat in [0u64, 1, 5, 599, 600, 601, 900, 2500, 3000, u64::MAX] { grid.push((U256::from(vout), U256::from(sat))); } }
            grid.push((U256::from(1u64) << 64, U256::from(5u64)));
            grid.push((U256::from(0u64), (U256::from(1u64) << 64) + U256::from(5u64)));
            grid.push((U256::MAX, U256::MAX));
            grid.dedup();
            if main.ins.len() > 10 || main.outs.len() > 10 { grid = vec![(U256::from(0u64), U256::from(0u64)), (U256::from(0u64), U256::from(main.outs[0].0)), (U256::from(1u64), U256::from(1u64)), (U256::from(n_out - 1), U256::from(0u64)), (U256::from(n_out), U256::from(0u64))]; }
            for (vout, sat) in grid {
                let data = getLastSatLocationCall::new((B256::from(k1), vout, sat)).abi_encode();
                let o = e.rpc("eth_callMany", json!([[{"to": PC_LASTSAT, "data": hx0(&data)}], null, over.clone()]));
                let dec = |b: &[u8]| getLastSatLocationCall::abi_decode_returns(b).ok().map(|r| vec![U256::from_be_bytes(r.last_txid.0).to_string(), r.last_vout.to_string(), r.last_sat.to_string()]);
                match observe_pc(&o, dec) {
                    Some(obs) => {
                        let gas = sim::CALL_GAS_LIMIT - intrinsic_gas(&data);
                        t.add("lastsat", |id| format!("CLastSat {} {} {} {} (Some ({}, {}, {})) {} {}", id, mode, gas, bn, key_n(&k1), vout, sat, coq_txs, cobs(&obs)), json!({"scenario": name, "vout": vout.to_string(), "sat": sat.to_string(), "obs": format!("{:?}", obs)}));
                        if obs == PcObs::Panic { e = Eng::standard()?; }
                    }
                    None => t.notes.push(format!("getLastSatLocation {}: unclassified answer {}", name, o.brief())),
                }
            }
        }
        // undecodable input
        for data in [vec![], getTxDetailsCall::new((B256::from(k1),)).abi_encode()[..20].to_vec()] {
            let o = e.rpc("eth_call", json!([{"to": PC_TXDETAILS, "data": hx0(&data)}, null]));
            if let Some(obs) = observe_pc(&o, |_| Some(vec![])) { let gas = sim::CALL_GAS_LIMIT - intrinsic_gas(&data); t.add("details", |id| format!("CDetails {} {} {} 1 None [] {}", id, mode, gas, cobs(&obs)), json!({"scenario": "undecodable"})); }
            let o = e.rpc("eth_call", json!([{"to": PC_LASTSAT, "data": hx0(&data)}, null]));
            if let Some(obs) = observe_pc(&o, |_| Some(vec![])) { let gas = sim::CALL_GAS_LIMIT - intrinsic_gas(&data); t.add("lastsat", |id| format!("CLastSat {} {} {} 1 None [] {}", id, mode, gas, cobs(&obs)), json!({"scenario": "undecodable"})); }
        }
    }
    // BIP322_Verify
    {
        let g_unc = hex::decode("0479be667ef9dcbbac55a06295ce870b07029bfcdb2dce28d959f2815b16f81798483ada7726a3c4655da4fbfc0e1108a8fd17b448a68554199c47d08ffb10d4b8").unwrap();
        let g_cmp = hex::decode("0279be667ef9dcbbac55a06295ce870b07029bfcdb2dce28d959f2815b16f81798").unwrap();
        let mut der = vec![0x30u8, 0x44, 0x02, 0x20]; der.extend_from_slice(&[0x11; 32]); der.extend_from_slice(&[0x02, 0x20]); der.extend_from_slice(&[0x22; 32]); der.push(0x01);
        // (script, kind) -- kind as the library classifies the script
        let scripts: Vec<(Vec<u8>, Option<&str>)> = vec![
            (pk.clone(), Some("AkP2tr")), (hex::decode("00142b05d564e6a7a33c087f16e0f730d1440123799d").unwrap(), Some("AkP2wpkh")),
            (hex::decode("a9142b05d564e6a7a33c087f16e0f730d1440123799d87").unwrap(), Some("AkP2sh")),
            (hex::decode("76a9142b05d564e6a7a33c087f16e0f730d1440123799d88ac").unwrap(), Some("AkOther")),
            ({ let mut s = vec![0x00, 0x20]; s.extend_from_slice(&[0x33; 32]); s }, Some("AkOther")),
            (vec![], None), (vec![0x6a], None), (vec![0x00, 0x14], None)];
        // (witness elements or None = undecodable bytes, raw bytes, second element is a valid uncompressed key)
        let enc = |els: &[Vec<u8>]| { let mut b = vec![els.len() as u8]; for e in els { b.push(e.len() as u8); b.extend_from_slice(e); } b };
        let wits: Vec<(Option<Vec<Vec<u8>>>, Vec<u8>, bool)> = vec![
            (None, vec![], false), (Some(vec![]), vec![0], false), (None, vec![1], false), (Some(vec![vec![]]), vec![1, 0], false),
            (Some(vec![der.clone(), g_unc.clone()]), enc(&[der.clone(), g_unc.clone()]), true), (Some(vec![der.clone(), g_cmp.clone()]), enc(&[der.clone(), g_cmp.clone()]), false),
            (Some(vec![der.clone(), vec![0x04; 65]]), enc(&[der.clone(), vec![0x04; 65]]), false), (Some(vec![vec![0x11; 64]]), enc(&[vec![0x11; 64]]), false),
            (Some(vec![vec![0x11; 65]]), enc(&[vec![0x11; 65]]), false), (Some(vec![der.clone(), g_cmp.clone(), vec![]]), enc(&[der.clone(), g_cmp.clone(), vec![]]), false),
            (Some(vec![vec![], g_unc.clone()]), enc(&[vec![], g_unc.clone()]), true), (Some(vec![der.clone()]), enc(&[der.clone()]), false), (None, vec![2, 5, 1, 2], false)];
        for (sc, kind) in &scripts { for (w, raw, unc) in &wits {
            let data = verifyCall::new((Bytes::from(sc.clone()), Bytes::from(b"Hello World".to_vec()), Bytes::from(raw.clone()))).abi_encode();
            let o = e.rpc("eth_call", json!([{"to": PC_BIP322, "data": hx0(&data)}, null]));
            let Some(obs) = observe_pc(&o, |_| Some(vec![])) else { t.notes.push(format!("BIP322_Verify: unclassified answer {}", o.brief())); continue };
            let gas = sim::CALL_GAS_LIMIT - intrinsic_gas(&data);
            let cw = match w { Some(els) => format!("(Some {})", cf::list(els, |x| cbytes(x))), None => "None".into() };
            let ck = match kind { Some(k) => format!("(Some {})", k), None => "None".into() };
            t.add("bip322", |id| format!("CBip {} {} {} true {} {} {} {}", id, gas, data.len(), ck, cw, cf::boolean(*unc), cobs(&obs)), json!({"script": hex::encode(sc), "witness": hex::encode(raw), "obs": format!("{:?}", obs)}));
            if obs == PcObs::Panic { e = Eng::standard()?; }
        } }
        for data in [vec![], verifyCall::new((Bytes::from(pk.clone()), Bytes::new(), Bytes::new())).abi_encode()[..40].to_vec(), verifyCall::new((Bytes::from(pk.clone()), Bytes::from(vec![0x41; 40000]), Bytes::new())).abi_encode()] {
            let o = e.rpc("eth_call", json!([{"to": PC_BIP322, "data": hx0(&data)}, null]));
            if let Some(obs) = observe_pc(&o, |_| Some(vec![])) { let gas = sim::CALL_GAS_LIMIT - intrinsic_gas(&data); t.add("bip322", |id| format!("CBip {} {} {} false None None false {}", id, gas, data.len(), cobs(&obs)), json!({"len": data.len(), "obs": format!("{:?}", obs)})); }
        }
        let data = getTxIdCall::new(()).abi_encode();
        let o = e.rpc("eth_call", json!([{"to": PC_OPRETURN, "data": hx0(&data)}, null]));
        if let Some(obs) = observe_pc(&o, |_| Some(vec![])) { let gas = sim::CALL_GAS_LIMIT - intrinsic_gas(&data); t.add("opreturn", |id| format!("COpReturn {} {} {}", id, gas, cobs(&obs)), json!({"obs": format!("{:?}", obs)})); }
    }
    drop(e);

    // ---- empty databases: brc20_mine, brc20_initialise ----
    for (open, count) in [(false, 0u64), (false, 1), (false, 2), (false, 5), (true, 0), (true, 3)] {
        let mut e = Eng::empty();
        if open { let _ = e.rpc("brc20_deploy", json!([PK, "0x00", null, TS, h32(0), 0, "c09_tie_open0", 1000, h32(0)])); }
        let _ = e.inst.events();
        let o = e.rpc("brc20_mine", json!([count, TS]));
        let calls = db_write_sections(&e.inst.events());
        if o.class() <= 2 { t.add("mine", |id| format!("CMine {} {} true {} 0 {} {} {}", id, mode, cf::boolean(open), count, o.class(), calls), json!({"empty": true, "open": open, "count": count, "class": o.class(), "calls": calls})); }
        if o.is_fatal() { std::mem::forget(e); }
    }
    for hz in [true, false] { for height in [0u64, 1, 2, u64::MAX - 1, u64::MAX] {
        let mut e = Eng::empty();
        let o = e.rpc("brc20_initialise", json!([if hz { h32(0) } else { h32(0xabc) }, TS, height]));
        let p = matches!(o, Out::Panic(_));
        t.add("init", |id| format!("CInit {} {} {} {} {}", id, mode, cf::boolean(hz), height, cf::boolean(p)), json!({"hash_zero": hz, "height": height, "brief": o.brief()}));
        if o.is_fatal() { std::mem::forget(e); }
    } }
    vh::set_lock_recording(false);
    Ok(t)
}


const TIE_IMPORTS: &str = "From Brc.Model Require Import Base Base64 Nada Payload Logs ReadSlot Requests Tie09.\nFrom BrcGen Require Import Consts.";
const TIE_EVAL: &str = "bad09 GAS_PER_BITCOIN_RPC_CALL GAS_PER_LOCKED_PKSCRIPT GAS_PER_BIP_322_VERIFY GAS_PER_OP_RETURN_TX_ID CALLDATA_LIMIT";

/// `hx c09-tie --out DIR --name NAME --base N`: the component tie of this binary's profile, as JSON
pub fn tie_main(args: &[String], out: &Path, seed: u64, thorough: bool) -> R<()> {
    let arg = |n: &str| args.iter().position(|a| a == n).and_then(|i| args.get(i + 1).cloned());
    let name = arg("--name").unwrap_or_else(|| "dev".into());
    let base: u64 = arg("--base").and_then(|s| s.parse().ok()).unwrap_or(0);
    let t = tie_cases(seed, thorough, base)?;
    std::fs::write(out.join(format!("c09_tie_{}.json", name)), serde_json::to_string(&json!({"terms": t.terms, "jsonl": t.jsonl, "counters": t.counters, "distinct": t.distinct.len(), "notes": t.notes}))?)?;
    if arg("--shards").is_some() {
        let files = cf::write_shards(out, &format!("c09_cases_{}", name), TIE_IMPORTS, "case09", TIE_EVAL, &t.terms, 16)?;
        println!("{:?} {:?} notes {:?}", files, t.counters, t.notes);
    }
    Ok(())
}


// ------------------------------------------------------------------------------------------
// the parent: tie + stream workers + measurements + (thorough) the release profile
// ------------------------------------------------------------------------------------------

fn normalise(msg: &str) -> String {
    // strip machine-specific prefixes of source paths
    let mut m = msg.to_string();
    while let Some(i) = m.find("/root/.cargo/registry/src/") {
        let rest = &m[i + "/root/.cargo/registry/src/".len()..];
        let cut = rest.find('/').map(|j| j + 1).unwrap_or(0);
        m = format!("{}{}", &m[..i], &rest[cut..]);
    }
    for pre in ["/tmp/rw-c09/", "/repo/"] { m = m.replace(pre, ""); }
    m
}

struct StreamSummary { cases: u64, classes: BTreeMap<String, u64>, by_method: BTreeMap<String, u64>, env: u64, failures: Vec<(String, Value)>, restarts: u64, seconds: f64, slowest: Vec<Value> }

/// Runs the stream in worker processes of `exe`, restarting behind a hang or an abort.
fn run_stream(exe: &Path, out: &Path, seed: u64, thorough: bool, name: &str) -> R<StreamSummary> {
    let t0 = Instant::now();
    let path = out.join(format!("c09_stream_{}.jsonl", name));
    let _ = std::fs::remove_file(&path);
    let total = stream_cases(seed, thorough).len() as u64;
    let mut from = 0u64;
    let mut restarts = 0u64;
    let mut aborted: Vec<(u64, i32)> = vec![];
    while from < total {
        let st = std::process::Command::new(exe).args(["c09-stream", "--out"]).arg(out).args(["--seed", &seed.to_string(), "--tier", if thorough { "thorough" } else { "quick" }, "--name", name, "--from", &from.to_string()])
            .stdout(std::process::Stdio::null()).stderr(std::process::Stdio::null()).status()?;
        if st.success() { break; }
        restarts += 1;
        let text = std::fs::read_to_string(&path).unwrap_or_default();
        let mut last_start = None; let mut last_done = None;
        for l in text.lines() { if let Ok(v) = serde_json::from_str::<Value>(l) { if let Some(s) = v["start"].as_u64() { last_start = Some(s); } if let Some(i) = v["id"].as_u64() { last_done = Some(i); } } }
        let Some(ls) = last_start else { return Err(format!("stream worker {} died before its first case ({:?})", name, st.code()).into()); };
        if last_done != Some(ls) { aborted.push((ls, st.code().unwrap_or(-1))); }
        from = ls + 1;
        if restarts > 200 { return Err("stream worker restarted more than 200 times".into()); }
    }
    let cases = stream_cases(seed, thorough);
    let text = std::fs::read_to_string(&path).unwrap_or_default();
    let mut sum = StreamSummary { cases: 0, classes: BTreeMap::new(), by_method: BTreeMap::new(), env: 0, failures: vec![], restarts, seconds: 0.0, slowest: vec![] };
    let mut recs: Vec<Value> = vec![];
    for l in text.lines() { if let Ok(v) = serde_json::from_str::<Value>(l) { if v.get("id").is_some() { recs.push(v); } } }
    for (id, code) in aborted {
        let c = &cases[id as usize];
        sum.failures.push((format!("{} [{}]: the process died (exit code {}) while serving the request: neither an answer nor a caught panic", c.method, name, code), json!({"id": id, "kind": c.kind, "method": c.method, "params": brief_params(&c.params), "profile": name})));
    }
    for r in &recs {
        sum.cases += 1;
        let class = r["class"].as_str().unwrap_or("?").to_string();
        *sum.classes.entry(class.clone()).or_insert(0) += 1;
        *sum.by_method.entry(r["method"].as_str().unwrap_or("?").to_string()).or_insert(0) += 1;
        let brief = r["brief"].as_str().unwrap_or("");
        let kind = r["kind"].as_str().unwrap_or("");
        let method = r["method"].as_str().unwrap_or("");
        let live = r["live"].as_str();
        let is_env = class == "Panic" && brief.contains("Bitcoin RPC unreachable");
        if is_env { sum.env += 1; continue; }
        let case = json!({"id": r["id"], "kind": kind, "method": method, "params": r["params"], "answer": normalise(brief), "probe": live, "profile": name, "ms": r["ms"]});
        let what = if kind.starts_with("known_f15") && class == "Hang" {
            Some(format!("F15-class: brc20_mine(n) has no cap: brc20_mine(18446744073709551615) did not answer within the watchdog time [{}]", name))
        } else if kind.starts_with("known_f18") && class == "Hang" {
            Some(format!("F20-class: the gas limit of an indexer transaction is inscription_byte_len * 12000 (saturating) with no cap: a spinning contract deployed with inscription_byte_len = u64::MAX did not answer within the watchdog time [{}]", name))
        } else if class == "Panic" {
            Some(format!("{} [{}]: panic: {}{}", method, name, normalise(brief.trim_start_matches("Panic ")), match live { Some(l) => format!(" -- engine wedged afterwards ({})", normalise(l)), None => String::new() }))
        } else if class == "Hang" {
            Some(format!("{} [{}]: no answer within the watchdog time (hang)", method, name))
        } else if let Some(l) = live {
            Some(format!("{} [{}]: answered {} but the liveness probe fails afterwards: {}", method, name, class, normalise(l)))
        } else { None };
        if let Some(w) = what { sum.failures.push((w, case)); }
    }
    let mut by_ms: Vec<&Value> = recs.iter().collect();
    by_ms.sort_by(|a, b| b["ms"].as_f64().partial_cmp(&a["ms"].as_f64()).unwrap_or(std::cmp::Ordering::Equal));
    sum.slowest = by_ms.iter().take(5).map(|r| json!({"kind": r["kind"], "method": r["method"], "ms": r["ms"], "class": r["class"]})).collect();
    sum.seconds = t0.elapsed().as_secs_f64();
    Ok(sum)
}

/// F15 / F17: cost of brc20_mine(n) and eth_estimateGasMany(n calls) against n
fn measurements() -> R<(Vec<(String, Value)>, Value)> {
    let mut fails = vec![];
    let mut e = Eng::standard()?;
    let mut mine = vec![];
    for n in [50u64, 100, 200] {
        let t = Instant::now();
        let o = e.rpc("brc20_mine", json!([n, TS]));
        mine.push((n, t.elapsed().as_secs_f64() * 1000.0, o.class_name()));
    }
    let per_block = mine.last().map(|x| x.1 / x.0 as f64).unwrap_or(0.0);
    let linear = mine.iter().all(|x| x.2 == "Ok") && mine[2].1 > 1.5 * mine[1].1.max(0.001) * 0.8;
    if linear {
        fails.push((format!("F15-class: brc20_mine(n) has no cap and is linear in n: {} blocks {:.0} ms, {} blocks {:.0} ms, {} blocks {:.0} ms ({:.2} ms per block in this profile); the engine serves nothing else meanwhile", mine[0].0, mine[0].1, mine[1].0, mine[1].1, mine[2].0, mine[2].1, per_block),
            json!({"method": "brc20_mine", "params": [18446744073709551615u64, TS], "extrapolated_seconds": per_block * 1.8446744e19 / 1000.0})));
    }
    let mut est = vec![];
    for n in [25usize, 50, 100] {
        let calls: Vec<Value> = (0..n).map(|_| json!({"data": "0x"})).collect();
        let t = Instant::now();
        let o = e.rpc("eth_estimateGasMany", json!([calls, null, null]));
        est.push((n, t.elapsed().as_secs_f64() * 1000.0, o.class_name()));
    }
    let quadratic = est.iter().all(|x| x.2 == "Ok") && est[2].1 > 2.8 * est[1].1.max(0.001);
    if quadratic {
        fails.push((format!("F19-class: eth_estimateGasMany with n calls performs about n * log2(gas limit / 12000) batch executions of n calls each (quadratic): {} calls {:.0} ms, {} calls {:.0} ms, {} calls {:.0} ms; unauthenticated, n is bounded only by the request size", est[0].0, est[0].1, est[1].0, est[1].1, est[2].0, est[2].1),
            json!({"method": "eth_estimateGasMany", "params": ["[{\"data\":\"0x\"} x n]", null, null]})));
    }
    Ok((fails, json!({"brc20_mine_ms": mine.iter().map(|x| json!({"n": x.0, "ms": x.1})).collect::<Vec<_>>(), "eth_estimateGasMany_ms": est.iter().map(|x| json!({"n": x.0, "ms": x.1})).collect::<Vec<_>>() })))
}

pub fn run(out: &Path, seed: u64, thorough: bool) -> R<()> {
    let t_start = Instant::now();
    let exe = std::env::current_exe()?;

    // (a) component tie, this profile
    let mut tie = tie_cases(seed, thorough, 0)?;
    let t_tie = t_start.elapsed().as_secs_f64();
    let (mfails, measured) = measurements()?;

    // (b) the stream, this profile
    let dev = run_stream(&exe, out, seed, thorough, "dev")?;

    // thorough: the release profile (overflow checks off, as shipped)
    let mut release: Option<StreamSummary> = None;
    let mut release_note = Value::Null;
    if thorough {
        let manifest = PathBuf::from(env!("CARGO_MANIFEST_DIR"));
        let tb = Instant::now();
        let st = std::process::Command::new("cargo").args(["build", "--offline", "--release"]).current_dir(&manifest)
            .stdout(std::process::Stdio::null()).stderr(std::process::Stdio::null()).status()?;
        let rexe = exe.parent().and_then(|p| p.parent()).map(|p| p.join("release").join("hx")).ok_or("release path")?;
        if !st.success() || !rexe.exists() { return Err("cargo build --release of the harness failed".into()); }
        let build_s = tb.elapsed().as_secs_f64();
        let st = std::process::Command::new(&rexe).args(["c09-tie", "--out"]).arg(out).args(["--seed", &seed.to_string(), "--tier", "thorough", "--name", "release", "--base", "10000000"]).status()?;
        if !st.success() { return Err("release tie run failed".into()); }
        let rt: Value = serde_json::from_str(&std::fs::read_to_string(out.join("c09_tie_release.json"))?)?;
        for x in rt["terms"].as_array().cloned().unwrap_or_default() { tie.terms.push(x.as_str().unwrap_or("").to_string()); }
        for x in rt["jsonl"].as_array().cloned().unwrap_or_default() { tie.jsonl.push(x); }
        for (k, v) in rt["counters"].as_object().cloned().unwrap_or_default() { *tie.counters.entry(format!("release_{}", k)).or_insert(0) += v.as_u64().unwrap_or(0); }
        for n in rt["notes"].as_array().cloned().unwrap_or_default() { tie.notes.push(format!("release: {}", n.as_str().unwrap_or(""))); }
        let r = run_stream(&rexe, out, seed, thorough, "release")?;
        release_note = json!({"build_seconds": build_s, "cases": r.cases, "classes": r.classes, "restarts_after_hang_or_abort": r.restarts, "environment_faults": r.env, "seconds": r.seconds});
        release = Some(r);
    }

    // failures: one entry per distinct `what`, the smallest case kept
    let mut agg: BTreeMap<String, (u64, Value)> = BTreeMap::new();
    let mut all: Vec<(String, Value)> = mfails;
    all.extend(dev.failures.iter().cloned());
    if let Some(r) = &release { all.extend(r.failures.iter().cloned()); }
    for (w, c) in all {
        let e = agg.entry(w).or_insert((0, c.clone()));
        e.0 += 1;
        if c.to_string().len() < e.1.to_string().len() { e.1 = c; }
    }
    let failures: Vec<Value> = agg.iter().map(|(w, (n, c))| json!({"what": w, "occurrences": n, "case": c})).collect();

    let shards = ((tie.terms.len() + 899) / 900).max(16);
    let files = cf::write_shards(out, "c09_cases", TIE_IMPORTS, "case09", TIE_EVAL, &tie.terms, shards)?;
    let mut f = std::fs::File::create(out.join("c09_cases.jsonl"))?;
    for j in &tie.jsonl { writeln!(f, "{}", j)?; }
    let samples: Vec<Value> = tie.jsonl.iter().filter(|j| matches!(j["kind"].as_str(), Some("lastsat") | Some("locked") | Some("bisect") | Some("mine"))).step_by(211).take(5).cloned().collect();
    let names = method_names();
    let meta = json!({
        "files": files,
        "evaluations": tie.terms.len() as u64 + dev.cases + release.as_ref().map(|r| r.cases).unwrap_or(0),
        "distinct_nontrivial": tie.distinct.len(),
        "rule": "component tie: every function of Model/Requests.v on generated inputs (UTF-8 validity: boundary bytes in every position up to length 4 + random; from_str_radix: every ASCII char, sign/digit combinations, values around 2^64 in both radices, random digit strings; parse_block_number / tx count / getLogs range through the real handlers with every tag string incl. multi-byte and oversized ones; brc20_mine and brc20_initialise on empty and initialised engines; the bisection against the number of executions recorded by the lock hook; the five custom precompiles through eth_call / eth_callMany with ABI-valid and invalid data and every referenced Bitcoin transaction overridden); a case is non-trivial when its input is non-empty, distinct = distinct (kind, input). Stream: every registered method x (junk shapes, wrong arity, every position x boundary / malformed / ill-typed values around a well-formed baseline), arbitrary bytes as init code / runtime code / call data on the write and read paths, precompile calls direct / through a contract / on the write path, Bitcoin transaction overrides (valid, truncated, garbage, mutated); each request is followed by the liveness probe (eth_blockNumber, eth_getBlockByNumber, an EVM read of a known storage slot, brc20_mine(1) with the height checked).",
        "tie_case_kinds": tie.counters,
        "tie_notes": tie.notes,
        "tie_seconds": t_tie,
        "registered_methods": names.len(),
        "methods_without_signature_recipe": names.iter().filter(|m| schema(m).is_none()).collect::<Vec<_>>(),
        "stream_dev": {"cases": dev.cases, "classes": dev.classes, "requests_per_method": dev.by_method, "restarts_after_hang_or_abort": dev.restarts, "environment_faults_no_bitcoin_node": dev.env, "seconds": dev.seconds, "slowest": dev.slowest},
        "stream_release": release_note,
        "measurements": measured,
        "overflow_checks": if overflow_checks_on() { "on (dev profile)" } else { "off" },
        "harness_seconds": t_start.elapsed().as_secs_f64(),
        "samples": samples,
        "impl_failures": failures,
    });
    std::fs::write(out.join("c09_meta.json"), serde_json::to_string_pretty(&meta)?)?;
    Ok(())
}
