//! C09 -- no request can crash, hang or wedge the server.
//!
//! (a) component tie: generated inputs for every function of Model/Requests.v; the real
//!     function's outcome (through the real JSON-RPC method table, `sim::Inst::rpc`, or a direct
//!     call under `catch_unwind` where the function is exported) goes into Coq case files and is
//!     compared with the model's by Model/Tie09.v.
//! (b) implementation-level search: a malformed-request stream over every registered method,
//!     arbitrary bytes as init code / runtime code / call data, calls into the precompiles with
//!     ABI-valid and invalid data and Bitcoin-transaction overrides. Every request is followed
//!     by a liveness probe (reads + one write round); a panic, a hang or a failed probe is an
//!     `impl_failure`.
//!
//! The stream runs in worker processes (`hx c09-stream`): a hung request cannot be cancelled, the
//! worker records it and exits, the parent restarts it behind the offending case. In the
//! thorough tier the parent also builds the release profile (overflow checks off) and runs the
//! same stream there.
use std::collections::BTreeMap;
use std::io::Write as _;
use std::panic::{catch_unwind, AssertUnwindSafe};
use std::path::{Path, PathBuf};
use std::time::{Duration, Instant};

use alloy::primitives::{Address, Bytes, B256, U256};
use alloy::sol_types::{sol, SolCall};
use base64::prelude::BASE64_STANDARD_NO_PAD;
use base64::Engine as _;
use brc20_prog::verif_hooks as vh;
use serde_json::{json, Value};

use crate::coqfmt as cf;
use crate::rng::Rng;
use crate::sim::{self, cd, Inst, RpcFail};

type R<T> = Result<T, Box<dyn std::error::Error>>;

pub const PC_BIP322: &str = "0x00000000000000000000000000000000000000fe";
pub const PC_TXDETAILS: &str = "0x00000000000000000000000000000000000000fd";
pub const PC_LASTSAT: &str = "0x00000000000000000000000000000000000000fc";
pub const PC_LOCKED: &str = "0x00000000000000000000000000000000000000fb";
pub const PC_OPRETURN: &str = "0x00000000000000000000000000000000000000fa";

sol! {
    function getLockedPkscript(bytes pkscript, uint256 lock_block_count) returns (bytes locked_pkscript);
    function getTxDetails(bytes32 txid) returns (uint256 block_height, bytes32[] vin_txids, uint256[] vin_vouts , bytes[] vin_scriptPubKeys, uint256[] vin_values, bytes[] vout_scriptPubKeys, uint256[] vout_values);
    function getLastSatLocation(bytes32 txid, uint256 vout, uint256 sat) returns (bytes32 last_txid, uint256 last_vout, uint256 last_sat, bytes old_pkscript, bytes new_pkscript);
    function verify(bytes pkscript, bytes message, bytes signature) returns (bool success);
    function getTxId() returns (bytes32);
}

const PK: &str = "5120e0e224cd541454519b62047aa0891ea7b81a16598556aeb83a412a0b06a20aab";
const TS: u64 = 1_700_000_000;

fn hx0(b: &[u8]) -> String { format!("0x{}", hex::encode(b)) }
fn h32(x: u64) -> String { format!("0x{:064x}", x) }

// ------------------------------------------------------------------------------------------
// outcome of one request
// ------------------------------------------------------------------------------------------

#[derive(Clone, Debug, PartialEq)]
pub enum Out { Ok(Value), Err(i64, String), Panic(String), Hang }
impl Out {
    fn of(r: Result<Value, RpcFail>) -> Out {
        match r {
            Ok(v) => Out::Ok(v),
            Err(RpcFail::Err { code, message }) => Out::Err(code, message),
            Err(RpcFail::Panic(m)) => Out::Panic(m),
            Err(RpcFail::Hang) => Out::Hang,
        }
    }
    /// 0 = Ok, 1 = Err, 2 = Panic, 3 = Hang
    fn class(&self) -> u64 { match self { Out::Ok(_) => 0, Out::Err(..) => 1, Out::Panic(_) => 2, Out::Hang => 3 } }
    fn class_name(&self) -> &'static str { ["Ok", "Err", "Panic", "Hang"][self.class() as usize] }
    fn brief(&self) -> String {
        match self {
            Out::Ok(v) => { let s = v.to_string(); format!("Ok {}", if s.len() > 120 { format!("{}..({}B)", &s[..120.min(s.len())], s.len()) } else { s }) }
            Out::Err(c, m) => format!("Err {} {}", c, if m.len() > 160 { &m[..160] } else { m }),
            Out::Panic(m) => format!("Panic {}", m),
            Out::Hang => "Hang".into(),
        }
    }
    fn is_fatal(&self) -> bool { matches!(self, Out::Panic(_) | Out::Hang) }
    /// the environment fault that is out of scope: no Bitcoin node behind the configured URL
    fn is_env(&self) -> bool { matches!(self, Out::Panic(m) if m.starts_with("Bitcoin RPC unreachable")) }
}

// ------------------------------------------------------------------------------------------
// an engine in a known state + the liveness probe
// ------------------------------------------------------------------------------------------

pub struct Eng {
    pub inst: Inst,
    /// address of the multi-tool contract (empty on an `empty` engine)
    pub tool: String,
    pub tool_insc: String,
    /// a transaction hash / block hash that exist
    pub tx_hash: String,
    pub block1_hash: String,
    pub empty: bool,
    pub requests: u64,
}

fn tail(idx: u64, insc: &str, byte_len: u64) -> Value { json!([TS, h32(0), idx, insc, byte_len, h32(0)]) }

impl Eng {
    /// engine on an empty database
    pub fn empty() -> Eng {
        Eng { inst: Inst::temp(), tool: String::new(), tool_insc: String::new(), tx_hash: h32(0), block1_hash: h32(0), empty: true, requests: 0 }
    }

    /// initialised engine: controller deployed (block 0), multi-tool deployed and used (storage, logs,
    /// a created child) in block 1, 13 more blocks, all committed
    pub fn standard() -> R<Eng> {
        let mut e = Eng::empty();
        e.empty = false;
        let must = |e: &mut Eng, m: &str, p: Value| -> R<Value> {
            match e.inst.rpc(m, p.clone()) { Ok(v) => Ok(v), Err(f) => Err(format!("standard state: {} {} answered {:?}", m, p, f).into()) }
        };
        // the Bitcoin node is absent: initialise deploys and finalises, then reports the node as unreachable
        let _ = e.inst.rpc("brc20_initialise", json!([h32(0), TS, 0]));
        let rec = must(&mut e, "brc20_deploy", json!([PK, hx0(&sim::multitool_init()), null, TS, h32(0), 0, "c09_tool_i0", 100000, h32(0)]))?;
        e.tool = rec["contractAddress"].as_str().ok_or("no contractAddress")?.to_string();
        e.tool_insc = "c09_tool_i0".into();
        e.tx_hash = rec["transactionHash"].as_str().ok_or("no transactionHash")?.to_string();
        e.block1_hash = rec["blockHash"].as_str().ok_or("no blockHash")?.to_string();
        let calls: Vec<Vec<u8>> = vec![
            cd::sstore(U256::from(7u64), U256::from(0xC09u64)),
            cd::log(&[U256::from(1u64), U256::from(2u64)], U256::from(3u64)),
            cd::create(),
        ];
        for (i, c) in calls.iter().enumerate() {
            let tool = e.tool.clone();
            must(&mut e, "brc20_call", json!([PK, tool, null, hx0(c), null, TS, h32(0), 1 + i as u64, format!("c09_call_i{}", i), 100000, h32(0)]))?;
        }
        must(&mut e, "brc20_finaliseBlock", json!([TS, h32(0), 4]))?;
        // everything committed and more than the reorg window above the block the probe's canary lives in
        must(&mut e, "brc20_mine", json!([13, TS]))?;
        must(&mut e, "brc20_commitToDatabase", json!([]))?;
        Ok(e)
    }

    pub fn rpc(&mut self, m: &str, p: Value) -> Out { self.requests += 1; Out::of(self.inst.rpc(m, p)) }

    fn height(&mut self) -> Result<u64, String> {
        match self.rpc("eth_blockNumber", json!([])) {
            Out::Ok(Value::String(s)) => u64::from_str_radix(s.trim_start_matches("0x"), 16).map_err(|e| format!("eth_blockNumber answered {}: {}", s, e)),
            o => Err(format!("eth_blockNumber: {}", o.brief())),
        }
    }

    /// The liveness probe. Reads: eth_blockNumber, eth_getBlockByNumber(that height), the value the
    /// standard state stored (through the EVM: read_contract takes the store out of its slot).
    /// Write round: brc20_mine(1) (after brc20_clearCaches if the request left a block open), and the
    /// height must have advanced by exactly one.
    pub fn probe(&mut self) -> Result<(), String> {
        let h = self.height()?;
        let has_genesis = match self.rpc("eth_getBlockByNumber", json!([format!("0x{:x}", h), false])) {
            Out::Ok(b) => {
                if b["number"].as_str().map(|s| s.to_lowercase()) != Some(format!("0x{:x}", h)) { return Err(format!("eth_getBlockByNumber({}) answered block {}", h, b["number"])); }
                true
            }
            Out::Err(_, m) if m.contains("Block not found") && h == 0 => false,
            o => return Err(format!("eth_getBlockByNumber({}): {}", h, o.brief())),
        };
        // a request may leave a block open (a transaction-carrying indexer call that succeeded): reads
        // through the EVM then wait for it (5 s, by design); the indexer's way out is brc20_clearCaches
        let waiting = match self.rpc("verif_probe", json!({})) { Out::Ok(v) => v["waiting"].as_u64().unwrap_or(0), o => return Err(format!("verif_probe: {}", o.brief())) };
        if waiting != 0 {
            match self.rpc("brc20_clearCaches", json!([])) { Out::Ok(_) => {}, o => return Err(format!("brc20_clearCaches: {}", o.brief())) }
        }
        if !self.empty {
            if !has_genesis { return Err("block 0 disappeared".into()); }
            let want = format!("0x{:064x}", 0xC09u64);
            match self.rpc("eth_call", json!([{"to": self.tool, "data": hx0(&cd::sload(U256::from(7u64)))}, "latest"])) {
                Out::Ok(Value::String(s)) if s == want => {}
                o => return Err(format!("canary eth_call: {}", o.brief())),
            }
        }
        // write round
        let mut h0 = self.height()?;
        let mut mined = self.rpc("brc20_mine", json!([1, TS]));
        if let Out::Err(_, m) = &mined {
            if m.contains("waiting txes") {
                match self.rpc("brc20_clearCaches", json!([])) { Out::Ok(_) => {}, o => return Err(format!("brc20_clearCaches: {}", o.brief())) }
                h0 = self.height()?;
                mined = self.rpc("brc20_mine", json!([1, TS]));
            }
        }
        match mined { Out::Ok(_) => {}, o => return Err(format!("brc20_mine(1): {}", o.brief())) }
        let h1 = self.height()?;
        let want = if !has_genesis && h0 == 0 { 0 } else { h0 + 1 };
        if h1 != want { return Err(format!("height after brc20_mine(1) is {}, expected {}", h1, want)); }
        Ok(())
    }
}

// ------------------------------------------------------------------------------------------
// development probe: hx c09-probe --file requests.json   ([{"state":"std|empty","method":..,"params":..}])
// ------------------------------------------------------------------------------------------

pub fn probe_main(args: &[String]) -> R<()> {
    let file = args.iter().position(|a| a == "--file").and_then(|i| args.get(i + 1)).ok_or("--file")?;
    let reqs: Vec<Value> = serde_json::from_str(&std::fs::read_to_string(file)?)?;
    let mut eng: Option<Eng> = None;
    for r in reqs {
        let state = r["state"].as_str().unwrap_or("std");
        if eng.is_none() || r["fresh"].as_bool().unwrap_or(false) || eng.as_ref().map(|e| e.empty != (state == "empty")).unwrap_or(false) {
            eng = Some(if state == "empty" { Eng::empty() } else { Eng::standard()? });
        }
        let e = eng.as_mut().unwrap();
        let mut p = r["params"].clone();
        subst(&mut p, e);
        let t = Instant::now();
        let o = e.rpc(r["method"].as_str().unwrap_or(""), p);
        let dt = t.elapsed();
        let live = e.probe();
        println!("{} {} -> {}   [{:?}] probe: {:?}", r["method"], r["note"], o.brief(), dt, live);
        if live.is_err() { eng = None; }
    }
    Ok(())
}

/// "$TOOL", "$TX", "$BLOCK1" placeholders in probe files
fn subst(v: &mut Value, e: &Eng) {
    match v {
        Value::String(s) => {
            if s == "$TOOL" { *s = e.tool.clone(); } else if s == "$TX" { *s = e.tx_hash.clone(); } else if s == "$BLOCK1" { *s = e.block1_hash.clone(); }
        }
        Value::Array(a) => for x in a { subst(x, e); },
        Value::Object(o) => for (_, x) in o.iter_mut() { subst(x, e); },
        _ => {}
    }
}


// ------------------------------------------------------------------------------------------
// Bitcoin transactions for the bitcoinTxHexes override (legacy serialisation, written by hand)
// ------------------------------------------------------------------------------------------

fn varint(n: u64, out: &mut Vec<u8>) {
    if n < 0xfd { out.push(n as u8) } else if n <= 0xffff { out.push(0xfd); out.extend_from_slice(&(n as u16).to_le_bytes()) }
    else if n <= 0xffff_ffff { out.push(0xfe); out.extend_from_slice(&(n as u32).to_le_bytes()) }
    else { out.push(0xff); out.extend_from_slice(&n.to_le_bytes()) }
}
/// inputs: (previous txid in serialisation order, vout); outputs: (value, script)
pub fn btc_tx(ins: &[([u8; 32], u32)], outs: &[(u64, Vec<u8>)]) -> Vec<u8> {
    let mut b = 2u32.to_le_bytes().to_vec();
    varint(ins.len() as u64, &mut b);
    for (t, v) in ins { b.extend_from_slice(t); b.extend_from_slice(&v.to_le_bytes()); varint(0, &mut b); b.extend_from_slice(&[0xff; 4]); }
    varint(outs.len() as u64, &mut b);
    for (val, sc) in outs { b.extend_from_slice(&val.to_le_bytes()); varint(sc.len() as u64, &mut b); b.extend_from_slice(sc); }
    b.extend_from_slice(&[0u8; 4]);
    b
}
/// key under which the precompiles look a previous transaction up: the txid bytes reversed
fn rev32(t: &[u8; 32]) -> [u8; 32] { let mut r = *t; r.reverse(); r }
fn pd(op_returns: &[String], txs: &[([u8; 32], Vec<u8>)]) -> Value {
    let mut m = serde_json::Map::new();
    for (k, v) in txs { m.insert(hx0(k), json!(hx0(v))); }
    json!({"opReturnTxIds": op_returns, "bitcoinTxHexes": Value::Object(m)})
}

// ------------------------------------------------------------------------------------------
// the stream
// ------------------------------------------------------------------------------------------

#[derive(Clone, Debug, PartialEq)]
pub enum St { Std, Empty }

#[derive(Clone, Debug)]
pub struct Case {
    pub id: u64,
    pub st: St,
    pub kind: String,
    pub method: String,
    pub params: Value,
    /// start from a fresh engine (the case depends on the exact height / an untouched store)
    pub fresh: bool,
    /// the request is expected to need the absent Bitcoin node (5 retries of 1 s, then the
    /// documented "Bitcoin RPC unreachable" panic): environment fault, out of scope
    pub env: bool,
}

struct Cases { v: Vec<Case> }
impl Cases {
    fn add(&mut self, st: St, kind: &str, method: &str, params: Value) -> &mut Case {
        let id = self.v.len() as u64;
        self.v.push(Case { id, st, kind: kind.to_string(), method: method.to_string(), params, fresh: false, env: false });
        self.v.last_mut().unwrap()
    }
    fn std(&mut self, kind: &str, method: &str, params: Value) -> &mut Case { self.add(St::Std, kind, method, params) }
    fn empty(&mut self, kind: &str, method: &str, params: Value) -> &mut Case { let c = self.add(St::Empty, kind, method, params); c.fresh = true; c }
}

/// parameter types of the registered methods (positional)
#[derive(Clone, Copy, Debug, PartialEq)]
enum T { U64, OptU64, Pk, Str, Tag, OptTag, HashOrNum, Hash32, Addr, OptAddr, Big, OptStr, OptRaw, OptB64, Raw, OptBool, Call, Calls, OptPd, Filter }

fn schema(m: &str) -> Option<Vec<T>> {
    use T::*;
    Some(match m {
        "brc20_version" | "brc20_commitToDatabase" | "brc20_clearCaches" | "eth_blockNumber" | "eth_chainId"
        | "eth_maxPriorityFeePerGas" | "eth_blobBaseFee" | "net_version" | "web3_clientVersion" | "eth_accounts"
        | "eth_gasPrice" | "eth_syncing" | "txpool_content" => vec![],
        "brc20_mine" => vec![U64, U64],
        "brc20_deploy" => vec![Pk, OptRaw, OptB64, U64, Hash32, U64, Str, U64, Hash32],
        "brc20_call" => vec![Pk, OptAddr, OptStr, OptRaw, OptB64, U64, Hash32, U64, Str, U64, Hash32],
        "brc20_transact" => vec![OptRaw, OptB64, U64, Hash32, U64, Str, U64, Hash32],
        "brc20_deposit" | "brc20_withdraw" => vec![Pk, Str, Big, U64, Hash32, U64, Str],
        "brc20_balance" => vec![Pk, Str],
        "brc20_initialise" => vec![Hash32, U64, U64],
        "brc20_getTxReceiptByInscriptionId" => vec![Str],
        "brc20_getInscriptionIdByTxHash" | "eth_getBlockTransactionCountByHash" | "eth_getTransactionReceipt"
        | "debug_traceTransaction" | "eth_getTransactionByHash" | "eth_getUncleCountByBlockHash" => vec![Hash32],
        "brc20_getInscriptionIdByContractAddress" | "eth_getCode" | "txpool_contentFrom" => vec![Addr],
        "brc20_finaliseBlock" => vec![U64, Hash32, U64],
        "brc20_reorg" | "eth_getUncleCountByBlockNumber" => vec![U64],
        "eth_getBlockByNumber" => vec![Tag, OptBool],
        "eth_getBlockByHash" => vec![Hash32, OptBool],
        "eth_getTransactionCount" | "eth_getBalance" => vec![Addr, Tag],
        "eth_getBlockTransactionCountByNumber" | "debug_getBlockTraceString" | "debug_getBlockTraceHash" => vec![Tag],
        "eth_getLogs" => vec![Filter],
        "eth_call" | "eth_estimateGas" => vec![Call, OptTag],
        "eth_callMany" | "eth_estimateGasMany" => vec![Calls, OptTag, OptPd],
        "eth_getStorageAt" => vec![Addr, Big],
        "eth_getTransactionByBlockNumberAndIndex" | "eth_getUncleByBlockNumberAndIndex" => vec![U64, OptU64],
        "eth_getTransactionByBlockHashAndIndex" | "eth_getUncleByBlockHashAndIndex" => vec![Hash32, OptU64],
        "web3_sha3" => vec![Raw],
        "debug_getRawHeader" | "debug_getRawBlock" | "debug_getRawReceipts" => vec![HashOrNum],
        _ => return None,
    })
}

pub const BOUNDARY_U64: [u64; 14] = [0, 1, 2, 255, 65535, 65536, (1 << 31) - 1, 1 << 31, (1 << 32) - 1, 1 << 32, (1u64 << 53) + 1, (1u64 << 63) - 1, 1u64 << 63, u64::MAX - 1];

/// strings offered wherever a block number / tag is expected
pub fn tag_strings() -> Vec<String> {
    let mut v: Vec<String> = ["latest", "safe", "finalized", "pending", "earliest", "LATEST", "Latest", "latest ", " latest", "", " ", "0", "1", "5", "007",
        "+1", "-1", "-0", "+", "-", "++1", "1_000", "1e3", "1.0", "0x", "0x0", "0x1", "0x5", "0X5", "0x+5", "0x-5", "0x+", "0x-", "0x 5", "0x5 ", "0xg",
        "0x0x5", "0xffffffffffffffff", "0xfffffffffffffffe", "0x10000000000000000", "0x00000000000000000000000000000005", "0xFFFFFFFFFFFFFFFF",
        "18446744073709551615", "18446744073709551614", "18446744073709551616", "99999999999999999999999999", "0b101", "0o7", "foo", "null", "\u{0}", "0x\u{0}",
        "\u{e9}", "0x\u{e9}", "0\u{e9}", "0x\u{20ac}", "0x5\u{20ac}", "0\u{78}\u{301}5", "\u{ff10}\u{ff58}\u{ff15}", "\u{661}", "0x\u{1f600}", "\u{1f600}", "0\u{1f600}", "x", "0", "00x5",
        "\u{feff}5", "5\n", "\t5", "0x5\u{0}"].iter().map(|s| s.to_string()).collect();
    v.push(format!("0x{}", "0".repeat(300)));
    v.push(format!("0x{}5", "0".repeat(300)));
    v.push("9".repeat(300));
    v
}

fn junk_values() -> Vec<Value> {
    vec![Value::Null, json!(true), json!(0), json!(-1), json!(1.5), json!(1e308), json!(-9223372036854775808i64), json!(18446744073709551615u64),
        json!(""), json!("x"), json!("0x"), json!("\u{0}"), json!([]), json!([[]]), json!({}), json!({"a": {"b": []}}), json!([null, null]), json!("\u{1f600}\u{e9}")]
}

fn nested(depth: usize, obj: bool) -> Value {
    let mut v = Value::Null;
    for _ in 0..depth {
        v = if obj { let mut m = serde_json::Map::new(); m.insert("a".into(), v); Value::Object(m) } else { Value::Array(vec![v]) };
    }
    v
}

/// values offered at a position of type `t`: boundary, malformed and ill-typed ones
fn values_for(t: T, big: &str) -> Vec<Value> {
    use T::*;
    let mut v: Vec<Value> = vec![];
    let u64s = |v: &mut Vec<Value>| {
        for x in BOUNDARY_U64 { v.push(json!(x)); }
        v.push(json!(u64::MAX));
        for s in ["$H", "$H-1", "$H+1", "$H-10", "$H-11"] { v.push(json!(s)); }
        v.push(serde_json::from_str("18446744073709551616").unwrap());
        v.push(serde_json::from_str("1e19").unwrap());
        v.push(serde_json::from_str("340282366920938463463374607431768211456").unwrap());
        for x in [json!(-1), json!(0.5), json!(1.0), json!("5"), json!("0x5"), json!(true), json!([]), json!([5]), json!({}), Value::Null] { v.push(x); }
    };
    let hexes = |v: &mut Vec<Value>, n: usize| {
        for s in [format!("0x{}", "00".repeat(n)), format!("0x{}", "ff".repeat(n)), format!("0x{}", "Ab".repeat(n)), "ab".repeat(n), format!("0X{}", "ab".repeat(n)),
            format!("0x{}", "ab".repeat(n - 1)), format!("0x{}", "ab".repeat(n + 1)), format!("0x{}a", "ab".repeat(n - 1)), format!("0x{}", "zz".repeat(n)),
            "0x".to_string(), String::new(), "0".to_string(), format!("0x{}\u{e9}", "ab".repeat(n - 1)), format!(" 0x{}", "ab".repeat(n)), format!("0x0x{}", "ab".repeat(n - 1))] {
            v.push(json!(s));
        }
        for x in [json!(0), json!(-1), json!([]), json!({}), json!(true), Value::Null, json!(big)] { v.push(x); }
    };
    match t {
        U64 => u64s(&mut v),
        OptU64 => { u64s(&mut v); }
        Tag | OptTag | HashOrNum => {
            for s in tag_strings() { v.push(json!(s)); }
            if t == HashOrNum { for s in ["$BLOCK1", "\"$BLOCK1\"", "\"0x00\"", "\"", "\"\"", "[]", "{}", "nul", "null", "1e400", "[[[[[[[[[[[[[[[["] { v.push(json!(s)); } v.push(json!(format!("{}", "[".repeat(100000)))); v.push(json!(format!("\"{}", "\\".repeat(99999)))); }
            for x in [json!(0), json!(5), json!(-1), json!([]), json!({}), json!(true), Value::Null, json!(big)] { v.push(x); }
        }
        Hash32 => hexes(&mut v, 32),
        Addr | OptAddr => hexes(&mut v, 20),
        Big => {
            for s in ["0x0", "0x1", "0", "1", "0xffffffffffffffff", "0x10000000000000000", "115792089237316195423570985008687907853269984665640564039457584007913129639935",
                "115792089237316195423570985008687907853269984665640564039457584007913129639936", "0xffffffffffffffffffffffffffffffffffffffffffffffffffffffffffffffff",
                "0x10000000000000000000000000000000000000000000000000000000000000000", "", "0x", "-1", "+1", "1e3", "0b1", "0o7", "\u{e9}", "0x\u{e9}", " 1", "1 "] { v.push(json!(s)); }
            for x in [json!(0), json!(5), json!(u64::MAX), json!(-1), json!(1.5), json!([]), json!({}), json!(true), Value::Null, json!(big)] { v.push(x); }
            v.push(serde_json::from_str("18446744073709551616").unwrap());
        }
        Pk => {
            for s in [PK, "", "0", "00", "0x00", "zz", "51", "\u{e9}", "5120\u{e9}", " 5120", "0X51"] { v.push(json!(s)); }
            v.push(json!("ab".repeat(100000)));
            for x in [json!(0), json!([]), json!({}), Value::Null, json!(big)] { v.push(x); }
        }
        Str | OptStr => {
            for s in ["", "a", "ordi", "ORDI", "\u{0}", "\u{130}", "\u{df}\u{1e9e}", "\u{1f600}", "c09_tool_i0", "c09_call_i1", "nope", "a\u{301}", "\u{feff}", "i\u{307}", "\u{3a3}\u{3c2}"] { v.push(json!(s)); }
            for x in [json!(0), json!([]), json!({}), json!(true), Value::Null, json!(big)] { v.push(x); }
        }
        OptRaw | Raw => {
            for s in ["0x", "", "0x0", "0x00", "00", "0X00", "0xzz", "0x0g", "\u{e9}", "0x\u{e9}\u{e9}", "0x00 ", " 0x00", "0x0x00", "0x6000", "6000", "0xfe", "0xEF00"] { v.push(json!(s)); }
            v.push(json!(format!("0x{}", "00".repeat(70000))));
            v.push(json!(format!("0x{}", "5b".repeat(500000))));
            for x in [json!(0), json!([]), json!([0, 1]), json!({}), json!(true), Value::Null, json!(big)] { v.push(x); }
        }
        OptB64 => {
            for s in ["", "=", "==", "A", "AA", "AA=", "AA==", "AAA", "AAAA", "AQ", "Ag", "Aw", "/w", "//8", "!!", "AA AA", "AA\nAA", "\u{e9}", "A\u{e9}==", "AA=\u{e9}", "=AAAA", "A=AA", "AQD/", "AQD/AA", "AQD//w", "Av///w", "AijEsvYgBA", "AAECAwQ"] { v.push(json!(s)); }
            for p in 0u8..=8 { v.push(json!(BASE64_STANDARD_NO_PAD.encode([p, 0x60, 0x00, 0x60, 0x00, 0xf3]))); v.push(json!(BASE64_STANDARD_NO_PAD.encode([p]))); }
            for p in [0x7fu8, 0x80, 0xfe, 0xff] { v.push(json!(BASE64_STANDARD_NO_PAD.encode([p, 1, 2, 3]))); }
            for x in [json!(0), json!([]), json!({}), json!(true), Value::Null, json!(big)] { v.push(x); }
        }
        OptBool => { for x in [json!(true), json!(false), Value::Null, json!(0), json!(1), json!("true"), json!([]), json!({})] { v.push(x); } }
        Call => {
            for x in [json!({}), json!({"data": null}), json!({"input": "0x"}), json!({"data": "0x", "input": "0x"}), json!({"data": "zz"}), json!({"data": 5}), json!({"data": []}),
                json!({"to": null, "data": "0x"}), json!({"to": "0x00", "data": "0x"}), json!({"to": 5, "data": "0x"}), json!({"from": "nope", "to": "nope", "data": "0x"}),
                json!({"from": [], "data": "0x"}), json!({"data": "0x", "gas": "0x1", "value": "0x1", "gasPrice": 5, "extra": {"a": []}}), json!({"to": "$TOOL", "data": "0x04"}),
                json!({"to": "$TOOL", "data": "0x03"}), json!({"to": "$TOOL"}), json!([]), json!(["0x"]), json!("0x"), json!(5), Value::Null, json!({"to": "$TOOL", "data": big})] { v.push(x); }
        }
        Calls => {
            for x in [json!([]), json!([{}]), json!([{"data": "0x"}]), json!([{"data": "0x"}, {}]), json!([{"data": "0x"}, null]), json!([null]), json!([[]]), json!([5]), json!({}), json!("x"), Value::Null,
                json!([{"to": "$TOOL", "data": "0x03"}, {"to": "$TOOL", "data": "0x04"}]), json!([{"to": "$TOOL", "data": "0x04"}, {"to": "$TOOL", "data": "0x03"}])] { v.push(x); }
            v.push(Value::Array((0..300).map(|_| json!({"data": "0x"})).collect()));
        }
        OptPd => {
            let z = h32(0);
            for x in [Value::Null, json!({}), json!({"opReturnTxIds": []}), json!({"bitcoinTxHexes": {}}), json!({"opReturnTxIds": [], "bitcoinTxHexes": {}}), json!({"opReturnTxIds": [z.clone(), z.clone(), z.clone()], "bitcoinTxHexes": {}}),
                json!({"opReturnTxIds": ["0x00"], "bitcoinTxHexes": {}}), json!({"opReturnTxIds": [5], "bitcoinTxHexes": {}}), json!({"opReturnTxIds": null, "bitcoinTxHexes": null}),
                json!({"opReturnTxIds": [], "bitcoinTxHexes": {"0x00": "0x00"}}), json!({"opReturnTxIds": [], "bitcoinTxHexes": {z.clone(): "zz"}}), json!({"opReturnTxIds": [], "bitcoinTxHexes": {z.clone(): 5}}),
                json!({"opReturnTxIds": [], "bitcoinTxHexes": {z.clone(): null}}), json!({"opReturnTxIds": [], "bitcoinTxHexes": {z.clone(): "0x"}}), json!({"opReturnTxIds": [], "bitcoinTxHexes": []}),
                json!({"opReturnTxIds": {}, "bitcoinTxHexes": {}}), json!([]), json!(5), json!("x"), json!({"opReturnTxIds": [], "bitcoinTxHexes": {z.clone(): big}})] { v.push(x); }
        }
        Filter => {
            for x in [json!({}), Value::Null, json!([]), json!(5), json!({"fromBlock": 5}), json!({"fromBlock": "0x1", "toBlock": "0x0"}), json!({"fromBlock": "0x0", "toBlock": "0xffffffffffffffff"}),
                json!({"fromBlock": "0xffffffffffffffff", "toBlock": "0xffffffffffffffff"}), json!({"fromBlock": "0xffffffffffffffff"}), json!({"toBlock": "0xffffffffffffffff"}), json!({"fromBlock": "0xfffffffffffffffa", "toBlock": "0xffffffffffffffff"}),
                json!({"fromBlock": "0x0", "toBlock": "0x5"}), json!({"fromBlock": "0x0", "toBlock": "0x6"}), json!({"fromBlock": "pending", "toBlock": "earliest"}), json!({"fromBlock": "garbage", "toBlock": "\u{e9}"}),
                json!({"address": "nope"}), json!({"address": []}), json!({"address": ["$TOOL"]}), json!({"topics": []}), json!({"topics": [null]}), json!({"topics": [[]]}), json!({"topics": [[null]]}), json!({"topics": [[[]]]}),
                json!({"topics": ["0x00"]}), json!({"topics": [5]}), json!({"topics": {}}), json!({"topics": "x"}), json!({"topics": [h32(1), [h32(2), null], null, [], h32(3), h32(4), h32(5)]}),
                json!({"fromBlock": "0x1", "toBlock": "0x1", "topics": [null, null, null, null, null, null, null, null, h32(1)]}), json!({"blockHash": "$BLOCK1"}), json!({"fromBlock": "0x1", "toBlock": "0x1", "address": "$TOOL", "topics": [[h32(1), h32(9)], h32(2)]})] { v.push(x); }
            v.push(json!({"fromBlock": "0x1", "toBlock": "0x1", "topics": (0..5000).map(|i| json!([h32(i), null])).collect::<Vec<_>>()}));
        }
    }
    v
}

/// a well-formed value for a position (the "valid baseline" the other positions are varied around)
fn baseline(m: &str, i: usize, t: T) -> Value {
    use T::*;
    match t {
        U64 => match (m, i) { ("brc20_mine", 0) => json!(1), ("brc20_reorg", _) => json!("$H"), ("brc20_initialise", 2) => json!(0), ("brc20_deploy", 7) | ("brc20_call", 9) | ("brc20_transact", 6) => json!(2000), ("brc20_deploy", 5) | ("brc20_call", 7) | ("brc20_transact", 4) | ("brc20_deposit", 5) | ("brc20_withdraw", 5) | ("brc20_finaliseBlock", 2) => json!(0), ("eth_getTransactionByBlockNumberAndIndex", 0) => json!(1), _ => json!(TS) },
        OptU64 => json!(0),
        Pk => json!(PK),
        Str => match m { "brc20_deposit" | "brc20_withdraw" | "brc20_balance" if i == 1 => json!("ordi"), "brc20_getTxReceiptByInscriptionId" => json!("c09_tool_i0"), _ => json!("c09_stream_insc") },
        Tag | OptTag => json!("latest"),
        HashOrNum => json!("0x1"),
        Hash32 => match m { "brc20_getInscriptionIdByTxHash" | "eth_getTransactionReceipt" | "debug_traceTransaction" | "eth_getTransactionByHash" => json!("$TX"), "eth_getBlockByHash" | "eth_getBlockTransactionCountByHash" | "eth_getTransactionByBlockHashAndIndex" => json!("$BLOCK1"), _ => json!(h32(0)) },
        Addr | OptAddr => json!("$TOOL"),
        Big => json!("0x7"),
        OptStr => Value::Null,
        OptRaw | Raw => json!("0x0600000000000000000000000000000000000000000000000000000000000000007"),
        OptB64 => Value::Null,
        OptBool => json!(true),
        Call => json!({"to": "$TOOL", "data": hx0(&cd::sload(U256::from(7u64)))}),
        Calls => json!([{"to": "$TOOL", "data": hx0(&cd::sload(U256::from(7u64)))}, {"to": "$TOOL", "data": hx0(&cd::log(&[U256::from(5u64)], U256::from(6u64)))}]),
        OptPd => Value::Null,
        Filter => json!({"fromBlock": "0x1", "toBlock": "0x1"}),
    }
}

fn random_bytes(rng: &mut Rng, n: usize) -> Vec<u8> { (0..n).map(|_| rng.next() as u8).collect() }

/// byte strings offered as init code, runtime code and call data
fn code_corpus(rng: &mut Rng, n_random: usize) -> Vec<(String, Vec<u8>)> {
    use sim::opc::*;
    let mut v: Vec<(String, Vec<u8>)> = vec![];
    let mut add = |k: &str, b: Vec<u8>| v.push((k.to_string(), b));
    add("empty", vec![]);
    for b in 0u16..=255 { add(&format!("op{:02x}", b), vec![b as u8]); }
    for b in [0x5fu8, 0x60, 0x7f, 0x80, 0x8f, 0x90, 0x9f, 0xa4, 0xf0, 0xf1, 0xf2, 0xf4, 0xf5, 0xfa, 0xff, 0x56, 0x57, 0x37, 0x39, 0x3e, 0x51, 0x52, 0x53, 0x20, 0x0a, 0x5e, 0x49, 0x4a, 0x5c, 0x5d] {
        // the opcode behind two maximal words on the stack
        let mut c = vec![]; for _ in 0..7 { c.push(0x7f); c.extend_from_slice(&[0xff; 32]); } c.push(b); add(&format!("maxargs_{:02x}", b), c);
        let mut c = vec![]; for _ in 0..7 { c.push(PUSH0); } c.push(b); add(&format!("zeroargs_{:02x}", b), c);
    }
    add("truncated_push32", vec![0x7f, 1, 2, 3]);
    add("eof_magic", vec![0xef, 0x00, 0x01, 0x01, 0x00, 0x04]);
    add("garbage", sim::init_garbage());
    add("revert", sim::init_reverting());
    add("jump_self", vec![JUMPDEST, PUSH0, JUMP]);
    add("spin_balance", { let mut a = sim::Asm::new(); a.label("l").op(PUSH0).op(BALANCE).op(POP).jump("l"); a.finish() });
    add("mem_2_64", { let mut a = sim::Asm::new(); a.push(&[0xff; 8]).op(MLOAD).op(STOP); a.finish() });
    add("mem_2_32", { let mut a = sim::Asm::new(); a.push(&[0xff; 4]).op(MLOAD).op(STOP); a.finish() });
    add("return_huge", { let mut a = sim::Asm::new(); a.push(&[0xff; 4]).op(PUSH0).op(RETURN); a.finish() });
    add("return_24577", { let mut a = sim::Asm::new(); a.pushn(24577).op(PUSH0).op(RETURN); a.finish() });
    add("return_1mb", { let mut a = sim::Asm::new(); a.pushn(1 << 20).op(PUSH0).op(RETURN); a.finish() });
    add("returndatacopy_oob", { let mut a = sim::Asm::new(); a.pushn(32).op(PUSH0).op(PUSH0).op(RETURNDATACOPY).op(STOP); a.finish() });
    add("stack_overflow", { let mut c = vec![JUMPDEST, PUSH0, PUSH0, JUMP]; c.insert(0, PUSH0); c });
    add("deep_recursion", { // call self with all gas until the depth limit
        let mut a = sim::Asm::new(); a.op(PUSH0).op(PUSH0).op(PUSH0).op(PUSH0).op(PUSH0).op(0x30 /*ADDRESS*/).op(GAS).op(CALL).op(STOP); a.finish() });
    add("create_loop", { let mut a = sim::Asm::new(); a.label("l").op(PUSH0).op(PUSH0).op(PUSH0).op(CREATE).op(POP).jump("l"); a.finish() });
    add("log_loop", { let mut a = sim::Asm::new(); a.label("l").pushn(32).op(PUSH0).op(LOG0).jump("l"); a.finish() });
    add("sstore_loop", { let mut a = sim::Asm::new(); a.op(PUSH0).label("l").pushn(1).op(ADD).op(DUP1).op(DUP1).op(SSTORE).jump("l"); a.finish() });
    add("selfdestruct", vec![PUSH0, SELFDESTRUCT]);
    add("init_of_init", sim::init_returning(&sim::init_returning(&[STOP])));
    add("init_ef", sim::init_returning(&[0xef, 0x00]));
    add("init_big", sim::init_returning(&vec![JUMPDEST; 30000]));
    add("multitool_init", sim::multitool_init());
    for pc in 1u64..=0x11 { // call every standard precompile with 0, 1 and 213 bytes of 0xff
        for len in [0u64, 1, 213] {
            let mut a = sim::Asm::new();
            a.push(&[0xff; 32]).op(PUSH0).op(MSTORE).push(&[0xff; 32]).pushn(32).op(MSTORE).push(&[0xff; 32]).pushn(64).op(MSTORE).push(&[0xff; 32]).pushn(96).op(MSTORE);
            a.pushn(32).op(PUSH0).pushn(len).op(PUSH0).pushn(pc).op(GAS).op(STATICCALL).op(STOP);
            add(&format!("pc{:02x}_len{}", pc, len), a.finish());
        }
    }
    for i in 0..n_random {
        let n = match i % 4 { 0 => rng.range(1, 8), 1 => rng.range(8, 64), 2 => rng.range(64, 400), _ => rng.range(1, 40) } as usize;
        let mut b = random_bytes(rng, n);
        if i % 4 == 3 { // bias towards real opcodes with pushes
            for x in b.iter_mut() { if *x > 0xa4 && *x < 0xf0 { *x = 0x60 + (*x % 0x20); } }
        }
        add(&format!("random{}", i), b);
    }
    v
}

fn abi_corpus(rng: &mut Rng) -> Vec<(String, &'static str, Vec<u8>)> {
    let mut v: Vec<(String, &'static str, Vec<u8>)> = vec![];
    let pk = hex::decode(PK).unwrap();
    // ---- getLockedPkscript ----
    let counts: Vec<U256> = vec![U256::ZERO, U256::from(1u64), U256::from(16u64), U256::from(17u64), U256::from(127u64), U256::from(128u64), U256::from(255u64), U256::from(256u64), U256::from(32767u64), U256::from(32768u64),
        U256::from(65535u64), U256::from(65536u64), U256::from(u64::MAX), U256::from(1u64) << 64, (U256::from(1u64) << 64) + U256::from(5u64), (U256::from(1u64) << 128) + U256::from(5u64), U256::MAX];
    for c in &counts { v.push((format!("locked_n{}", c), PC_LOCKED, getLockedPkscriptCall::new((Bytes::from(pk.clone()), *c)).abi_encode())); }
    for len in [0usize, 1, 2, 3, 33, 34, 35, 75, 76, 77, 255, 256, 520, 521, 65535, 65536, 100000] {
        for c in [1u64, 17, 65535] {
            v.push((format!("locked_pk{}_n{}", len, c), PC_LOCKED, getLockedPkscriptCall::new((Bytes::from(vec![0x51u8; len]), U256::from(c))).abi_encode()));
        }
    }
    // ---- bip322 verify ----
    let p2wpkh = hex::decode("00142b05d564e6a7a33c087f16e0f730d1440123799d").unwrap();
    let mut wit = vec![2u8, 71]; wit.extend_from_slice(&[0x30; 71]); wit.push(33); wit.extend_from_slice(&[0x02; 33]);
    let mut wit1 = vec![1u8, 64]; wit1.extend_from_slice(&[0x11; 64]);
    // [DER signature + sighash byte, uncompressed public key]
    let g_uncompressed = hex::decode("0479be667ef9dcbbac55a06295ce870b07029bfcdb2dce28d959f2815b16f81798483ada7726a3c4655da4fbfc0e1108a8fd17b448a68554199c47d08ffb10d4b8").unwrap();
    let g_compressed = hex::decode("0279be667ef9dcbbac55a06295ce870b07029bfcdb2dce28d959f2815b16f81798").unwrap();
    let mut der = vec![0x30u8, 0x44, 0x02, 0x20]; der.extend_from_slice(&[0x11; 32]); der.extend_from_slice(&[0x02, 0x20]); der.extend_from_slice(&[0x22; 32]); der.push(0x01);
    let mut wit_unc = vec![2u8, der.len() as u8]; wit_unc.extend_from_slice(&der); wit_unc.push(65); wit_unc.extend_from_slice(&g_uncompressed);
    let mut wit_cmp = vec![2u8, der.len() as u8]; wit_cmp.extend_from_slice(&der); wit_cmp.push(33); wit_cmp.extend_from_slice(&g_compressed);
    let mut wit_3 = vec![3u8, der.len() as u8]; wit_3.extend_from_slice(&der); wit_3.push(33); wit_3.extend_from_slice(&g_compressed); wit_3.push(0);
    let mut wit_65 = vec![1u8, 65]; wit_65.extend_from_slice(&[0x11; 64]); wit_65.push(0x01);
    let sigs: Vec<Vec<u8>> = vec![vec![], vec![0], vec![1], vec![1, 0], wit.clone(), wit1.clone(), wit_unc, wit_cmp, wit_3, wit_65, vec![2, 0, 0], vec![2, 1, 0, 0], vec![0xff; 9], vec![0xfe, 0xff, 0xff, 0xff, 0xff], vec![0xfd, 0xff, 0xff, 1, 2], vec![2, 0xfe, 0, 0, 0x40, 0], random_bytes(rng, 107), vec![0xff, 0xff, 0xff, 0xff, 0xff, 0xff, 0xff, 0xff, 0xff]];
    let scripts: Vec<Vec<u8>> = vec![p2wpkh.clone(), pk.clone(), vec![], vec![0x6a], vec![0x51], hex::decode("76a9142b05d564e6a7a33c087f16e0f730d1440123799d88ac").unwrap(), hex::decode("a9142b05d564e6a7a33c087f16e0f730d1440123799d87").unwrap(),
        { let mut s = vec![0x00, 0x20]; s.extend_from_slice(&[0x33; 32]); s }, { let mut s = vec![0x52, 0x02]; s.extend_from_slice(&[0x33; 2]); s }, vec![0x00, 0x14], vec![0xff; 40]];
    for (i, sc) in scripts.iter().enumerate() { for (j, sg) in sigs.iter().enumerate() {
        v.push((format!("bip322_s{}_w{}", i, j), PC_BIP322, verifyCall::new((Bytes::from(sc.clone()), Bytes::from(b"Hello World".to_vec()), Bytes::from(sg.clone()))).abi_encode()));
    } }
    v.push(("bip322_32768".into(), PC_BIP322, verifyCall::new((Bytes::from(p2wpkh.clone()), Bytes::from(vec![0x41; 32768 - 4 - 32 * 8 - 64]), Bytes::from(wit.clone()))).abi_encode()));
    v.push(("bip322_too_long".into(), PC_BIP322, verifyCall::new((Bytes::from(p2wpkh.clone()), Bytes::from(vec![0x41; 40000]), Bytes::from(wit.clone()))).abi_encode()));
    v.push(("bip322_empty_message".into(), PC_BIP322, verifyCall::new((Bytes::from(p2wpkh.clone()), Bytes::new(), Bytes::from(wit.clone()))).abi_encode()));
    // ---- op return ----
    v.push(("opreturn".into(), PC_OPRETURN, getTxIdCall::new(()).abi_encode()));
    // ---- ABI-invalid data for every custom precompile ----
    let good_locked = getLockedPkscriptCall::new((Bytes::from(pk.clone()), U256::from(6u64))).abi_encode();
    let good_verify = verifyCall::new((Bytes::from(p2wpkh), Bytes::from(b"m".to_vec()), Bytes::from(wit))).abi_encode();
    let good_details = getTxDetailsCall::new((B256::from([0x11; 32]),)).abi_encode();
    let good_lastsat = getLastSatLocationCall::new((B256::from([0x11; 32]), U256::ZERO, U256::ZERO)).abi_encode();
    for (name, addr, good) in [("locked", PC_LOCKED, good_locked), ("verify", PC_BIP322, good_verify), ("details", PC_TXDETAILS, good_details), ("lastsat", PC_LASTSAT, good_lastsat), ("opreturn", PC_OPRETURN, getTxIdCall::new(()).abi_encode())] {
        v.push((format!("abi_{}_empty", name), addr, vec![]));
        v.push((format!("abi_{}_selector_only", name), addr, good[..4.min(good.len())].to_vec()));
        v.push((format!("abi_{}_wrong_selector", name), addr, { let mut g = good.clone(); if !g.is_empty() { g[0] ^= 0xff; } g }));
        for cut in [1usize, 5, 31, 32, 33, 36, 63, 64, 67, 68, 69, 99, 100, 101, 131, 132, 133, 164] { if cut < good.len() { v.push((format!("abi_{}_cut{}", name, cut), addr, good[..cut].to_vec())); } }
        v.push((format!("abi_{}_trailing", name), addr, { let mut g = good.clone(); g.extend_from_slice(&[0xee; 37]); g }));
        // every head word replaced by an offset / length that points nowhere
        let words = (good.len().saturating_sub(4)) / 32;
        for w in 0..words.min(8) {
            for val in [U256::from(u64::MAX), U256::MAX, U256::from(1u64) << 255, U256::from(good.len() as u64), U256::from(good.len() as u64 - 4), U256::from(31u64), U256::from(1u64 << 32), U256::from((1u64 << 63) - 1)] {
                let mut g = good.clone(); g[4 + 32 * w..4 + 32 * w + 32].copy_from_slice(&val.to_be_bytes::<32>());
                v.push((format!("abi_{}_word{}_{:x}", name, w, val), addr, g));
            }
        }
        for _ in 0..6 { let n = rng.range(4, 200) as usize; let mut g = good[..4.min(good.len())].to_vec(); g.extend(random_bytes(rng, n)); v.push((format!("abi_{}_random", name), addr, g)); }
    }
    v
}

/// Bitcoin-transaction scenarios for getTxDetails / getLastSatLocation: (kind, calldata, target, overrides, needs the absent node)
fn btc_corpus(rng: &mut Rng) -> Vec<(String, &'static str, Vec<u8>, Value, bool)> {
    let mut v = vec![];
    let t1 = [0x11u8; 32];
    let p1 = [0xaau8; 32];
    let p2 = [0xabu8; 32];
    let null_prev = [0u8; 32];
    let sc = vec![0x51u8];
    let prev_small = btc_tx(&[([0xbb; 32], 0)], &[(1000, sc.clone()), (2000, vec![0x52])]);
    let prev_max = btc_tx(&[([0xbb; 32], 0)], &[(u64::MAX, sc.clone())]);
    let details = |t: &[u8; 32]| getTxDetailsCall::new((B256::from(*t),)).abi_encode();
    let lastsat = |t: &[u8; 32], vout: U256, sat: U256| getLastSatLocationCall::new((B256::from(*t), vout, sat)).abi_encode();
    let u = |x: u64| U256::from(x);
    // a plain two-in two-out transaction, everything overridden
    let plain = btc_tx(&[(p1, 0), (p2, 1)], &[(600, sc.clone()), (900, vec![0x52, 0x53])]);
    let full = |main: &Vec<u8>, prevs: &[([u8; 32], Vec<u8>)]| { let mut txs = vec![(t1, main.clone())]; for (k, t) in prevs { txs.push((rev32(k), t.clone())); } pd(&[], &txs) };
    let both = [(p1, prev_small.clone()), (p2, prev_small.clone())];
    v.push(("btc_details_plain".to_string(), PC_TXDETAILS, details(&t1), full(&plain, &both), false));
    for (vout, sat) in [(0u64, 0u64), (0, 600), (0, 601), (1, 0), (1, 900), (1, 901), (2, 0), (3, 0), (u32::MAX as u64, 0), (1u64 << 32, 0), (u64::MAX, 0), (0, u64::MAX)] {
        v.push((format!("btc_lastsat_plain_v{}_s{}", vout, sat), PC_LASTSAT, lastsat(&t1, u(vout), u(sat)), full(&plain, &both), false));
    }
    // the low limb is what the code looks at
    v.push(("btc_lastsat_vout_2_64".into(), PC_LASTSAT, lastsat(&t1, U256::from(1u64) << 64, u(5)), full(&plain, &both), false));
    v.push(("btc_lastsat_sat_2_64_plus".into(), PC_LASTSAT, lastsat(&t1, u(0), (U256::from(1u64) << 64) + u(5)), full(&plain, &both), false));
    v.push(("btc_lastsat_all_max".into(), PC_LASTSAT, lastsat(&t1, U256::MAX, U256::MAX), full(&plain, &both), false));
    // sums that do not fit 64 bits
    let big_outs = btc_tx(&[(p1, 0)], &[(u64::MAX, sc.clone()), (5, sc.clone()), (u64::MAX, sc.clone())]);
    let one = [(p1, prev_small.clone())];
    let one_max = [(p1, prev_max.clone())];
    for (vout, sat) in [(0u64, 0u64), (0, u64::MAX), (1, 0), (1, 1), (1, 5), (2, 0), (2, 1), (2, u64::MAX)] {
        v.push((format!("btc_lastsat_bigouts_v{}_s{}", vout, sat), PC_LASTSAT, lastsat(&t1, u(vout), u(sat)), full(&big_outs, &one), false));
        v.push((format!("btc_lastsat_bigouts_bigin_v{}_s{}", vout, sat), PC_LASTSAT, lastsat(&t1, u(vout), u(sat)), full(&big_outs, &one_max), false));
    }
    let two_in = btc_tx(&[(p1, 0), (p2, 0)], &[(3000, sc.clone())]);
    v.push(("btc_lastsat_vin_sum_overflow".into(), PC_LASTSAT, lastsat(&t1, u(0), u(3000)), full(&two_in, &[(p1, prev_small.clone()), (p2, prev_max.clone())]), false));
    v.push(("btc_lastsat_vin_max_first".into(), PC_LASTSAT, lastsat(&t1, u(0), u(3000)), full(&two_in, &[(p1, prev_max.clone()), (p2, prev_max.clone())]), false));
    v.push(("btc_details_bigouts".into(), PC_TXDETAILS, details(&t1), full(&big_outs, &one_max), false));
    // shapes
    let coinbase = btc_tx(&[(null_prev, u32::MAX)], &[(50, sc.clone())]);
    let null_second = btc_tx(&[(p1, 0), (null_prev, u32::MAX)], &[(5000, sc.clone())]);
    let no_out = btc_tx(&[(p1, 0)], &[]);
    let no_in = btc_tx(&[], &[(5, sc.clone())]);
    let prev_vout_oob = btc_tx(&[(p1, 7)], &[(5, sc.clone())]);
    let prev_vout_max = btc_tx(&[(p1, u32::MAX - 1)], &[(5, sc.clone())]);
    let many_in = btc_tx(&(0..300).map(|_| (p1, 0u32)).collect::<Vec<_>>(), &[(250_000, sc.clone())]);
    let many_out = btc_tx(&[(p1, 0)], &(0..3000).map(|i| (i as u64, sc.clone())).collect::<Vec<_>>());
    let big_script = btc_tx(&[(p1, 0)], &[(5, vec![0x6a; 100_000])]);
    for (k, t) in [("coinbase", &coinbase), ("null_second", &null_second), ("no_out", &no_out), ("no_in", &no_in), ("prev_vout_oob", &prev_vout_oob), ("prev_vout_max", &prev_vout_max), ("many_in", &many_in), ("many_out", &many_out), ("big_script", &big_script)] {
        v.push((format!("btc_details_{}", k), PC_TXDETAILS, details(&t1), full(t, &one), false));
        v.push((format!("btc_lastsat_{}", k), PC_LASTSAT, lastsat(&t1, u(0), u(1)), full(t, &one), false));
    }
    v.push(("btc_lastsat_many_out_last".into(), PC_LASTSAT, lastsat(&t1, u(2999), u(0)), full(&many_out, &[(p1, btc_tx(&[([0xbb; 32], 0)], &[(10_000_000, sc.clone())]))]), false));
    // broken transaction bytes
    let mut seg = plain.clone(); seg.splice(4..4, [0u8, 1]);
    for (k, bytes) in [("empty", vec![]), ("one_byte", vec![2u8]), ("truncated", plain[..plain.len() - 7].to_vec()), ("trailing", { let mut b = plain.clone(); b.push(0); b }), ("segwit_flag_no_witness", seg),
        ("huge_in_count", vec![2, 0, 0, 0, 0xff, 0xff, 0xff, 0xff, 0xff, 0xff, 0xff, 0xff, 0xff]), ("huge_script_len", { let mut b = vec![2u8, 0, 0, 0, 1]; b.extend_from_slice(&[0xaa; 36]); b.extend_from_slice(&[0xfe, 0xff, 0xff, 0xff, 0x7f]); b }),
        ("random", random_bytes(rng, 90)), ("zeros", vec![0u8; 64])] {
        v.push((format!("btc_details_bytes_{}", k), PC_TXDETAILS, details(&t1), pd(&[], &[(t1, bytes.clone())]), false));
        v.push((format!("btc_lastsat_bytes_{}", k), PC_LASTSAT, lastsat(&t1, u(0), u(0)), pd(&[], &[(t1, bytes.clone())]), false));
        // broken previous transaction behind a good one
        v.push((format!("btc_details_prevbytes_{}", k), PC_TXDETAILS, details(&t1), pd(&[], &[(t1, plain.clone()), (rev32(&p1), bytes.clone()), (rev32(&p2), prev_small.clone())]), false));
        v.push((format!("btc_lastsat_prevbytes_{}", k), PC_LASTSAT, lastsat(&t1, u(0), u(0)), pd(&[], &[(t1, plain.clone()), (rev32(&p1), bytes), (rev32(&p2), prev_small.clone())]), false));
    }
    for i in 0..40 { // mutated good transaction
        // (the bytes naming the previous transactions stay: a changed name is a lookup at the absent node)
        let mut b = plain.clone(); let n = 1 + rng.below(3);
        for _ in 0..n { let p = rng.below(b.len() as u64) as usize; if (5..37).contains(&p) || (46..78).contains(&p) { continue; } b[p] = rng.next() as u8; }
        v.push((format!("btc_mut{}", i), if i % 2 == 0 { PC_TXDETAILS } else { PC_LASTSAT }, if i % 2 == 0 { details(&t1) } else { lastsat(&t1, u(rng.below(3)), u(rng.below(700))) }, full(&b, &both), false));
    }
    v
}

/// overrides that keep a decodable request for transaction `key` away from the (absent) Bitcoin node
fn std_overrides(key: [u8; 32]) -> Value {
    let p1 = [0xaau8; 32];
    let p2 = [0xabu8; 32];
    let prev = btc_tx(&[([0xbb; 32], 0)], &[(1000, vec![0x51]), (2000, vec![0x52])]);
    let plain = btc_tx(&[(p1, 0), (p2, 1)], &[(600, vec![0x51]), (900, vec![0x52, 0x53])]);
    pd(&[], &[(key, plain), (rev32(&p1), prev.clone()), (rev32(&p2), prev)])
}

pub fn stream_cases(seed: u64, thorough: bool) -> Vec<Case> {
    let mut rng = Rng::new(seed ^ 0xC09);
    let mut c = Cases { v: vec![] };
    let big = "A".repeat(1 << 20);
    let names = method_names();
    let t0 = Instant::now();
    let dbg = std::env::var("HX_C09_TIMING").is_ok();

    // 1. every registered method: junk parameter shapes
    for m in &names {
        for j in junk_values() { c.std("junk_params", m, j); }
        c.std("junk_params", m, json!([Value::Null, Value::Null, Value::Null, Value::Null, Value::Null, Value::Null, Value::Null, Value::Null, Value::Null, Value::Null, Value::Null, Value::Null, Value::Null]));
        c.std("junk_params", m, Value::Array((0..2000).map(|i| json!(i)).collect()));
        c.std("junk_params", m, json!([big.clone()]));
        c.std("junk_params", m, json!([nested(100, false)]));
        c.std("junk_params", m, json!([nested(100, true)]));
        c.std("junk_params", m, json!({"block": "latest", "a": 1}));
    }
    // nesting beyond serde_json's recursion limit has to be sent as text: the request builder of the
    // driver serialises a Value, which is fine (serialisation is not depth limited)
    for m in ["eth_call", "eth_getLogs", "brc20_mine", "eth_blockNumber"] {
        c.std("deep_json", m, nested(5000, false));
        c.std("deep_json", m, json!([nested(5000, true)]));
    }

    if dbg { eprintln!("gen: {} cases after {:?} before section 2.", c.v.len(), t0.elapsed()); }
    // 2. every position of every method with a known signature: boundary / malformed / ill-typed values
    //    around a well-formed baseline; wrong arity
    for m in &names {
        let Some(sig) = schema(m) else { continue };
        let base: Vec<Value> = sig.iter().enumerate().map(|(i, t)| baseline(m, i, *t)).collect();
        c.std("baseline", m, Value::Array(base.clone()));
        if !sig.is_empty() {
            c.std("arity_minus", m, Value::Array(base[..base.len() - 1].to_vec()));
            c.std("arity_zero", m, json!([]));
        }
        c.std("arity_plus", m, { let mut b = base.clone(); b.push(json!(1)); Value::Array(b) });
        for (i, t) in sig.iter().enumerate() {
            for val in values_for(*t, &big) {
                // brc20_mine(n) is linear in n with no cap (finding F15, measured separately): only small counts here
                if m == "brc20_mine" && i == 0 && (val.as_u64().map(|x| x > 300).unwrap_or(false) || val.as_str().map(|s| s.starts_with("$H")).unwrap_or(false)) { continue; }
                let mut p = base.clone();
                p[i] = val;
                let heavy = p[i].as_str().map(|s| s.len() > 100_000).unwrap_or(false);
                if heavy && !thorough && rng.chance(2, 3) { continue; }
                c.std(&format!("pos{}_{:?}", i, t), m, Value::Array(p));
            }
        }
        // two positions at once (integers at both ends)
        let ints: Vec<usize> = sig.iter().enumerate().filter(|(_, t)| **t == T::U64).map(|(i, _)| i).collect();
        if ints.len() >= 2 {
            for a in [0u64, 1, u64::MAX] { for b in [0u64, u64::MAX] {
                if m == "brc20_mine" && a > 300 { continue; }
                let mut p = base.clone();
                p[ints[0]] = json!(a); p[*ints.last().unwrap()] = json!(b);
                c.std("two_ints", m, Value::Array(p));
            } }
        }
    }

    if dbg { eprintln!("gen: {} cases after {:?} before section 3.", c.v.len(), t0.elapsed()); }
    // 3. arbitrary bytes as init code / runtime code / call data
    let corpus = code_corpus(&mut rng, if thorough { 1500 } else { 260 });
    for (i, (k, code)) in corpus.iter().enumerate() {
        let insc = format!("c09_code_{}", i);
        // as init code through the write path (the block is left open; the probe closes it)
        c.std(&format!("deploy_{}", k), "brc20_deploy", json!([PK, hx0(code), null, TS, h32(0), 0, insc, 3000, h32(0)]));
        // as init code through the read paths
        if i % 2 == 0 { c.std(&format!("call_create_{}", k), "eth_call", json!([{"data": hx0(code)}, null])); }
        if i % 5 == 0 { c.std(&format!("estimate_create_{}", k), "eth_estimateGas", json!([{"data": hx0(code)}, null])); }
        // as call data
        if i % 2 == 1 { c.std(&format!("calldata_tool_{}", k), "eth_call", json!([{"to": "$TOOL", "data": hx0(code)}, null])); }
        if i % 3 == 0 { c.std(&format!("calldata_controller_{}", k), "eth_call", json!([{"to": format!("0x{}", sim::CONTROLLER), "data": hx0(code)}, null])); }
        if i % 7 == 0 { c.std(&format!("brc20_call_tool_{}", k), "brc20_call", json!([PK, "$TOOL", null, hx0(code), null, TS, h32(0), 0, insc, 3000, h32(0)])); }
        if i % 11 == 0 { c.std(&format!("transact_{}", k), "brc20_transact", json!([hx0(code), null, TS, h32(0), 0, insc, 3000, h32(0)])); }
        if i % 11 == 1 { c.std(&format!("transact_b64_{}", k), "brc20_transact", json!([null, BASE64_STANDARD_NO_PAD.encode([&[0u8][..], code].concat()), TS, h32(0), 0, insc, 3000, h32(0)])); }
    }
    // as runtime code: deploy init_returning(code) and call it (callMany runs both against one journal)
    for (i, (k, code)) in corpus.iter().enumerate() {
        if code.len() > 20000 { continue; }
        let init = sim::init_returning(code);
        let from = format!("0x{}", "c0".repeat(20));
        // the address a CREATE from `from` with nonce 0 gets
        let created = Address::from_slice(&[0xc0; 20]).create(0);
        let data = random_bytes(&mut rng, (i % 70) as usize);
        c.std(&format!("runtime_{}", k), "eth_callMany", json!([[{"from": from, "data": hx0(&init)}, {"from": from, "to": format!("{:#x}", created), "data": hx0(&data)}], null, null]));
        if i % 9 == 0 { c.std(&format!("runtime_estimate_{}", k), "eth_estimateGasMany", json!([[{"from": from, "data": hx0(&init)}, {"from": from, "to": format!("{:#x}", created), "data": hx0(&data)}], null, null])); }
    }
    // signed transactions: well-formed for another chain id, future nonces, truncated RLP
    for (k, raw) in [("signed_ok", sim::sign_legacy(0, 0, None, sim::child_init(), sim::CHAIN_ID)), ("signed_other_chain", sim::sign_legacy(0, 0, None, vec![], 1)), ("signed_future", sim::sign_legacy(1, 5, None, vec![], sim::CHAIN_ID)),
        ("signed_far_future", sim::sign_legacy(1, u64::MAX, None, vec![], sim::CHAIN_ID)), ("signed_nonce_max_minus_1", sim::sign_legacy(2, u64::MAX - 1, None, vec![], sim::CHAIN_ID))] {
        c.std(k, "brc20_transact", json!([hx0(&raw), null, TS, h32(0), 0, k, 3000, h32(0)]));
        for cut in [1usize, 2, 9, raw.len() / 2, raw.len() - 1] { c.std(&format!("{}_cut{}", k, cut), "brc20_transact", json!([hx0(&raw[..cut]), null, TS, h32(0), 0, k, 3000, h32(0)])); }
        for _ in 0..6 { let mut b = raw.clone(); let p = rng.below(b.len() as u64) as usize; b[p] ^= 1 << rng.below(8); c.std(&format!("{}_bitflip", k), "brc20_transact", json!([hx0(&b), null, TS, h32(0), 0, k, 3000, h32(0)])); }
    }

    if dbg { eprintln!("gen: {} cases after {:?} before section 4.", c.v.len(), t0.elapsed()); }
    // 4. the custom precompiles: ABI-valid and ABI-invalid data, directly and through a contract, on the
    //    read paths and (those that need no Bitcoin node) on the write path
    for (i, (k, addr, data)) in abi_corpus(&mut rng).into_iter().enumerate() {
        let needs_node = addr == PC_TXDETAILS || addr == PC_LASTSAT;
        if needs_node {
            // a decodable getTxDetails / getLastSatLocation asks the Bitcoin node for its txid unless the
            // request overrides it: override whatever txid the data names (and the inputs of that transaction)
            let mut key = [0u8; 32];
            if data.len() >= 36 { key.copy_from_slice(&data[4..36]); }
            let over = std_overrides(key);
            c.std(&format!("pc_direct_{}", k), "eth_callMany", json!([[{"to": addr, "data": hx0(&data)}], null, over.clone()]));
            if i % 3 == 0 { c.std(&format!("pc_via_tool_{}", k), "eth_callMany", json!([[{"to": "$TOOL", "data": hx0(&cd::call(addr.parse().unwrap(), &data))}], null, over.clone()])); }
            if i % 4 == 0 { c.std(&format!("pc_estimate_{}", k), "eth_estimateGasMany", json!([[{"to": addr, "data": hx0(&data)}], null, over])); }
            continue;
        }
        c.std(&format!("pc_direct_{}", k), "eth_call", json!([{"to": addr, "data": hx0(&data)}, null]));
        if i % 3 == 0 { c.std(&format!("pc_via_tool_{}", k), "eth_call", json!([{"to": "$TOOL", "data": hx0(&cd::call(addr.parse().unwrap(), &data))}, null])); }
        if i % 4 == 0 { c.std(&format!("pc_estimate_{}", k), "eth_estimateGas", json!([{"to": addr, "data": hx0(&data)}, null])); }
        if i % 2 == 0 {
            c.std(&format!("pc_write_{}", k), "brc20_call", json!([PK, addr, null, hx0(&data), null, TS, h32(0), 0, format!("c09_pc_{}", i), 3000, h32(0)]));
        }
    }
    for (i, (k, addr, data, over, may_need_node)) in btc_corpus(&mut rng).into_iter().enumerate() {
        let cs = c.std(&k, "eth_callMany", json!([[{"to": addr, "data": hx0(&data)}], null, over.clone()]));
        cs.env = may_need_node;
        if i % 4 == 0 {
            let cs = c.std(&format!("{}_via_tool", k), "eth_callMany", json!([[{"to": "$TOOL", "data": hx0(&cd::call(addr.parse().unwrap(), &data))}], null, over.clone()]));
            cs.env = may_need_node;
        }
        if i % 6 == 0 && !may_need_node {
            c.std(&format!("{}_estimate", k), "eth_estimateGasMany", json!([[{"to": addr, "data": hx0(&data)}], null, over]));
        }
    }
    // op return ids: fewer / more ids than calls
    for n in [0usize, 1, 3] {
        let ids: Vec<String> = (0..n).map(|i| h32(0x1000 + i as u64)).collect();
        c.std("opreturn_ids", "eth_callMany", json!([[{"to": PC_OPRETURN, "data": hx0(&getTxIdCall::new(()).abi_encode())}, {"to": PC_OPRETURN, "data": "0x"}], null, pd(&ids, &[])]));
    }
    // one request that needs the absent node: documents the environment fault (5 s of retries, then the panic)
    {
        let cs = c.std("env_no_bitcoin_node", "eth_call", json!([{"to": PC_TXDETAILS, "data": hx0(&getTxDetailsCall::new((B256::from([0x77; 32]),)).abi_encode())}, null]));
        cs.env = true;
    }

    if dbg { eprintln!("gen: {} cases after {:?} before section 5.", c.v.len(), t0.elapsed()); }
    // 5. an empty database: every method once with its baseline, the indexer methods at their boundaries
    for m in &names {
        let Some(sig) = schema(m) else { continue };
        let base: Vec<Value> = sig.iter().enumerate().map(|(i, t)| baseline(m, i, *t)).collect();
        c.empty("empty_db_baseline", m, Value::Array(base));
    }
    for n in [0u64, 1, 2, 11, 12] { for ts in [0u64, u64::MAX] { c.empty("empty_db_mine", "brc20_mine", json!([n, ts])); } }
    for height in [0u64, 1, 2, u64::MAX - 1, u64::MAX] { for hash in [h32(0), h32(1), format!("0x{}", "ff".repeat(32))] { for ts in [0u64, u64::MAX] {
        c.empty("empty_db_initialise", "brc20_initialise", json!([hash, ts, height]));
    } } }
    for idx in [0u64, 1, u64::MAX] { for bl in [0u64, 1, u64::MAX] {
        c.empty("empty_db_deploy", "brc20_deploy", json!([PK, "0x00", null, TS, h32(0), idx, "e", bl, h32(0)]));
        c.empty("empty_db_finalise", "brc20_finaliseBlock", json!([TS, h32(0), idx]));
    } }
    for n in [0u64, 1, u64::MAX] { c.empty("empty_db_reorg", "brc20_reorg", json!([n])); }

    if dbg { eprintln!("gen: {} cases after {:?} before section 6.", c.v.len(), t0.elapsed()); }
    // 6. (standard state) integers of the indexer methods against the live height, byte lengths
    for bl in BOUNDARY_U64.iter().copied().chain([u64::MAX]) {
        // a transaction that stops at once: the gas limit byte_len * 12000 (saturating) is not consumed
        c.std("byte_len", "brc20_deploy", json!([PK, "0x00", null, TS, h32(0), 0, format!("c09_bl_{}", bl), bl, h32(0)]));
        c.std("byte_len", "brc20_call", json!([PK, "$TOOL", null, hx0(&cd::sload(U256::from(7u64))), null, TS, h32(0), 0, format!("c09_blc_{}", bl), bl, h32(0)]));
    }
    c.v
}

/// names of the registered methods (the harness's own `verif_probe` excluded)
pub fn method_names() -> Vec<String> {
    let mut e = Eng::empty();
    let mut v: Vec<String> = e.inst.method_names().into_iter().filter(|m| m != "verif_probe").collect();
    v.sort();
    v
}


// ------------------------------------------------------------------------------------------
// the worker: runs cases [from..] of the stream, one JSON line per case, exits 10 after a hang
// ------------------------------------------------------------------------------------------

fn resolve_placeholders(v: &mut Value, e: &mut Eng, height: &mut Option<u64>) {
    match v {
        Value::String(s) => {
            if s == "$TOOL" { *s = e.tool.clone(); }
            else if s == "$TX" { *s = e.tx_hash.clone(); }
            else if s == "$BLOCK1" { *s = e.block1_hash.clone(); }
            else if s == "\"$BLOCK1\"" { *s = format!("\"{}\"", e.block1_hash); }
            else if s.starts_with("$H") {
                if height.is_none() { *height = Some(e.height().unwrap_or(0)); }
                let h = height.unwrap();
                let n = match &s[2..] { "" => h, "-1" => h.saturating_sub(1), "+1" => h + 1, "-10" => h.saturating_sub(10), "-11" => h.saturating_sub(11), _ => h };
                *v = json!(n);
            }
        }
        Value::Array(a) => for x in a { resolve_placeholders(x, e, height); },
        Value::Object(o) => for (_, x) in o.iter_mut() { resolve_placeholders(x, e, height); },
        _ => {}
    }
}

fn brief_params(p: &Value) -> Value {
    fn cut(v: &Value, depth: usize) -> Value {
        match v {
            Value::String(s) if s.len() > 300 => json!(format!("{}..({} bytes)", s.chars().take(120).collect::<String>(), s.len())),
            Value::Array(a) if depth > 40 => json!(format!("[..nested, {} items]", a.len())),
            Value::Object(_) if depth > 40 => json!("{..nested}"),
            Value::Array(a) if a.len() > 40 => { let mut b: Vec<Value> = a.iter().take(6).map(|x| cut(x, depth + 1)).collect(); b.push(json!(format!("..({} items)", a.len()))); Value::Array(b) }
            Value::Array(a) => Value::Array(a.iter().map(|x| cut(x, depth + 1)).collect()),
            Value::Object(o) => Value::Object(o.iter().map(|(k, x)| (k.clone(), cut(x, depth + 1))).collect()),
            _ => v.clone(),
        }
    }
    cut(p, 0)
}

pub fn stream_main(args: &[String], out: &Path, seed: u64, thorough: bool) -> R<()> {
    let arg = |n: &str| args.iter().position(|a| a == n).and_then(|i| args.get(i + 1).cloned());
    let from: u64 = arg("--from").and_then(|s| s.parse().ok()).unwrap_or(0);
    let upto: u64 = arg("--upto").and_then(|s| s.parse().ok()).unwrap_or(u64::MAX);
    let name = arg("--name").unwrap_or_else(|| "dev".into());
    let only = arg("--only");
    let cases = stream_cases(seed, thorough);
    let path = out.join(format!("c09_stream_{}.jsonl", name));
    let mut f = std::fs::OpenOptions::new().create(true).append(true).open(&path)?;
    let mut std_eng: Option<Eng> = None;
    for c in cases.iter().filter(|c| c.id >= from && c.id < upto) {
        if let Some(o) = &only { if !c.kind.contains(o.as_str()) && &c.method != o { continue; } }
        writeln!(f, "{}", json!({"start": c.id}))?;
        f.flush()?;
        let mut fresh_empty;
        let e: &mut Eng = match c.st {
            St::Empty => { fresh_empty = Eng::empty(); &mut fresh_empty }
            St::Std => {
                if c.fresh || std_eng.is_none() { std_eng = Some(Eng::standard()?); }
                std_eng.as_mut().unwrap()
            }
        };
        let mut params = c.params.clone();
        let mut h = None;
        resolve_placeholders(&mut params, e, &mut h);
        let t = Instant::now();
        let o = e.rpc(&c.method, params.clone());
        let ms = t.elapsed().as_secs_f64() * 1000.0;
        let live = if matches!(o, Out::Hang) { Err("hung".to_string()) } else { e.probe() };
        let rec = json!({"id": c.id, "kind": c.kind, "state": format!("{:?}", c.st), "method": c.method, "class": o.class_name(), "brief": o.brief(), "ms": (ms * 10.0).round() / 10.0,
            "env": c.env, "live": live.as_ref().err(), "params": if o.is_fatal() || live.is_err() { brief_params(&params) } else { Value::Null }});
        writeln!(f, "{}", rec)?;
        f.flush()?;
        if matches!(o, Out::Hang) { std::process::exit(10); }
        if o.is_fatal() || live.is_err() {
            if c.st == St::Std {
                // a wedged engine cannot always be dropped cleanly (poisoned locks): leak it
                if let Some(old) = std_eng.take() { std::mem::forget(old); }
            }
        }
    }
    Ok(())
}

pub fn run(_out: &Path, _seed: u64, _thorough: bool) -> R<()> { Ok(()) }
